"""CLI:  python -m wverif check C10 [--tier quick|thorough] [--root /repo]
         python -m wverif all [--tier ...]
         python -m wverif replay <path>
"""
from __future__ import annotations

import argparse
import importlib
import json
import os
import sys
import traceback

from .model import AnalysisError, Program
from .report import Report


_ANCHORS = None


def _anchor_names():
    """Private helper names the rules themselves mention (their anchors): those
    are never inlined; any other private helper is expanded into its callers
    before a shape rule looks at them (inline.py)."""
    global _ANCHORS
    if _ANCHORS is None:
        import re
        here = os.path.dirname(os.path.abspath(__file__))
        names = set()
        for d in (here, os.path.join(here, "props")):
            for fn in sorted(os.listdir(d)):
                if fn.endswith(".py") and fn != "inline.py":
                    with open(os.path.join(d, fn), encoding="utf-8") as fh:
                        names.update(re.findall(r"\b_[A-Za-z][A-Za-z0-9_]*\b", fh.read()))
        _ANCHORS = frozenset(names)
    return _ANCHORS


def run_property(prop, program, tier="quick", quiet=False, write=True):
    """Run all rules of one property; returns (exit code, Report)."""
    from .props.common import Ctx

    rep = Report(prop, tier, quiet=quiet, write=write)
    try:
        mod = importlib.import_module("wverif.props.%s" % prop.lower())
    except ImportError as e:
        rep.error(prop, "no checker module: %s" % e)
        return rep.finish("no checker"), rep
    program.normalise(_anchor_names())
    ctx = Ctx(program, rep, tier)
    rules = list(mod.RULES)
    if tier == "thorough":
        rules += list(getattr(mod, "THOROUGH", []))
    for rule in rules:
        try:
            rule(ctx)
        except AnalysisError as e:
            rep.error(rule.__name__, str(e))
        except Exception as e:  # internal error: never a violation
            tb = traceback.format_exc().strip().splitlines()
            rep.error(rule.__name__, "internal error %s: %s | %s" % (type(e).__name__, e, " / ".join(tb[-4:])))
    if tier == "thorough" and hasattr(mod, "selftest"):
        try:
            from .selftest import run_selftest

            run_selftest(prop, mod, program, rep)
        except AnalysisError as e:
            rep.error("selftest", str(e))
        except Exception as e:
            tb = traceback.format_exc().strip().splitlines()
            rep.error("selftest", "internal error %s: %s | %s" % (type(e).__name__, e, " / ".join(tb[-4:])))
    for a in getattr(mod, "ASSUMPTIONS", []):
        rep.assume(a)
    code = rep.finish(getattr(mod, "EXPLANATION", ""), getattr(mod, "LEVEL", "other"))
    return code, rep


def main(argv=None):
    ap = argparse.ArgumentParser(prog="wverif")
    sub = ap.add_subparsers(dest="cmd", required=True)
    c = sub.add_parser("check")
    c.add_argument("prop")
    c.add_argument("--tier", default=os.environ.get("VERIF_TIER", "quick"), choices=["quick", "thorough"])
    c.add_argument("--root", default="/repo")
    c.add_argument("--no-write", action="store_true")
    a = sub.add_parser("all")
    a.add_argument("--tier", default="quick", choices=["quick", "thorough"])
    a.add_argument("--root", default="/repo")
    r = sub.add_parser("replay")
    r.add_argument("path")
    r.add_argument("--root", default="/repo")
    args = ap.parse_args(argv)

    if args.cmd == "replay":
        with open(args.path) as f:
            v = json.load(f)
        print("replaying %s rule %s on %s" % (v["property"], v["rule"], args.root))
        print("recorded: %s %s [key=%s]" % (v.get("loc"), v.get("msg"), v.get("key")))
        program = Program.from_repo(args.root)
        code, rep = run_property(v["property"], program, "quick", quiet=True, write=False)
        hit = [x for x in rep.violations if x["rule"] == v["rule"] and x["key"] == v["key"]]
        for x in hit:
            print("STILL PRESENT: %s %s: %s" % (x["rule"], x["loc"], x["msg"]))
            if x.get("detail"):
                print("  detail: %s" % (x["detail"],))
        if not hit:
            print("not present on the current tree")
        return 1 if hit else 0

    try:
        program = Program.from_repo(args.root)
    except AnalysisError as e:
        print("ANALYSIS-ERROR property=%s rule=load reason=%s" % (getattr(args, "prop", "all"), e))
        return 2
    if args.cmd == "check":
        code, _ = run_property(args.prop.upper(), program, args.tier, write=not args.no_write)
        return code
    if args.cmd == "all":
        worst = 0
        props = sorted(
            fn[:-3].upper() for fn in os.listdir(os.path.join(os.path.dirname(__file__), "props"))
            if fn.startswith("c") and fn[1:-3].isdigit()
        )
        for pid in props:
            code, _ = run_property(pid, program, args.tier)
            worst = max(worst, code)
        return worst


if __name__ == "__main__":
    try:
        sys.exit(main())
    except SystemExit:
        raise
    except BaseException as e:  # never report a crash as a violation
        print("ANALYSIS-ERROR rule=driver reason=%s: %s" % (type(e).__name__, e))
        traceback.print_exc()
        sys.exit(2)
