"""E2 — resolved call graph through a small flow-insensitive points-to /
type inference (0-CFA on classes, bound methods, closures, containers).

Values:  ('inst', Class)  ('cls', Class)  ('func', Func)  ('bound', Func, Class)
         ('mod', Module)  ('cont', site_id)  ('ext', dotted)  ('none',)
Variables are keyed tuples: ('local', funcqual, name), ('field', classqual, attr),
('ret', funcqual), ('elem', site_id), ('glob', modname, name).
"""
from __future__ import annotations

import ast

from .model import AnalysisError, dotted, norm, walk_own

_CONT_CTORS = {"list", "dict", "set", "frozenset", "deque", "tuple", "sorted", "reversed"}
_CONT_ADD = {"append", "add", "appendleft", "extend", "insert", "setdefault"}
_CONT_GET = {"pop", "popleft", "get", "values", "items", "copy", "__getitem__", "popitem"}


def _ext(name):
    """Bounded external-value names (the lattice must be finite)."""
    if len(name) > 48 or name.count(".") + name.count("(") + name.count("[") > 4:
        return ("ext", "opaque")
    return ("ext", name)


class Site:
    """A call site."""

    def __init__(self, func, node, stmt=None):
        self.func = func  # caller Func
        self.node = node  # ast.Call (or Attribute for property reads)
        self.targets = set()  # callee Funcs
        self.edges = set()  # (callee Func, receiver Class | None | 'SELF')
        self.ext = set()  # external callee names
        self.recv_types = set()
        self.bindings = {}  # callee qual -> {param: arg expr or ('self', None)}
        self.unresolved = False

    @property
    def loc(self):
        return self.func.loc(self.node)


class CallGraph:
    def __init__(self, program):
        self.p = program
        self.vals = {}  # var -> set(values)
        self.sites = {}  # id(call node) -> Site
        self.func_sites = {}  # funcqual -> [Site]
        self.callers = {}  # funcqual -> [Site]
        self.thread_targets = []  # (Site, value)
        self._cont_n = 0
        self._cont_sites = {}
        self._changed = False
        self._build()

    # ------------------------------------------------------------------
    def get(self, var):
        return self.vals.get(var, set())

    def add(self, var, values):
        if not values:
            return
        cur = self.vals.setdefault(var, set())
        n = len(cur)
        cur |= values
        if len(cur) != n:
            self._changed = True

    def cont(self, node):
        k = id(node)
        if k not in self._cont_sites:
            self._cont_sites[k] = ("cont", len(self._cont_sites))
        return self._cont_sites[k]

    # ------------------------------------------------------------------
    def _build(self):
        p = self.p
        seeded = False
        for it in range(80):
            self._changed = False
            for m in p.modules.values():
                self._module_level(m)
            for f in p.functions.values():
                self._function(f)
            if not self._changed:
                if seeded:
                    break
                self._seed_self()
                seeded = True
        else:
            raise AnalysisError("call graph inference did not converge")
        self.callers = {}
        for s in self.sites.values():
            for t in s.targets:
                self.callers.setdefault(t.qual, []).append(s)

    def _seed_self(self):
        """Methods never called from inside the package get CHA receivers."""
        for f in self.p.functions.values():
            if f.cls is not None and f.parent is None and f.params and not f.is_staticmethod:
                var = ("local", f.qual, f.params[0])
                if not self.get(var):
                    classes = [f.cls] + [c for c in f.cls.all_subclasses() if c.lookup(f.name) is f]
                    if f.is_classmethod:
                        self.add(var, {("cls", c) for c in classes})
                    else:
                        self.add(var, {("inst", c) for c in classes})

    def _module_level(self, m):
        # module-level assignments of containers / instances
        for st in m.toplevel:
            if isinstance(st, ast.Assign) and len(st.targets) == 1 and isinstance(st.targets[0], ast.Name):
                v = self._eval(st.value, None, m)
                self.add(("glob", m.name, st.targets[0].id), v)

    # ------------------------------------------------------------------
    def _lookup_name(self, name, f, m):
        g = f
        while g is not None:
            var = ("local", g.qual, name)
            if var in self.vals or name in g.params or name in g.kwonly or name == g.vararg or name == g.kwarg or name in self._locals(g):
                return self.get(var)
            g = g.parent
        r = self.p.resolve_global(m, name)
        if r is None:
            return {("ext", "builtins." + name)}
        if r[0] == "class":
            return {("cls", r[1])}
        if r[0] == "func":
            return {("func", r[1])}
        if r[0] == "mod":
            return {("mod", r[1])}
        if r[0] == "ext":
            return {("ext", r[1])}
        if r[0] == "const":
            return self.get(("glob", r[1].name, name)) or self._eval(r[2], None, r[1])
        return set()

    def _locals(self, f):
        c = getattr(f, "_local_names", None)
        if c is None:
            c = set()
            for n in walk_own(f.node):
                if isinstance(n, ast.Name) and isinstance(n.ctx, ast.Store):
                    c.add(n.id)
                elif isinstance(n, (ast.FunctionDef, ast.ClassDef)):
                    c.add(n.name)
                elif isinstance(n, ast.ExceptHandler) and n.name:
                    c.add(n.name)
            f._local_names = c
        return c

    def _attr_of(self, base_vals, attr, f, node):
        """Values of  <base>.attr ; may create call edges for properties."""
        out = set()
        for v in base_vals:
            k = v[0]
            if k == "inst":
                c = v[1]
                meth = c.lookup(attr)
                if meth is not None:
                    if meth.is_property:
                        self._edge(f, node, meth, {meth.params[0]: {v}} if meth.params else {}, None, c)
                        out |= self.get(("ret", meth.qual))
                    elif meth.is_staticmethod:
                        out.add(("func", meth))
                    elif meth.is_classmethod:
                        out.add(("bound", meth, ("cls", c)))
                    else:
                        out.add(("bound", meth, v))
                    continue
                found = False
                for k2 in [c] + c.mro[1:] + c.all_subclasses():
                    fv = self.vals.get(("field", k2.qual, attr))
                    if fv:
                        out |= fv
                        found = True
                ca = c.lookup_attr(attr)
                if ca is not None:
                    out |= self._eval(ca[1], None, ca[0].module)
                    found = True
                if not found:
                    out.add(("ext", "?." + attr))
            elif k == "cls":
                c = v[1]
                meth = c.lookup(attr)
                if meth is not None:
                    if meth.is_classmethod:
                        out.add(("bound", meth, v))
                    else:
                        out.add(("func", meth))
                    continue
                ca = c.lookup_attr(attr)
                if ca is not None:
                    out |= self._eval(ca[1], None, ca[0].module)
                else:
                    out.add(("ext", "?." + attr))
            elif k == "mod":
                out |= self._lookup_name(attr, None, v[1])
            elif k == "ext":
                out.add(_ext(v[1] + "." + attr))
            elif k == "cont":
                out.add(("contm", v, attr))
            elif k == "super":
                c, inst = v[1], v[2]
                meth = None
                for b in c.mro[1:]:
                    if attr in b.methods:
                        meth = b.methods[attr]
                        break
                if meth is not None:
                    for iv in inst:
                        out.add(("bound", meth, iv))
            elif k in ("bound", "func", "none"):
                out.add(("ext", "?." + attr))
        return out

    def _eval(self, e, f, m):
        """Set of abstract values of expression e in function f (or module m)."""
        if e is None:
            return set()
        if isinstance(e, ast.Constant):
            return {("none",)} if e.value is None else {("ext", "const")}
        if isinstance(e, ast.Name):
            return set(self._lookup_name(e.id, f, m))
        if isinstance(e, ast.Attribute):
            return self._attr_of(self._eval(e.value, f, m), e.attr, f, e)
        if isinstance(e, ast.Call):
            return self._call(e, f, m)
        if isinstance(e, (ast.List, ast.Set, ast.Tuple)):
            c = self.cont(e)
            for x in e.elts:
                self.add(("elem", c), self._eval(x, f, m))
            return {c}
        if isinstance(e, ast.Dict):
            c = self.cont(e)
            for x in e.values:
                self.add(("elem", c), self._eval(x, f, m))
            return {c}
        if isinstance(e, (ast.ListComp, ast.SetComp, ast.GeneratorExp, ast.DictComp)):
            c = self.cont(e)
            for g in e.generators:
                self._bind_target(g.target, self._elems(self._eval(g.iter, f, m)), f, m)
            if isinstance(e, ast.DictComp):
                self.add(("elem", c), self._eval(e.value, f, m))
            else:
                self.add(("elem", c), self._eval(e.elt, f, m))
            return {c}
        if isinstance(e, ast.Subscript):
            base = self._eval(e.value, f, m)
            self._eval(e.slice, f, m) if isinstance(e.slice, ast.expr) else None
            if isinstance(e.slice, ast.Slice):
                return base
            return self._elems(base)
        if isinstance(e, ast.IfExp):
            return self._eval(e.body, f, m) | self._eval(e.orelse, f, m)
        if isinstance(e, ast.BoolOp):
            out = set()
            for x in e.values:
                out |= self._eval(x, f, m)
            return out
        if isinstance(e, ast.NamedExpr):
            v = self._eval(e.value, f, m)
            self._bind_target(e.target, v, f, m)
            return v
        if isinstance(e, (ast.BinOp, ast.UnaryOp, ast.Compare, ast.JoinedStr, ast.FormattedValue)):
            for x in ast.iter_child_nodes(e):
                if isinstance(x, ast.expr):
                    self._eval(x, f, m)
            return {("ext", "value")}
        if isinstance(e, ast.Lambda):
            return {("ext", "lambda")}
        if isinstance(e, ast.Starred):
            return self._eval(e.value, f, m)
        if isinstance(e, (ast.Yield, ast.YieldFrom, ast.Await)):
            return self._eval(e.value, f, m) if e.value is not None else set()
        return {("ext", "expr")}

    def _elems(self, vals):
        out = set()
        for v in vals:
            if v[0] == "cont":
                out |= self.get(("elem", v))
            elif v[0] == "ext":
                out.add(_ext(v[1] + "[]"))
        return out

    def _site(self, f, node):
        s = self.sites.get(id(node))
        if s is None:
            s = Site(f, node)
            self.sites[id(node)] = s
            if f is not None:
                self.func_sites.setdefault(f.qual, []).append(s)
        return s

    def _edge(self, f, node, callee, bound, call, recv=None):
        """Record edge and bind arguments. `bound`: {param: values} pre-bound (self)."""
        if f is None:
            return
        s = self._site(f, node)
        if callee not in s.targets:
            s.targets.add(callee)
            self._changed = True
        s.edges.add((callee, recv))
        for pn, vs in bound.items():
            self.add(("local", callee.qual, pn), vs)
        if call is None:
            return
        params = list(callee.params)
        binding = s.bindings.setdefault(callee.qual, {})
        for pn in bound:
            if pn in params:
                params.remove(pn)
                binding[pn] = ("self", None)
        i = 0
        for a in call.args:
            if isinstance(a, ast.Starred):
                vs = self._elems(self._eval(a.value, f, f.module))
                for pn in params[i:]:
                    self.add(("local", callee.qual, pn), vs)
                break
            vs = self._eval(a, f, f.module)
            if i < len(params):
                self.add(("local", callee.qual, params[i]), vs)
                binding[params[i]] = a
            elif callee.vararg:
                self.add(("local", callee.qual, callee.vararg), vs)
            i += 1
        for kw in call.keywords:
            vs = self._eval(kw.value, f, f.module)
            if kw.arg is None:
                continue
            if kw.arg in callee.params or kw.arg in callee.kwonly:
                self.add(("local", callee.qual, kw.arg), vs)
                binding[kw.arg] = kw.value
        # defaults
        for pn, d in callee.defaults.items():
            if pn not in binding:
                self.add(("local", callee.qual, pn), self._eval(d, None, callee.module))

    def _call(self, e, f, m):
        fn = e.func
        # super()
        if isinstance(fn, ast.Name) and fn.id == "super" and f is not None and f.cls is not None:
            g = f
            while g.parent is not None:
                g = g.parent
            inst = self.get(("local", g.qual, g.params[0])) if g.params else set()
            return {("super", f.cls, frozenset(inst))}
        fvals = self._eval(fn, f, m)
        out = set()
        site = self._site(f, e) if f is not None else None
        argvals = None
        for v in fvals:
            k = v[0]
            if k == "func":
                callee = v[1]
                recv = None
                if (callee.cls is not None and e.args and isinstance(e.args[0], ast.Name) and f is not None
                        and f.params and e.args[0].id == self._self_name(f)):
                    recv = "SELF"  # explicit up-call  Base.m(self, ...)
                self._edge(f, e, callee, {}, e, recv)
                out |= self._ret(callee)
            elif k == "bound":
                callee = v[1]
                pre = {callee.params[0]: {v[2]}} if callee.params else {}
                self._edge(f, e, callee, pre, e, v[2][1] if v[2][0] in ("inst", "cls") else None)
                out |= self._ret(callee)
            elif k == "cls":
                c = v[1]
                inst = ("inst", c)
                init = c.lookup("__init__")
                if init is not None:
                    self._edge(f, e, init, {init.params[0]: {inst}}, e, c)
                out.add(inst)
            elif k == "contm":
                cont, meth = v[1], v[2]
                if meth in _CONT_ADD:
                    for a in e.args:
                        av = self._eval(a, f, m)
                        if meth == "extend":
                            av = self._elems(av)
                        self.add(("elem", cont), av)
                    out.add(("none",))
                elif meth in _CONT_GET:
                    for a in e.args:
                        self._eval(a, f, m)
                    if meth in ("values", "items", "copy"):
                        out.add(cont)
                    else:
                        out |= self.get(("elem", cont))
                else:
                    for a in e.args:
                        self._eval(a, f, m)
                    out.add(("ext", "contop"))
            elif k == "ext":
                name = v[1]
                if site is not None:
                    site.ext.add(name)
                short = name.split(".")[-1]
                if short in _CONT_CTORS and (name.startswith("builtins.") or name.startswith("collections.") or name == short):
                    c = self.cont(e)
                    for a in e.args:
                        av = self._eval(a, f, m)
                        self.add(("elem", c), self._elems(av))
                    out.add(c)
                elif name in ("threading.Thread", "Thread"):
                    for kw in e.keywords:
                        if kw.arg == "target":
                            tv = self._eval(kw.value, f, m)
                            argv = set()
                            for kw2 in e.keywords:
                                if kw2.arg == "args":
                                    argv = self._eval(kw2.value, f, m)
                            for t in tv:
                                self._thread_target(f, e, t, argv)
                    out.add(("ext", "threading.Thread()"))
                else:
                    for a in e.args:
                        self._eval(a, f, m)
                    for kw in e.keywords:
                        self._eval(kw.value, f, m)
                    out.add(_ext(name + "()"))
            elif k == "none":
                pass
            else:
                out.add(("ext", "call"))
        if not fvals and site is not None:
            site.unresolved = True
        return out

    def _self_name(self, f):
        g = f
        while g.parent is not None:
            g = g.parent
        return g.params[0] if (g.cls is not None and g.params and not g.is_staticmethod) else None

    def _thread_target(self, f, call, t, argv):
        key = (id(call), t)
        if key not in {(id(s.node), v) for s, v in self.thread_targets}:
            self.thread_targets.append((self._site(f, call), t))
        if t[0] == "bound":
            callee = t[1]
            if callee.params:
                self.add(("local", callee.qual, callee.params[0]), {t[2]})

    def _ret(self, callee):
        if callee.is_generator:
            return {("ext", "generator")}
        return set(self.get(("ret", callee.qual)))

    def _bind_target(self, tgt, vals, f, m):
        if isinstance(tgt, ast.Name):
            if f is not None:
                self.add(("local", f.qual, tgt.id), vals)
            else:
                self.add(("glob", m.name, tgt.id), vals)
        elif isinstance(tgt, (ast.Tuple, ast.List)):
            # unpacking: each element may be any element of the container values
            ev = self._elems(vals) | {v for v in vals if v[0] != "cont"}
            for t in tgt.elts:
                self._bind_target(t, ev, f, m)
        elif isinstance(tgt, ast.Starred):
            self._bind_target(tgt.value, vals, f, m)
        elif isinstance(tgt, ast.Attribute):
            for bv in self._eval(tgt.value, f, m):
                if bv[0] == "inst":
                    self.add(("field", bv[1].qual, tgt.attr), vals)
                elif bv[0] == "cls":
                    self.add(("field", bv[1].qual, tgt.attr), vals)
        elif isinstance(tgt, ast.Subscript):
            for bv in self._eval(tgt.value, f, m):
                if bv[0] == "cont":
                    self.add(("elem", bv), vals)

    def _function(self, f):
        m = f.module
        # a nested def binds its name in the enclosing function
        for n in walk_own(f.node):
            if isinstance(n, ast.Assign):
                v = self._eval(n.value, f, m)
                for t in n.targets:
                    if isinstance(t, (ast.Tuple, ast.List)) and isinstance(n.value, ast.Tuple) and len(t.elts) == len(n.value.elts):
                        for a, b in zip(t.elts, n.value.elts):
                            self._bind_target(a, self._eval(b, f, m), f, m)
                    else:
                        self._bind_target(t, v, f, m)
            elif isinstance(n, ast.AnnAssign) and n.value is not None:
                self._bind_target(n.target, self._eval(n.value, f, m), f, m)
            elif isinstance(n, ast.AugAssign):
                self._eval(n.value, f, m)
            elif isinstance(n, (ast.For, ast.AsyncFor)):
                self._bind_target(n.target, self._elems(self._eval(n.iter, f, m)), f, m)
            elif isinstance(n, (ast.With, ast.AsyncWith)):
                for i in n.items:
                    v = self._eval(i.context_expr, f, m)
                    if i.optional_vars is not None:
                        self._bind_target(i.optional_vars, v, f, m)
            elif isinstance(n, ast.Return):
                if n.value is not None:
                    self.add(("ret", f.qual), self._eval(n.value, f, m))
            elif isinstance(n, ast.Expr):
                self._eval(n.value, f, m)
            elif isinstance(n, (ast.FunctionDef, ast.AsyncFunctionDef)):
                nf = f.nested.get(n.name)
                if nf is not None:
                    self.add(("local", f.qual, n.name), {("func", nf)})
            elif isinstance(n, (ast.If, ast.While, ast.Assert)):
                self._eval(n.test, f, m)
            elif isinstance(n, ast.Raise):
                if n.exc is not None:
                    self._eval(n.exc, f, m)
            elif isinstance(n, ast.Delete):
                pass

    # ------------------------------------------------------------------
    # queries
    def site_of(self, call_node):
        return self.sites.get(id(call_node))

    def callees(self, call_node):
        s = self.sites.get(id(call_node))
        return set(s.targets) if s else set()

    def sites_in(self, func):
        return self.func_sites.get(func.qual, [])

    def types_of(self, func, expr):
        return self._eval(expr, func, func.module)

    def class_types(self, func, expr):
        return {v[1] for v in self.types_of(func, expr) if v[0] == "inst"}

    def site_edges(self, s, ctxcls):
        """(callee, receiver class) edges of site s when the caller's own
        receiver is known to be an instance of ctxcls (or unknown: None)."""
        out = []
        fn = s.node.func if isinstance(s.node, ast.Call) else s.node
        sname = self._self_name(s.func)
        on_self = (isinstance(fn, ast.Attribute) and isinstance(fn.value, ast.Name) and fn.value.id == sname) or \
                  (isinstance(s.node, ast.Attribute) and isinstance(s.node.value, ast.Name) and s.node.value.id == sname)
        for (callee, recv) in s.edges:
            if recv == "SELF":
                out.append((callee, ctxcls))
            elif on_self and ctxcls is not None and recv is not None:
                if recv is ctxcls:
                    out.append((callee, recv))
            else:
                out.append((callee, recv))
        if on_self and ctxcls is not None and not out and s.edges:
            # receiver class not among inferred ones: fall back to all
            out = [(c, r if r != "SELF" else ctxcls) for (c, r) in s.edges]
        return out

    def reachable(self, roots, prune=None, ctx=None):
        """Functions reachable from roots over resolved edges, receiver-sensitive:
        states are (func, class of self).  roots: Funcs or (Func, Class).
        prune(site, callee) -> False to drop an edge.  Returns {qual: via Site}
        plus .states (set of (qual, classqual))."""
        seen = {}
        states = {}
        st = []
        for r in roots:
            if isinstance(r, tuple):
                st.append((r[0], r[1], None))
            else:
                st.append((r, None, None))
        while st:
            f, c, via = st.pop()
            key = (f.qual, c.qual if c is not None else None)
            if key in states:
                continue
            states[key] = via
            if f.qual not in seen:
                seen[f.qual] = via
            for s in self.sites_in(f):
                for (t, rc) in self.site_edges(s, c):
                    if prune is not None and not prune(s, t):
                        continue
                    st.append((t, rc, s))
            # nested functions defined here are not entered unless called
        self.last_states = states
        return seen

    def path_to(self, seen, qual):
        """Reconstruct call chain from a reachable() result."""
        out = []
        cur = qual
        guard = 0
        while cur is not None and guard < 50:
            via = seen.get(cur)
            if via is None:
                out.append(cur)
                break
            out.append("%s (called at %s)" % (cur, via.loc))
            cur = via.func.qual
            guard += 1
        return list(reversed(out))

    def stats(self):
        total = len(self.sites)
        resolved = sum(1 for s in self.sites.values() if s.targets)
        ext = sum(1 for s in self.sites.values() if not s.targets and s.ext)
        return {"call_sites": total, "resolved_in_package": resolved, "external_or_opaque": ext,
                "no_value": sum(1 for s in self.sites.values() if not s.targets and not s.ext)}


def get_callgraph(program):
    cg = getattr(program, "_callgraph", None)
    if cg is None:
        cg = CallGraph(program)
        program._callgraph = cg
    return cg
