"""E1 — statement-level control-flow graph with exceptional edges.

Nodes:
  entry, exit (normal return / fall off), raise_exit (exception leaves function)
  stmt   — a simple statement (ast = the statement)
  test   — an atomic branch condition (ast = expression)
  branch — synthetic node on the True/False edge of a test (ast = test expr,
           polarity = True/False); dominance by a branch node = "guard holds"
  iter   — `for` header: evaluates next(iterator); edges 'loop' and 'done'
  with_enter / with_exit
  dispatch — exception dispatch of a try statement
  handler — entry of an except clause (ast = ExceptHandler)
  join   — structural no-op

`finally` bodies are duplicated per continuation kind, so one AST statement may
map to several CFG nodes (cfg.nodes_of(ast_node)).
"""
from __future__ import annotations

import ast

from .model import AnalysisError, norm


class Node:
    __slots__ = ("id", "kind", "ast", "succ", "pred", "polarity", "label", "stmt", "handlers")

    def __init__(self, id, kind, astnode=None, polarity=None, label=""):
        self.id = id
        self.kind = kind
        self.ast = astnode
        self.succ = []  # (Node, label)
        self.pred = []
        self.polarity = polarity
        self.label = label
        self.stmt = None  # enclosing statement (for test/branch nodes)
        self.handlers = None

    @property
    def lineno(self):
        return getattr(self.ast, "lineno", 0) if self.ast is not None else 0

    def __repr__(self):
        t = ""
        if self.ast is not None:
            t = norm(self.ast).split("\n")[0][:60]
        p = "" if self.polarity is None else ("+" if self.polarity else "-")
        return "<%d %s%s %s>" % (self.id, self.kind, p, t)


def _const_truth(expr):
    if isinstance(expr, ast.Constant):
        return bool(expr.value)
    return None


_RAISING = (ast.Call, ast.Subscript, ast.BinOp, ast.Await, ast.Yield, ast.YieldFrom)


def expr_may_raise(node):
    """Syntactic may-raise: calls, subscripts, arithmetic.  Attribute loads,
    name loads, comparisons and boolean operators are taken as non-raising
    (stated assumption)."""
    if node is None:
        return False
    for n in ast.walk(node):
        if isinstance(n, ast.Call) and isinstance(n.func, ast.Name) and n.func.id in _TOTAL_BUILTINS:
            if any(expr_may_raise(a) for a in n.args):
                return True
            continue
        if isinstance(n, _RAISING):
            if isinstance(n, ast.Call) or not _inside_total_call(node, n):
                return True
    return False


_TOTAL_BUILTINS = {"hasattr", "isinstance", "callable", "id"}


def _inside_total_call(root, target):
    """target occurs only as (part of) an argument of a total builtin call."""
    for n in ast.walk(root):
        if isinstance(n, ast.Call) and isinstance(n.func, ast.Name) and n.func.id in _TOTAL_BUILTINS:
            if any(target is x for a in n.args for x in ast.walk(a)):
                return True
    return False


class CFG:
    def __init__(self, func_node, qual="?"):
        self.qual = qual
        self.fnode = func_node
        self.nodes = []
        self.by_ast = {}
        self.entry = self._new("entry")
        self.exit = self._new("exit")
        self.raise_exit = self._new("raise_exit")
        self._dom = None
        self._reach = None
        self._pdom_cache = {}
        b = _Builder(self)
        b.build()

    def _new(self, kind, astnode=None, polarity=None, label=""):
        n = Node(len(self.nodes), kind, astnode, polarity, label)
        self.nodes.append(n)
        if astnode is not None:
            self.by_ast.setdefault(id(astnode), []).append(n)
        return n

    def edge(self, a, b, label=""):
        for (x, l) in a.succ:
            if x is b and l == label:
                return
        a.succ.append((b, label))
        b.pred.append((a, label))

    def nodes_of(self, astnode):
        return list(self.by_ast.get(id(astnode), []))

    # --------------------------------------------------------------
    def reachable_nodes(self):
        if getattr(self, "_reach", None) is not None:
            return self._reach
        self._reach = self._reachable_nodes()
        return self._reach

    def _reachable_nodes(self):
        seen = {self.entry.id}
        st = [self.entry]
        while st:
            n = st.pop()
            for (s, _) in n.succ:
                if s.id not in seen:
                    seen.add(s.id)
                    st.append(s)
        return seen

    def _dominators(self, entry, succ_of, pred_of):
        # Cooper-Harvey-Kennedy
        order = []
        seen = set()

        def dfs(root):
            stack = [(root, iter(succ_of(root)))]
            seen.add(root.id)
            while stack:
                n, it = stack[-1]
                for s in it:
                    if s.id not in seen:
                        seen.add(s.id)
                        stack.append((s, iter(succ_of(s))))
                        break
                else:
                    order.append(n)
                    stack.pop()

        dfs(entry)
        rpo = list(reversed(order))
        idx = {n.id: i for i, n in enumerate(rpo)}
        idom = {entry.id: entry}
        changed = True

        def intersect(a, b):
            while a is not b:
                while idx[a.id] > idx[b.id]:
                    a = idom[a.id]
                while idx[b.id] > idx[a.id]:
                    b = idom[b.id]
            return a

        while changed:
            changed = False
            for n in rpo[1:]:
                new = None
                for p in pred_of(n):
                    if p.id in idom:
                        new = p if new is None else intersect(p, new)
                if new is not None and idom.get(n.id) is not new:
                    idom[n.id] = new
                    changed = True
        return idom

    def idom(self):
        if self._dom is None:
            self._dom = self._dominators(
                self.entry,
                lambda n: [s for s, _ in n.succ],
                lambda n: [p for p, _ in n.pred],
            )
        return self._dom

    def dominates(self, a, b):
        """a dominates b (reflexive). Unreachable b -> True vacuously."""
        idom = self.idom()
        if b.id not in idom:
            return True
        n = b
        while True:
            if n is a:
                return True
            p = idom[n.id]
            if p is n:
                return False
            n = p

    def dominators_of(self, b):
        idom = self.idom()
        out = []
        if b.id not in idom:
            return out
        n = b
        while True:
            out.append(n)
            p = idom[n.id]
            if p is n:
                return out
            n = p

    def guards(self, n):
        """[(test_expr, polarity, branch_node)] of branch nodes dominating n,
        innermost first.  Tests naming a snapshot local (see snapshots()) are
        given with the local replaced by the expression it abbreviates."""
        out = []
        for d in self.dominators_of(n):
            if d.kind == "branch":
                t, pol = self.expand(d.ast, d), d.polarity
                while isinstance(t, ast.UnaryOp) and isinstance(t.op, ast.Not):
                    t, pol = t.operand, not pol
                if t is not d.ast:
                    t._guard_of = d.ast
                out.append((t, pol, d))
        return out

    # ---- snapshot locals ---------------------------------------------------
    _PURE_CALLS = ("len",)

    def snapshots(self):
        """{name: (defining stmt node, rhs, attrs read)} for locals that merely
        abbreviate a side-effect-free read: bound exactly once, by `name = <expr>`,
        where <expr> is built from constants, attribute chains rooted at a
        parameter, len(), comparisons, not/and/or and arithmetic."""
        if getattr(self, "_snap", None) is not None:
            return self._snap
        binds = {}
        fn = self.fnode
        params = {a.arg for a in fn.args.posonlyargs + fn.args.args + fn.args.kwonlyargs}
        if fn.args.vararg:
            params.add(fn.args.vararg.arg)
        if fn.args.kwarg:
            params.add(fn.args.kwarg.arg)

        def own(node):
            for ch in ast.iter_child_nodes(node):
                if isinstance(ch, (ast.FunctionDef, ast.AsyncFunctionDef, ast.ClassDef, ast.Lambda)):
                    continue
                yield ch
                yield from own(ch)
        for n in own(fn):
            if isinstance(n, ast.Name) and isinstance(n.ctx, (ast.Store, ast.Del)):
                binds[n.id] = binds.get(n.id, 0) + 1
            elif isinstance(n, (ast.Global, ast.Nonlocal)):
                for x in n.names:
                    binds[x] = binds.get(x, 0) + 2
            elif isinstance(n, ast.ExceptHandler) and n.name:
                binds[n.name] = binds.get(n.name, 0) + 2

        def pure(e, attrs):
            if isinstance(e, ast.Constant):
                return True
            if isinstance(e, ast.Name):
                # a parameter that is never rebound
                if e.id in params and not binds.get(e.id):
                    attrs.append((e.id,))
                    return True
                return False
            if isinstance(e, ast.Attribute):
                b = e
                while isinstance(b, ast.Attribute):
                    b = b.value
                if isinstance(b, ast.Name) and b.id in params:
                    chain = []
                    b = e
                    while isinstance(b, ast.Attribute):
                        chain.append(b.attr)
                        b = b.value
                    attrs.append(tuple(reversed(chain)))
                    return True
                return False
            if isinstance(e, ast.Compare):
                return pure(e.left, attrs) and all(pure(c, attrs) for c in e.comparators)
            if isinstance(e, ast.BoolOp):
                return all(pure(v, attrs) for v in e.values)
            if isinstance(e, ast.UnaryOp):
                return pure(e.operand, attrs)
            if isinstance(e, ast.BinOp):
                return pure(e.left, attrs) and pure(e.right, attrs)
            if isinstance(e, ast.Call) and isinstance(e.func, ast.Name) and e.func.id in self._PURE_CALLS \
                    and not e.keywords and len(e.args) == 1:
                return pure(e.args[0], attrs)
            return False
        snap = {}
        for nd in self.nodes:
            a = nd.ast
            if nd.kind == "stmt" and isinstance(a, ast.Assign) and len(a.targets) == 1 and isinstance(a.targets[0], ast.Name):
                nm = a.targets[0].id
                if binds.get(nm) == 1 and nm not in params and len(self.by_ast.get(id(a), [])) == 1:
                    attrs = []
                    if pure(a.value, attrs) and not isinstance(a.value, ast.Constant):
                        snap[nm] = (nd, a.value, attrs)
        self._snap = snap
        return snap

    def _stable(self, dnode, attrs, use):
        """No statement on a path from the definition to the use may change what
        the snapshot read: no store to an attribute of the same name, and - unless
        the value is configuration (a chain through `.adj`) - no call other than
        logging."""
        volatile = [c for c in attrs if "adj" not in c[:-1]]
        names = {c[-1] for c in attrs}
        fwd = self.reach(dnode, follow_exc=True)
        for n in self.nodes:
            if n.id not in fwd or n is dnode or n is use or n.ast is None:
                continue
            if use.id not in self.reach(n, follow_exc=True):
                continue
            root = n.ast
            if n.kind in ("with_enter",):
                roots = [it.context_expr for it in root.items]
            elif n.kind in ("iter", "with_exit", "dispatch", "handler", "join"):
                roots = []
            else:
                roots = [root]
            for r in roots:
                for x in ast.walk(r):
                    if isinstance(x, ast.Attribute) and isinstance(x.ctx, (ast.Store, ast.Del)) and x.attr in names:
                        return False
                    if isinstance(x, ast.Call) and volatile:
                        d = x.func
                        txt = []
                        while isinstance(d, ast.Attribute):
                            txt.append(d.attr)
                            d = d.value
                        if "logger" in txt[1:] or (isinstance(d, ast.Name) and d.id in self._PURE_CALLS and not txt):
                            continue
                        return False
        return True

    def test_of(self, st):
        """The test of an if / while statement with snapshot locals expanded."""
        tn = [n for n in self.nodes if n.kind == "test" and n.stmt is st]
        if not tn:
            return st.test
        return self.expand(st.test, tn[0])

    def expand(self, expr, use):
        """expr with snapshot locals replaced by what they abbreviate, when that
        is valid at CFG node `use`; returns expr itself if nothing changes."""
        snap = self.snapshots()
        if not snap or not any(isinstance(x, ast.Name) and x.id in snap for x in ast.walk(expr)):
            return expr
        cache = self.__dict__.setdefault("_expand_cache", {})
        key = (id(expr), use.id)
        if key in cache:
            return cache[key]
        g = self

        class Sub(ast.NodeTransformer):
            def visit_Name(self, node):
                if isinstance(node.ctx, ast.Load) and node.id in snap:
                    dnode, rhs, attrs = snap[node.id]
                    if g.dominates(dnode, use) and g._stable(dnode, attrs, use):
                        import copy
                        new = copy.deepcopy(rhs)
                        new = Sub().visit(new)
                        for y in ast.walk(new):
                            ast.copy_location(y, node)
                        return new
                return node
        import copy
        out = Sub().visit(copy.deepcopy(expr))
        ast.fix_missing_locations(out)
        if ast.dump(out) == ast.dump(expr):
            out = expr
        cache[key] = out
        return out

    def reach(self, start, avoid=(), follow_exc=True, through_start=True):
        """Set of node ids reachable from `start` without passing *through*
        nodes in `avoid` (avoided nodes are not entered)."""
        avoid_ids = {a.id for a in avoid}
        seen = set()
        st = [start]
        while st:
            n = st.pop()
            for (s, l) in n.succ:
                if not follow_exc and l == "exc":
                    continue
                if s.id in avoid_ids or s.id in seen:
                    continue
                seen.add(s.id)
                st.append(s)
        return seen

    def path(self, start, goal, avoid=(), follow_exc=True):
        """A shortest path start->goal avoiding nodes, or None."""
        avoid_ids = {a.id for a in avoid}
        prev = {start.id: None}
        q = [start]
        while q:
            nq = []
            for n in q:
                for (s, l) in n.succ:
                    if not follow_exc and l == "exc":
                        continue
                    if s.id in avoid_ids or s.id in prev:
                        continue
                    prev[s.id] = n
                    if s is goal:
                        out = [s]
                        while prev[out[-1].id] is not None:
                            out.append(prev[out[-1].id])
                        return list(reversed(out))
                    nq.append(s)
            q = nq
        return None

    def stmts(self):
        return [n for n in self.nodes if n.kind == "stmt"]

    def describe_path(self, path, limit=12):
        out = []
        for n in path:
            if n.kind in ("stmt", "test", "iter", "handler", "with_enter") and n.ast is not None:
                out.append("L%d" % n.lineno)
            elif n.kind in ("exit", "raise_exit", "entry"):
                out.append(n.kind)
        if len(out) > limit:
            out = out[: limit // 2] + ["..."] + out[-limit // 2:]
        return "->".join(out)


class _Frame:
    """try/loop context while building."""

    def __init__(self, kind, **kw):
        self.kind = kind
        self.__dict__.update(kw)


class _Builder:
    def __init__(self, cfg):
        self.g = cfg
        self.frames = []  # innermost last

    def build(self):
        g = self.g
        end = self.seq(self.g.fnode.body, g.entry)
        if end is not None:
            g.edge(end, g.exit)

    # ---- exception targets -------------------------------------------
    def exc_target(self, upto=None):
        """Node to which an exception raised here flows."""
        frames = self.frames if upto is None else self.frames[:upto]
        for i in range(len(frames) - 1, -1, -1):
            f = frames[i]
            if f.kind == "try" and f.phase == "body":
                return f.dispatch
            if f.kind == "try" and f.phase in ("handler", "else") and f.finalbody:
                return self.finally_copy(i, "exc")
        return self.g.raise_exit

    def finally_copy(self, idx, kind):
        """Entry node of a copy of frame[idx]'s finally body for continuation
        `kind`; the copy's end is wired to the right continuation."""
        f = self.frames[idx]
        key = kind
        if key in f.fcopies:
            return f.fcopies[key]
        g = self.g
        start = g._new("join", None, label="finally:" + kind)
        f.fcopies[key] = start
        saved = self.frames
        self.frames = saved[:idx]  # finally body runs outside the try
        end = self.seq(f.finalbody, start)
        if end is not None:
            if kind == "exc":
                g.edge(end, self.exc_target(), "exc")
            elif kind == "return":
                g.edge(end, self.return_target())
            elif kind == "break":
                g.edge(end, self.loop_target("break"))
            elif kind == "continue":
                g.edge(end, self.loop_target("continue"))
            elif kind == "normal":
                g.edge(end, f.after)
        self.frames = saved
        return start

    def return_target(self):
        for i in range(len(self.frames) - 1, -1, -1):
            f = self.frames[i]
            if f.kind == "try" and f.finalbody and f.phase != "finally":
                return self.finally_copy(i, "return")
        return self.g.exit

    def loop_target(self, what):
        for i in range(len(self.frames) - 1, -1, -1):
            f = self.frames[i]
            if f.kind == "try" and f.finalbody and f.phase != "finally":
                return self.finally_copy(i, what)
            if f.kind == "loop":
                return f.brk if what == "break" else f.cont
        raise AnalysisError("%s outside loop in %s" % (what, self.g.qual))

    # ---- conditions ------------------------------------------------------
    def cond(self, expr, cur, stmt):
        """Wire evaluation of `expr` from `cur`; returns (true_node, false_node)
        join nodes (either may be None if impossible)."""
        g = self.g
        if isinstance(expr, ast.BoolOp):
            if isinstance(expr.op, ast.And):
                tj = None
                fj = g._new("join")
                c = cur
                alive = True
                for v in expr.values:
                    t, f = self.cond(v, c, stmt)
                    if f is not None:
                        g.edge(f, fj)
                    if t is None:
                        alive = False
                        break
                    c = t
                tj = c if alive else None
                return tj, (fj if fj.pred else None)
            else:
                tj = g._new("join")
                c = cur
                alive = True
                for v in expr.values:
                    t, f = self.cond(v, c, stmt)
                    if t is not None:
                        g.edge(t, tj)
                    if f is None:
                        alive = False
                        break
                    c = f
                fj = c if alive else None
                return (tj if tj.pred else None), fj
        if isinstance(expr, ast.UnaryOp) and isinstance(expr.op, ast.Not):
            t, f = self.cond(expr.operand, cur, stmt)
            return f, t
        if isinstance(expr, ast.IfExp):
            # `a if c else b` as a condition: c decides which of a / b is the condition
            ct, cf = self.cond(expr.test, cur, stmt)
            tj, fj = g._new("join"), g._new("join")
            for (start, sub) in ((ct, expr.body), (cf, expr.orelse)):
                if start is None:
                    continue
                t, f = self.cond(sub, start, stmt)
                if t is not None:
                    g.edge(t, tj)
                if f is not None:
                    g.edge(f, fj)
            return (tj if tj.pred else None), (fj if fj.pred else None)
        if isinstance(expr, ast.Compare) and len(expr.ops) == 1 and isinstance(expr.ops[0], (ast.NotIn, ast.NotEq, ast.IsNot)):
            # canonical polarity: `a not in b` is the false outcome of `a in b`
            pos = {ast.NotIn: ast.In, ast.NotEq: ast.Eq, ast.IsNot: ast.Is}[type(expr.ops[0])]()
            e2 = ast.Compare(left=expr.left, ops=[pos], comparators=expr.comparators)
            ast.copy_location(e2, expr)
            e2._orig = getattr(expr, "_orig", expr)
            e2._negated_from = expr
            g.by_ast.setdefault(id(expr), [])
            t, f = self.cond(e2, cur, stmt)
            # nodes_of(<original expression>) still finds the test
            g.by_ast[id(expr)].extend(g.by_ast.get(id(e2), []))
            return f, t
        tn = g._new("test", expr)
        tn.stmt = stmt
        g.edge(cur, tn)
        if expr_may_raise(expr):
            g.edge(tn, self.exc_target(), "exc")
        truth = _const_truth(expr)
        bt = bf = None
        if truth is not False:
            bt = g._new("branch", expr, True)
            bt.stmt = stmt
            g.edge(tn, bt, "T")
        if truth is not True:
            bf = g._new("branch", expr, False)
            bf.stmt = stmt
            g.edge(tn, bf, "F")
        return bt, bf

    # ---- statements --------------------------------------------------------
    def seq(self, body, cur):
        for st in body:
            if cur is None:
                # unreachable code: still build nothing
                return None
            cur = self.stmt(st, cur)
        return cur

    def simple(self, st, cur, raising=None):
        g = self.g
        n = g._new("stmt", st)
        g.edge(cur, n)
        if raising is None:
            raising = expr_may_raise(st) or isinstance(st, (ast.Delete, ast.Import, ast.ImportFrom))
            if isinstance(st, ast.AugAssign):
                raising = True
        if raising:
            g.edge(n, self.exc_target(), "exc")
        return n

    def stmt(self, st, cur):
        g = self.g
        if isinstance(st, (ast.Assign, ast.AugAssign, ast.AnnAssign, ast.Expr, ast.Pass,
                           ast.Delete, ast.Global, ast.Nonlocal, ast.Import, ast.ImportFrom)):
            return self.simple(st, cur)
        if isinstance(st, (ast.FunctionDef, ast.AsyncFunctionDef, ast.ClassDef)):
            return self.simple(st, cur, raising=False)
        if isinstance(st, ast.Return):
            n = g._new("stmt", st)
            g.edge(cur, n)
            if expr_may_raise(st.value):
                g.edge(n, self.exc_target(), "exc")
            g.edge(n, self.return_target())
            return None
        if isinstance(st, ast.Raise):
            n = g._new("stmt", st)
            g.edge(cur, n)
            g.edge(n, self.exc_target(), "exc")
            return None
        if isinstance(st, ast.Assert):
            # an assert is compiled away under `python -O` / PYTHONOPTIMIZE: it may raise, but it guarantees
            # nothing to what follows - no branch node, hence no guard fact (a refusal written as an assert is
            # not a refusal)
            n = g._new("stmt", st)
            g.edge(cur, n)
            g.edge(n, self.exc_target(), "exc")
            return n
        if isinstance(st, ast.Break):
            n = g._new("stmt", st)
            g.edge(cur, n)
            g.edge(n, self.loop_target("break"))
            return None
        if isinstance(st, ast.Continue):
            n = g._new("stmt", st)
            g.edge(cur, n)
            g.edge(n, self.loop_target("continue"))
            return None
        if isinstance(st, ast.If):
            t, f = self.cond(st.test, cur, st)
            after = g._new("join")
            if t is not None:
                e = self.seq(st.body, t)
                if e is not None:
                    g.edge(e, after)
            if f is not None:
                e = self.seq(st.orelse, f)
                if e is not None:
                    g.edge(e, after)
            return after if after.pred else None
        if isinstance(st, ast.While):
            head = g._new("join", None, label="loop_head")
            g.edge(cur, head)
            after = g._new("join")
            t, f = self.cond(st.test, head, st)
            self.frames.append(_Frame("loop", brk=after, cont=head))
            if t is not None:
                e = self.seq(st.body, t)
                if e is not None:
                    g.edge(e, head)
            self.frames.pop()
            if f is not None:
                e = self.seq(st.orelse, f)
                if e is not None:
                    g.edge(e, after)
            return after if after.pred else None
        if isinstance(st, (ast.For, ast.AsyncFor)):
            # evaluate iterable
            init = g._new("stmt", st.iter)
            init.stmt = st
            g.edge(cur, init)
            if expr_may_raise(st.iter):
                g.edge(init, self.exc_target(), "exc")
            it = g._new("iter", st)
            g.edge(init, it)
            g.edge(it, self.exc_target(), "exc")  # next() may raise
            after = g._new("join")
            body_start = g._new("join", None, label="for_body")
            done = g._new("join", None, label="for_done")
            g.edge(it, body_start, "loop")
            g.edge(it, done, "done")
            self.frames.append(_Frame("loop", brk=after, cont=it))
            e = self.seq(st.body, body_start)
            if e is not None:
                g.edge(e, it)
            self.frames.pop()
            e = self.seq(st.orelse, done)
            if e is not None:
                g.edge(e, after)
            return after if after.pred else None
        if isinstance(st, (ast.With, ast.AsyncWith)):
            enter = g._new("with_enter", st)
            g.edge(cur, enter)
            g.edge(enter, self.exc_target(), "exc")
            e = self.seq(st.body, enter)
            if e is None:
                return None
            ex = g._new("with_exit", st)
            g.edge(e, ex)
            return ex
        if isinstance(st, ast.Try):
            return self.try_(st, cur)
        if hasattr(ast, "TryStar") and isinstance(st, ast.TryStar):
            raise AnalysisError("unsupported statement try* in %s" % g.qual)
        raise AnalysisError("unsupported statement %s at line %d in %s" % (type(st).__name__, st.lineno, g.qual))

    def try_(self, st, cur):
        g = self.g
        after = g._new("join")
        dispatch = g._new("dispatch", st)
        fr = _Frame("try", phase="body", dispatch=dispatch, finalbody=st.finalbody,
                    fcopies={}, after=after, node=st)
        self.frames.append(fr)
        idx = len(self.frames) - 1
        e = self.seq(st.body, cur)
        fr.phase = "else"
        if e is not None:
            e = self.seq(st.orelse, e)
        if e is not None:
            if st.finalbody:
                g.edge(e, self.finally_copy(idx, "normal"))
            else:
                g.edge(e, after)
        # handlers
        fr.phase = "handler"
        catch_all = False
        dispatch.handlers = []
        for h in st.handlers:
            hn = g._new("handler", h)
            g.edge(dispatch, hn, "exc")
            dispatch.handlers.append(hn)
            names = handler_names(h)
            if names is None or "BaseException" in names:
                catch_all = True
            e = self.seq(h.body, hn)
            if e is not None:
                if st.finalbody:
                    g.edge(e, self.finally_copy(idx, "normal"))
                else:
                    g.edge(e, after)
        if not catch_all:
            # no handler matches: propagate (through finally)
            if st.finalbody:
                g.edge(dispatch, self.finally_copy(idx, "exc"), "exc")
            else:
                g.edge(dispatch, self.exc_target(upto=idx), "exc")
        fr.phase = "finally"
        self.frames.pop()
        return after if after.pred else None


def handler_names(h):
    """Exception class names of an except clause: None for bare, else list of
    dotted names (unresolved)."""
    if h.type is None:
        return None
    t = h.type
    if isinstance(t, ast.Tuple):
        return [norm(e) for e in t.elts]
    return [norm(t)]


_cfg_cache = {}


def cfg_of(func):
    """CFG for a model.Func (cached per Func object)."""
    c = getattr(func, "_cfg", None)
    if c is None:
        c = CFG(func.node, func.qual)
        func._cfg = c
    return c
