"""Grammar oracles (RFC 9110 / 9112 ABNF) as regular languages, written
independently of waitress' rfc7230.py.  DESIGN.md appendix A.5."""
from __future__ import annotations

from .relang import FULL, L, mask_of, mask_range

DIGIT = mask_range(0x30, 0x39)
ALPHA = mask_range(0x41, 0x5A) | mask_range(0x61, 0x7A)
HEXDIG = DIGIT | mask_range(0x41, 0x46) | mask_range(0x61, 0x66)
TCHAR = mask_of(b"!#$%&'*+-.^_`|~") | DIGIT | ALPHA
VCHAR = mask_range(0x21, 0x7E)
OBS_TEXT = mask_range(0x80, 0xFF)
FIELD_VCHAR = VCHAR | OBS_TEXT
SP = mask_of(b" ")
HTAB = mask_of(b"\t")
WSP = SP | HTAB
CTL = mask_range(0x00, 0x1F) | (1 << 0x7F)
PY_WS = mask_of(b" \t\n\r\x0b\x0c")

token = L.chars(TCHAR).plus().minimized()
ows = L.chars(WSP).star()

qdtext = HTAB | SP | (1 << 0x21) | mask_range(0x23, 0x5B) | mask_range(0x5D, 0x7E) | OBS_TEXT
quoted_pair = L.cat(L.lit(b"\\"), L.chars(HTAB | SP | VCHAR | OBS_TEXT))
quoted_string = L.cat(L.lit(b'"'), L.alt(L.chars(qdtext), quoted_pair).star(), L.lit(b'"')).minimized()

content_length = L.chars(DIGIT).plus().minimized()
chunk_size = L.chars(HEXDIG).plus().minimized()

# chunk-ext = *( ";" token [ "=" ( token / quoted-string ) ] )   (no BWS, see DESIGN A.5)
_one_ext = L.cat(L.lit(b";"), token, L.cat(L.lit(b"="), L.alt(token, quoted_string)).opt())
chunk_ext = _one_ext.star().minimized()
chunk_ext_nonempty = _one_ext.plus().minimized()

# field-line = token ":" OWS [ vchar [ *( SP / HTAB / vchar ) vchar ] ] OWS
_fv = L.chars(FIELD_VCHAR)
_field_value = L.alt(L.eps(), _fv, L.cat(_fv, L.chars(WSP | FIELD_VCHAR).star(), _fv))
field_line = L.cat(token, L.lit(b":"), ows, _field_value, ows).minimized()

# request-line = token SP 1*( %x21-7E / %x80-FF ) [ SP "HTTP/" DIGIT "." DIGIT ]
_target = L.chars(FIELD_VCHAR).plus()
_version = L.cat(L.lit(b" HTTP/"), L.chars(DIGIT), L.lit(b"."), L.chars(DIGIT))


def request_line(method_chars=TCHAR):
    return L.cat(L.chars(method_chars).plus(), L.lit(b" "), _target, _version.opt()).minimized()


# waitress deliberately refuses methods containing a-z (comment in crack_first_line)
TCHAR_NO_LOWER = TCHAR & ~mask_range(0x61, 0x7A)


def classify_excess(diff, numeric=False):
    """Split an over-acceptance language into named witness classes.
    Returns [(class_name, shortest witness)]."""
    out = []
    S = L.sigma_star()
    classes = [
        ("trailing-LF", L.cat(S, L.lit(b"\n"))),
        ("trailing-CR", L.cat(S, L.lit(b"\r"))),
        ("trailing-whitespace", L.cat(S, L.chars(PY_WS))),
        ("leading-whitespace", L.cat(L.chars(PY_WS), S)),
        ("embedded-control-byte", L.cat(S, L.chars(CTL), S)),
        ("empty", L.eps()),
    ]
    if numeric:
        classes += [
            ("sign-or-radix", L.cat(L.chars(mask_of(b"+-")), S) | L.cat(L.lit(b"0"), L.chars(mask_of(b"xXoObB")), S)),
            ("digit-separator", L.cat(S, L.lit(b"_"), S)),
        ]
    rest = diff
    for name, lang in classes:
        part = rest & lang.minimized()
        w = part.witness()
        if w is not None:
            out.append((name, w))
            rest = rest - lang.minimized()
    w = rest.witness()
    if w is not None:
        out.append(("other", w))
    return out
