"""Reporting: obligations, violations, known findings, evidence, exit codes."""
from __future__ import annotations

import json
import os
import time

VERIF = os.path.dirname(os.path.dirname(os.path.abspath(__file__)))
KNOWN_FILE = os.path.join(VERIF, "known_findings.json")


def load_known():
    if not os.path.exists(KNOWN_FILE):
        return []
    with open(KNOWN_FILE) as f:
        return json.load(f)["findings"]


class Report:
    def __init__(self, prop, tier="quick", quiet=False, write=True):
        self.prop = prop
        self.tier = tier
        self.quiet = quiet
        self.write = write
        self.t0 = time.time()
        self.obligations = []  # dicts: rule, what, loc, ok
        self.violations = []  # dicts: rule, key, msg, loc, detail
        self.errors = []  # (rule, reason)
        self.known_hit = []
        self.rules = {}  # rule -> {desc, sites, discharged}
        self.notes = {}
        self.assumptions = []
        self.lines = []
        self._known = [k for k in load_known() if k.get("property") == prop]

    # ------------------------------------------------------------------
    def rule(self, rid, desc):
        self.rules.setdefault(rid, {"desc": desc, "sites": 0, "discharged": 0})

    def ok(self, rid, what, loc=""):
        self.rules.setdefault(rid, {"desc": "", "sites": 0, "discharged": 0})
        self.rules[rid]["sites"] += 1
        self.rules[rid]["discharged"] += 1
        self.obligations.append({"rule": rid, "what": what, "loc": loc, "ok": True})

    def violation(self, rid, key, msg, loc="", detail=None):
        """key: position-independent construct key (module::qualname::normalised construct)."""
        self.rules.setdefault(rid, {"desc": "", "sites": 0, "discharged": 0})
        self.rules[rid]["sites"] += 1
        self.obligations.append({"rule": rid, "what": msg, "loc": loc, "ok": False, "key": key})
        for v in self.violations:
            if v["rule"] == rid and v["key"] == key:
                return
        self.violations.append({"rule": rid, "key": key, "msg": msg, "loc": loc, "detail": detail})

    def error(self, rid, reason):
        self.errors.append((rid, reason))

    def floor(self, rid, count, minimum, what):
        """Fail closed when a rule matched fewer instances than confirmed by hand."""
        if count < minimum:
            self.error(rid, "instance floor: %s: found %d, confirmed %d" % (what, count, minimum))

    def note(self, key, value):
        self.notes[key] = value

    def assume(self, text):
        if text not in self.assumptions:
            self.assumptions.append(text)

    # ------------------------------------------------------------------
    def _is_known(self, v):
        for k in self._known:
            if k.get("status") != "known":
                continue
            if k["rule"] == v["rule"] and k["key"] == v["key"]:
                return k
        return None

    def finish(self, explanation, level="other", extra=None):
        out = []
        unlisted = []
        for v in self.violations:
            k = self._is_known(v)
            if k is not None:
                self.known_hit.append(k)
                out.append("KNOWN-FINDING: property=%s %s [%s] %s" % (self.prop, k["id"], v["rule"], k["what"]))
            else:
                unlisted.append(v)
        for rid, r in sorted(self.rules.items()):
            out.append("ANALYSED rule=%s sites=%d discharged=%d %s" % (rid, r["sites"], r["discharged"], r["desc"]))
        replay_dir = os.path.join(VERIF, "evidence", "replay")
        for i, v in enumerate(unlisted[:20]):
            path = os.path.join(replay_dir, "%s-%d.json" % (self.prop, i))
            if self.write:
                os.makedirs(replay_dir, exist_ok=True)
                with open(path, "w") as f:
                    json.dump({"property": self.prop, **v}, f, indent=1, default=str)
            out.append("  %s %s: %s  [key=%s]" % (v["rule"], v["loc"], v["msg"], v["key"]))
            if v.get("detail"):
                out.append("    detail: %s" % (v["detail"],))
            out.append("VIOLATION property=%s replay=%s" % (self.prop, path))
        for rid, reason in self.errors:
            out.append("ANALYSIS-ERROR property=%s rule=%s reason=%s" % (self.prop, rid, reason))
        if unlisted:
            code = 1
        elif self.errors:
            code = 2
        else:
            code = 0
        wall = time.time() - self.t0
        nob = len(self.obligations)
        ndis = sum(1 for o in self.obligations if o["ok"])
        distinct = len({(o["rule"], o["what"], o["loc"]) for o in self.obligations})
        samples = [
            "%s %s %s%s" % (o["rule"], o["loc"], o["what"], "" if o["ok"] else "  ** NOT DISCHARGED")
            for o in self.obligations[:400]
        ]
        cov = {
            "explanation": explanation,
            "obligations": nob,
            "discharged": ndis,
            "evaluations": max(nob, 1),
            "distinct_nontrivial": distinct,
            "rule": "one evaluation = one static obligation (rule instance at a construct of /repo's current source); "
                    "distinct = distinct (rule, construct, location) triples; all are non-trivial in that each was "
                    "matched against the source on this run",
            "samples": samples or ["(none)"],
            "rules": {rid: r for rid, r in sorted(self.rules.items())},
            "known_findings": [k["id"] for k in self.known_hit],
            "unlisted_violations": [dict(v) for v in unlisted],
            "analysis_errors": ["%s: %s" % e for e in self.errors],
            "exhaustive": True,
        }
        cov.update(self.notes)
        if extra:
            cov.update(extra)
        ev = {
            "property_id": self.prop,
            "tier": self.tier,
            "seed": int(os.environ.get("VERIF_SEED", "0") or 0),
            "level": level,
            "coverage": cov,
            "assumptions": self.assumptions,
            "wall_s": round(wall, 3),
            "violations": len(unlisted),
            "exit_code": code,
        }
        if self.write:
            os.makedirs(os.path.join(VERIF, "evidence"), exist_ok=True)
            with open(os.path.join(VERIF, "evidence", "%s.json" % self.prop), "w") as f:
                json.dump(ev, f, indent=1, default=str)
        if not self.quiet:
            print("\n".join(out))
            print("RESULT property=%s tier=%s obligations=%d discharged=%d known=%d violations=%d errors=%d exit=%d wall=%.2fs"
                  % (self.prop, self.tier, nob, ndis, len(self.known_hit), len(unlisted), len(self.errors), code, wall))
        self.lines = out
        self.code = code
        self.unlisted = unlisted
        return code
