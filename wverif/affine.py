"""E8 — affine length accounting: symbolic execution of the file-based buffer
methods over an abstract file (pos, end) and the `remain` counter, with linear
expressions decided by normal form (no solver).

Unsupported statements raise AnalysisError (the method is then reported as not
analysable, never approximated)."""
from __future__ import annotations

import ast

from .model import AnalysisError, dotted, norm


class Lin:
    """Linear form  sum(coef * symbol) + const  over integer symbols."""

    def __init__(self, terms=None, const=0):
        self.t = {k: v for k, v in (terms or {}).items() if v != 0}
        self.c = const

    @staticmethod
    def sym(name):
        return Lin({name: 1})

    @staticmethod
    def k(n):
        return Lin({}, n)

    def __add__(self, o):
        o = o if isinstance(o, Lin) else Lin.k(o)
        t = dict(self.t)
        for k, v in o.t.items():
            t[k] = t.get(k, 0) + v
        return Lin(t, self.c + o.c)

    def __neg__(self):
        return Lin({k: -v for k, v in self.t.items()}, -self.c)

    def __sub__(self, o):
        o = o if isinstance(o, Lin) else Lin.k(o)
        return self + (-o)

    def __eq__(self, o):
        o = o if isinstance(o, Lin) else Lin.k(o)
        return self.t == o.t and self.c == o.c

    def __hash__(self):
        return hash((tuple(sorted(self.t.items())), self.c))

    def subst(self, name, lin):
        if name not in self.t:
            return self
        coef = self.t[name]
        rest = Lin({k: v for k, v in self.t.items() if k != name}, self.c)
        out = rest
        for _ in range(abs(coef)):
            out = out + lin if coef > 0 else out - lin
        return out

    def __repr__(self):
        parts = []
        for k, v in sorted(self.t.items()):
            parts.append(("%s" % k) if v == 1 else ("-%s" % k if v == -1 else "%d*%s" % (v, k)))
        if self.c or not parts:
            parts.append(str(self.c))
        return " + ".join(parts).replace("+ -", "- ")


class AFile:
    def __init__(self, name):
        self.name = name
        self.P = Lin.sym(name + ".pos0")
        self.E = Lin.sym(name + ".end0")

    def copy(self):
        f = AFile.__new__(AFile)
        f.name, f.P, f.E = self.name, self.P, self.E
        return f


class Bytes:
    def __init__(self, length, upper=None):
        self.len = length
        self.upper = upper  # list of Lin upper bounds


class State:
    def __init__(self):
        self.files = {}  # fid -> AFile
        self.alias = {}  # local / attr path -> fid
        self.loc = {}  # local -> Lin | Bytes | ('flag', name)
        self.attrs = {}  # 'self.remain' -> Lin
        self.assume = {}  # atom text -> bool
        self.facts = []  # (kind, Lin a, Lin b): a <= b
        self.events = []
        self.result = None
        self.fresh = 0
        self.raised = False

    def copy(self):
        s = State()
        s.files = {k: v.copy() for k, v in self.files.items()}
        s.alias = dict(self.alias)
        s.loc = dict(self.loc)
        s.attrs = dict(self.attrs)
        s.assume = dict(self.assume)
        s.facts = list(self.facts)
        s.events = list(self.events)
        s.result = self.result
        s.fresh = self.fresh
        s.raised = self.raised
        return s

    def newsym(self, hint):
        self.fresh += 1
        return Lin.sym("%s#%d" % (hint, self.fresh))


class Exec:
    """Symbolic executor for one function body."""

    def __init__(self, func, init_state, file_exprs):
        self.f = func
        self.file_exprs = file_exprs  # dotted expr -> fid (e.g. 'self.file' -> 'F')
        self.finals = []
        self.init = init_state

    def run(self):
        st = self.init.copy()
        for pn in self.f.params[1:] + self.f.kwonly:
            if pn not in st.loc and pn not in st.alias and pn not in self.file_exprs:
                st.loc[pn] = Lin.sym(pn)
        for (s2) in self.block(self.f.node.body, st):
            if s2 is not None:
                self.finals.append(s2)
        return self.finals

    # --- helpers ---------------------------------------------------------
    def fid_of(self, st, e):
        d = dotted(e)
        if d is None:
            return None
        if d in st.alias:
            return st.alias[d]
        if d in self.file_exprs:
            return self.file_exprs[d]
        return None

    def val(self, st, e):
        """Evaluate an int/bytes expression to Lin / Bytes / None."""
        if isinstance(e, ast.Constant):
            if isinstance(e.value, bool):
                return None
            if isinstance(e.value, int):
                return Lin.k(e.value)
            if isinstance(e.value, bytes):
                return Bytes(Lin.k(len(e.value)))
            return None
        if isinstance(e, ast.Name):
            return st.loc.get(e.id)
        if isinstance(e, ast.Attribute):
            d = dotted(e)
            if d in st.attrs:
                return st.attrs[d]
            return None
        if isinstance(e, ast.BinOp) and isinstance(e.op, (ast.Add, ast.Sub)):
            a, b = self.val(st, e.left), self.val(st, e.right)
            if isinstance(a, Lin) and isinstance(b, Lin):
                return a + b if isinstance(e.op, ast.Add) else a - b
            return None
        if isinstance(e, ast.UnaryOp) and isinstance(e.op, ast.USub):
            a = self.val(st, e.operand)
            return -a if isinstance(a, Lin) else None
        if isinstance(e, ast.Call):
            d = dotted(e.func)
            if d == "len" and len(e.args) == 1:
                v = self.val(st, e.args[0])
                if isinstance(v, Bytes):
                    return v.len
                if isinstance(e.args[0], ast.Name):
                    # parameter of unknown bytes: its length is a symbol
                    s = Lin.sym("len(%s)" % e.args[0].id)
                    return s
                return None
            if d == "int" and len(e.args) == 1:
                return self.val(st, e.args[0])
            if d == "min" and len(e.args) == 2:
                a, b = self.val(st, e.args[0]), self.val(st, e.args[1])
                if isinstance(a, Lin) and isinstance(b, Lin):
                    m = st.newsym("min")
                    st.facts.append(("le", m, a))
                    st.facts.append(("le", m, b))
                    return m
                return None
            if isinstance(e.func, ast.Attribute):
                fid = self.fid_of(st, e.func.value)
                if fid is not None:
                    return self.file_call(st, fid, e)
        return None

    def file_call(self, st, fid, e):
        f = st.files[fid]
        m = e.func.attr
        if m == "tell":
            return f.P
        if m == "seek":
            if len(e.args) == 1:
                v = self.val(st, e.args[0])
                if not isinstance(v, Lin):
                    raise AnalysisError("seek to a non-affine position %s" % norm(e))
                f.P = v
                st.events.append(("seek", fid, v))
                return None
            wh = e.args[1]
            whence = wh.value if isinstance(wh, ast.Constant) else {"os.SEEK_END": 2, "os.SEEK_CUR": 1, "os.SEEK_SET": 0, "io.SEEK_END": 2, "io.SEEK_CUR": 1}.get(dotted(wh))
            off = self.val(st, e.args[0])
            if not isinstance(off, Lin) or whence is None:
                raise AnalysisError("unsupported seek %s" % norm(e))
            if whence == 2:
                f.P = f.E + off
            elif whence == 1:
                f.P = f.P + off
            else:
                f.P = off
            st.events.append(("seek", fid, f.P))
            return None
        if m == "write":
            v = self.val(st, e.args[0])
            if not isinstance(v, Bytes):
                if isinstance(e.args[0], ast.Name):
                    v = Bytes(Lin.sym("len(%s)" % e.args[0].id))
                else:
                    raise AnalysisError("write of unknown value %s" % norm(e))
            if not (f.P == f.E):
                raise AnalysisError("write at a position not known to be the end of file (%s vs %s)" % (f.P, f.E))
            f.E = f.E + v.len
            f.P = f.P + v.len
            st.events.append(("write", fid, v.len))
            return None
        if m == "read":
            if not e.args:
                L = f.E - f.P
                f.P = f.E
                return Bytes(L)
            n = self.val(st, e.args[0])
            L = st.newsym("readlen")
            st.facts.append(("le", L, f.E - f.P))
            if isinstance(n, Lin):
                st.facts.append(("le", L, n))
            f.P = f.P + L
            return Bytes(L)
        if m in ("close", "flush", "seekable", "fileno"):
            return None
        raise AnalysisError("unsupported file operation %s" % norm(e))

    # --- statements --------------------------------------------------------
    def block(self, body, st):
        states = [st]
        for s in body:
            nxt = []
            for x in states:
                if x.result is not None or x.raised:
                    nxt.append(x)
                    continue
                nxt.extend(self.stmt(s, x))
            states = nxt
        return states

    def atom(self, t):
        return norm(t)

    def fork(self, st, test):
        """[(state, truth)] for a test; consistent with earlier assumptions."""
        neg = False
        t = test
        while isinstance(t, ast.UnaryOp) and isinstance(t.op, ast.Not):
            neg = not neg
            t = t.operand
        if isinstance(t, ast.BoolOp):
            # a or b / a and b: enumerate
            out = []
            vals = t.values
            if isinstance(t.op, ast.Or):
                cur = [st]
                for v in vals:
                    nxt = []
                    for s in cur:
                        for (s2, tv) in self.fork(s, v):
                            if tv:
                                out.append((s2, True != neg))
                            else:
                                nxt.append(s2)
                    cur = nxt
                out.extend((s, False != neg) for s in cur)
            else:
                cur = [st]
                for v in vals:
                    nxt = []
                    for s in cur:
                        for (s2, tv) in self.fork(s, v):
                            if not tv:
                                out.append((s2, False != neg))
                            else:
                                nxt.append(s2)
                    cur = nxt
                out.extend((s, True != neg) for s in cur)
            return out
        a = self.atom(t)
        # decidable comparisons between equal affine values
        if isinstance(t, ast.Compare) and len(t.ops) == 1:
            l, r = self.val(st, t.left), self.val(st, t.comparators[0])
            if isinstance(l, Lin) and isinstance(r, Lin) and not (l - r).t:
                import operator as op
                ops = {ast.Eq: op.eq, ast.NotEq: op.ne, ast.Lt: op.lt, ast.LtE: op.le, ast.Gt: op.gt, ast.GtE: op.ge}
                o = ops.get(type(t.ops[0]))
                if o is not None:
                    tv = o((l - r).c, 0)
                    return [(st, tv != neg)]
        if a in st.assume:
            return [(st, st.assume[a] != neg)]
        out = []
        for tv in (True, False):
            s2 = st.copy()
            s2.assume[a] = tv
            # record useful facts
            if isinstance(t, ast.Compare) and len(t.ops) == 1:
                l, r = self.val(s2, t.left), self.val(s2, t.comparators[0])
                if isinstance(l, Lin) and isinstance(r, Lin):
                    o = type(t.ops[0])
                    if (o is ast.Lt and not tv) or (o is ast.GtE and tv):
                        s2.facts.append(("le", r, l))
                    if (o is ast.Gt and not tv) or (o is ast.LtE and tv):
                        s2.facts.append(("le", l, r))
                    if (o is ast.Lt and tv):
                        s2.facts.append(("lt", l, r))
                    if (o is ast.Gt and tv):
                        s2.facts.append(("lt", r, l))
            out.append((s2, tv != neg))
        return out

    def stmt(self, s, st):
        if isinstance(s, ast.Expr):
            if isinstance(s.value, ast.Constant):
                return [st]
            if isinstance(s.value, ast.Call):
                v = s.value
                if isinstance(v.func, ast.Attribute) and self.fid_of(st, v.func.value) is not None:
                    self.file_call(st, self.fid_of(st, v.func.value), v)
                    return [st]
                d = dotted(v.func) or ""
                st.events.append(("call", d, v))
                return [st]
            raise AnalysisError("unsupported expression statement %s" % norm(s))
        if isinstance(s, ast.Assign):
            if len(s.targets) != 1:
                raise AnalysisError("multiple assignment targets")
            t = s.targets[0]
            if isinstance(s.value, ast.IfExp):
                # x = a if c else b  ==  if c: x = a  else: x = b
                out = []
                for (s2, tv) in self.fork(st, s.value.test):
                    a2 = ast.Assign(targets=s.targets, value=s.value.body if tv else s.value.orelse, type_comment=None)
                    ast.copy_location(a2, s)
                    out.extend(self.stmt(a2, s2))
                return out
            # file aliasing
            fid = self.fid_of(st, s.value) if isinstance(s.value, (ast.Name, ast.Attribute)) else None
            if fid is not None:
                d = dotted(t)
                st.alias[d] = fid
                return [st]
            if isinstance(s.value, ast.Call) and isinstance(s.value.func, ast.Attribute) and s.value.func.attr == "getfile":
                src = dotted(s.value.func.value)
                key = "getfile(%s)" % src
                if key in self.file_exprs:
                    st.alias[dotted(t)] = self.file_exprs[key]
                    return [st]
            v = self.val(st, s.value)
            d = dotted(t)
            if isinstance(t, ast.Name):
                st.loc[t.id] = v
            elif d is not None and d.startswith("self."):
                if isinstance(v, Lin) or d in st.attrs:
                    if not isinstance(v, Lin) and d == "self.remain":
                        raise AnalysisError("remain assigned a non-affine value %s" % norm(s.value))
                    st.attrs[d] = v
                else:
                    st.attrs[d] = v
            else:
                raise AnalysisError("unsupported assignment target %s" % norm(t))
            return [st]
        if isinstance(s, ast.AugAssign):
            d = dotted(s.target)
            cur = self.val(st, s.target)
            v = self.val(st, s.value)
            if not (isinstance(cur, Lin) and isinstance(v, Lin)) or not isinstance(s.op, (ast.Add, ast.Sub)):
                raise AnalysisError("unsupported augmented assignment %s" % norm(s))
            nv = cur + v if isinstance(s.op, ast.Add) else cur - v
            if isinstance(s.target, ast.Name):
                st.loc[s.target.id] = nv
            else:
                st.attrs[d] = nv
            return [st]
        if isinstance(s, ast.If):
            out = []
            for (s2, tv) in self.fork(st, s.test):
                out.extend(self.block(s.body if tv else s.orelse, s2))
            return out
        if isinstance(s, ast.Return):
            st.result = ("ret", self.val(st, s.value) if s.value is not None else None, s.value)
            return [st]
        if isinstance(s, ast.Raise):
            st.raised = True
            return [st]
        if isinstance(s, ast.While):
            return self.copy_loop(s, st)
        if isinstance(s, ast.Pass):
            return [st]
        if isinstance(s, (ast.ImportFrom, ast.Import)):
            return [st]
        raise AnalysisError("unsupported statement %s at line %d" % (type(s).__name__, s.lineno))

    def copy_loop(self, s, st):
        """Recognise the block-copy loops
              while True: data = SRC.read(K); if <stop>: break; DST.write(data)
              while True: data = SRC.read(K); DST.write(data); if <stop>: break
        <stop> = `not data` / `len(data) == 0` (copies to EOF), `len(data) < K` (short read: copies to EOF for
        regular files and BytesIO - recorded as an assumption), `len(data) <= K` (always true after the first block:
        the loop copies one block only)."""
        bad = AnalysisError("unsupported loop at line %d (only block-copy loops are modelled)" % s.lineno)
        if not (isinstance(s.test, ast.Constant) and s.test.value is True and len(s.body) == 3 and not s.orelse):
            raise bad
        a = s.body[0]
        rest = s.body[1:]
        if not (isinstance(a, ast.Assign) and isinstance(a.value, ast.Call) and isinstance(a.value.func, ast.Attribute) and a.value.func.attr == "read"
                and len(a.targets) == 1 and isinstance(a.targets[0], ast.Name)):
            raise bad
        dv = a.targets[0].id
        stop = [x for x in rest if isinstance(x, ast.If)]
        wr = [x for x in rest if isinstance(x, ast.Expr) and isinstance(x.value, ast.Call) and isinstance(x.value.func, ast.Attribute) and x.value.func.attr == "write"]
        if len(stop) != 1 or len(wr) != 1 or stop[0].orelse or len(stop[0].body) != 1 or not isinstance(stop[0].body[0], ast.Break):
            raise bad
        c = wr[0]
        src = self.fid_of(st, a.value.func.value)
        dst = self.fid_of(st, c.value.func.value)
        if src is None or dst is None or len(c.value.args) != 1 or dotted(c.value.args[0]) != dv:
            raise AnalysisError("copy loop does not move the data read into the destination")
        K = norm(a.value.args[0]) if a.value.args else None
        t = stop[0].test
        neg = False
        while isinstance(t, ast.UnaryOp) and isinstance(t.op, ast.Not):
            neg = not neg
            t = t.operand
        kind = None
        if isinstance(t, ast.Name) and t.id == dv and neg:
            kind = "eof"
        elif isinstance(t, ast.Compare) and len(t.ops) == 1 and norm(t.left) == "len(%s)" % dv and not neg:
            r = norm(t.comparators[0])
            o = type(t.ops[0])
            if o is ast.Eq and r == "0":
                kind = "eof"
            elif o is ast.Lt and r == "1":
                kind = "eof"
            elif o is ast.Lt and K is not None and r == K:
                kind = "short"
            elif o is ast.LtE and K is not None and r == K:
                kind = "oneblock"
        if kind is None:
            raise AnalysisError("copy loop with an unrecognised stop condition %s at line %d" % (norm(stop[0].test), s.lineno))
        fs, fd = st.files[src], st.files[dst]
        if not (fd.P == fd.E):
            raise AnalysisError("copy loop writes at a position not known to be the end of the destination")
        if kind == "oneblock":
            # read(K) never returns more than K bytes: the stop condition holds after the first block
            n = st.newsym("firstblock")
            st.facts.append(("le", n, fs.E - fs.P))
            st.events.append(("copy-one-block", src, dst, n))
        else:
            n = fs.E - fs.P
            if kind == "short":
                st.events.append(("assume", "a read shorter than requested means end of file (regular files, BytesIO)"))
            st.events.append(("copy", src, dst, n))
        fs.P = fs.P + n
        fd.E = fd.E + n
        fd.P = fd.P + n
        return [st]
