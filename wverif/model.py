"""E0 — program model: parsed modules, classes (C3 MRO), functions, constant folder.

Built from a {relative path: source} mapping so the self-test can analyse
in-memory variants.  Nothing from the analysed package is imported or executed.
"""
from __future__ import annotations

import ast
import os


class AnalysisError(Exception):
    """The analysis cannot be carried out (vanished anchor, unsupported form)."""


class NotConst(Exception):
    pass


PKG = "waitress"


def load_sources(root):
    """Read the analysed package and docs from a checkout rooted at `root`."""
    srcdir = os.path.join(root, "src", PKG)
    out = {}
    if not os.path.isdir(srcdir):
        raise AnalysisError("no source directory %s" % srcdir)
    for fn in sorted(os.listdir(srcdir)):
        if fn.endswith(".py"):
            with open(os.path.join(srcdir, fn), encoding="utf-8") as f:
                out["src/waitress/" + fn] = f.read()
    docdir = os.path.join(root, "docs")
    if os.path.isdir(docdir):
        for fn in sorted(os.listdir(docdir)):
            if fn.endswith(".rst"):
                with open(os.path.join(docdir, fn), encoding="utf-8") as f:
                    out["docs/" + fn] = f.read()
    return out


def dotted(expr):
    """'self.a.b' for Name/Attribute chains, else None."""
    parts = []
    while isinstance(expr, ast.Attribute):
        parts.append(expr.attr)
        expr = expr.value
    if isinstance(expr, ast.Name):
        parts.append(expr.id)
        return ".".join(reversed(parts))
    return None


def norm(node):
    """Normalised text of a construct (position independent)."""
    try:
        return ast.unparse(node)
    except Exception:  # pragma: no cover
        return ast.dump(node)


class Func:
    def __init__(self, qual, node, module, cls, parent):
        self.qual = qual  # e.g. channel.HTTPChannel.service
        self.module = module
        self.cls = cls  # Class or None
        self.parent = parent  # enclosing Func for closures
        self.nested = {}  # name -> Func
        self.rebind(node)

    def rebind(self, node):
        """(Re)attach the function to an AST (used when the program is rewritten into normal form)."""
        self.node = node
        for k in ("_cfg", "_lex_tbl", "_stmt_index"):
            self.__dict__.pop(k, None)
        self.name = node.name
        a = node.args
        self.params = [x.arg for x in a.posonlyargs + a.args]
        self.kwonly = [x.arg for x in a.kwonlyargs]
        self.vararg = a.vararg.arg if a.vararg else None
        self.kwarg = a.kwarg.arg if a.kwarg else None
        # defaults aligned to params
        self.defaults = {}
        pos = a.posonlyargs + a.args
        for p, d in zip(pos[len(pos) - len(a.defaults):], a.defaults):
            self.defaults[p.arg] = d
        for p, d in zip(a.kwonlyargs, a.kw_defaults):
            if d is not None:
                self.defaults[p.arg] = d
        self.decorators = [norm(d) for d in node.decorator_list]
        self.is_property = "property" in self.decorators
        self.is_classmethod = "classmethod" in self.decorators
        self.is_staticmethod = "staticmethod" in self.decorators
        self.is_generator = any(
            isinstance(n, (ast.Yield, ast.YieldFrom)) for n in walk_own(node)
        )

    @property
    def file(self):
        return self.module.path

    def loc(self, node=None):
        node = node or self.node
        return "%s:%d" % (self.module.path, getattr(node, "lineno", 0))

    def __repr__(self):
        return "<Func %s>" % self.qual


def walk_own(fnode):
    """Walk a function body without descending into nested defs/lambdas/classes."""
    stack = list(ast.iter_child_nodes(fnode))
    while stack:
        n = stack.pop()
        yield n
        if isinstance(n, (ast.FunctionDef, ast.AsyncFunctionDef, ast.Lambda, ast.ClassDef)):
            # still yield decorators/defaults? not needed
            continue
        stack.extend(ast.iter_child_nodes(n))


_BODY_FIELDS = ("body", "orelse", "finalbody", "handlers", "cases")


def walk_stmt_exprs(node):
    """Walk the expressions evaluated by one statement itself: nested
    statement bodies, nested function bodies and lambdas are not entered."""
    stack = [node]
    first = True
    while stack:
        n = stack.pop()
        if not first and isinstance(n, (ast.FunctionDef, ast.AsyncFunctionDef, ast.ClassDef)):
            continue
        yield n
        if isinstance(n, ast.Lambda):
            first = False
            continue
        if isinstance(n, ast.stmt) and not isinstance(n, (ast.FunctionDef, ast.AsyncFunctionDef, ast.ClassDef)):
            for fld, val in ast.iter_fields(n):
                if fld in _BODY_FIELDS:
                    continue
                if isinstance(val, ast.AST):
                    stack.append(val)
                elif isinstance(val, list):
                    stack.extend(v for v in val if isinstance(v, ast.AST))
        elif first and isinstance(n, (ast.FunctionDef, ast.AsyncFunctionDef, ast.ClassDef)):
            stack.extend(n.decorator_list)
        else:
            stack.extend(ast.iter_child_nodes(n))
        first = False


class Class:
    def __init__(self, qual, node, module):
        self.qual = qual  # channel.HTTPChannel
        self.name = node.name
        self.node = node
        self.module = module
        self.base_exprs = node.bases
        self.bases = []  # resolved Class objects (in package)
        self.ext_bases = []  # dotted names of external bases
        self.methods = {}  # name -> Func (own)
        self.attrs = {}  # name -> ast expr (class-level assignments)
        self.mro = []
        self.subclasses = []

    def lookup(self, name):
        """Resolve a method through the MRO. Returns Func or None."""
        for c in self.mro:
            if name in c.methods:
                return c.methods[name]
            if name in c.attrs:
                # class-level alias such as  __next__ = next
                v = c.attrs[name]
                if isinstance(v, ast.Name) and v.id in c.methods:
                    return c.methods[v.id]
                return None
        return None

    def lookup_attr(self, name):
        """Class-level attribute expression through the MRO -> (Class, expr)."""
        for c in self.mro:
            if name in c.attrs:
                return c, c.attrs[name]
        return None

    def all_subclasses(self):
        out, stack = [], list(self.subclasses)
        while stack:
            c = stack.pop()
            if c not in out:
                out.append(c)
                stack.extend(c.subclasses)
        return out

    def is_subclass_of(self, other):
        return other in self.mro

    def __repr__(self):
        return "<Class %s>" % self.qual


class Module:
    def __init__(self, name, path, source):
        self.name = name
        self.path = path
        self.source = source
        try:
            self.tree = ast.parse(source, filename=path)
        except SyntaxError as e:
            raise AnalysisError("cannot parse %s: %s" % (path, e))
        self.imports = {}  # local name -> ('mod', modname) | ('sym', modname, symbol) | ('ext', dotted)
        self.globals = {}  # name -> ast expr (last top-level simple assignment)
        self.functions = {}
        self.classes = {}
        self.toplevel = []  # statements considered active on this platform


_PLATFORM_TRUE = {
    "os.name == 'posix'",
    "hasattr(socket, 'AF_UNIX')",
}


def _is_private(n):
    return isinstance(n, str) and n.startswith("_") and not n.startswith("__")


def member_shapes(trees):
    """{scope: {member name: digest}} for the module-level and class-level functions and simple assignments of the given
    {module name: ast.Module}: the digest is the member's code with every private identifier (`_x`) erased, so that a
    member keeps its digest when it - or another private member it mentions - is renamed."""
    import hashlib

    def digest(node):
        n2 = ast.parse(ast.unparse(node)).body[0] if isinstance(node, ast.stmt) else ast.parse(ast.unparse(node), mode="eval").body
        if isinstance(n2, (ast.FunctionDef, ast.AsyncFunctionDef)):
            n2.name = "_"
            if n2.body and isinstance(n2.body[0], ast.Expr) and isinstance(n2.body[0].value, ast.Constant) and isinstance(n2.body[0].value.value, str):
                n2.body = n2.body[1:] or [ast.Pass()]
        for x in ast.walk(n2):
            if isinstance(x, ast.Name) and _is_private(x.id):
                x.id = "_"
            elif isinstance(x, ast.Attribute) and _is_private(x.attr):
                x.attr = "_"
            elif isinstance(x, (ast.FunctionDef, ast.AsyncFunctionDef)) and _is_private(x.name):
                x.name = "_"
        return hashlib.sha1(ast.dump(n2, annotate_fields=False).encode()).hexdigest()[:16]

    def scan(scope, body, out):
        d = out.setdefault(scope, {})
        for st in body:
            if isinstance(st, (ast.FunctionDef, ast.AsyncFunctionDef)):
                d[st.name] = digest(st)
            elif isinstance(st, ast.Assign) and len(st.targets) == 1 and isinstance(st.targets[0], ast.Name):
                d[st.targets[0].id] = digest(st.value)
            elif isinstance(st, ast.ClassDef) and "." not in scope:
                scan(scope + "." + st.name, st.body, out)
    out = {}
    for name, tree in trees.items():
        scan(name, tree.body, out)
    return out


class Program:
    def __init__(self, sources):
        self.sources = sources
        self.modules = {}
        self.functions = {}
        self.classes = {}
        self.docs = {k: v for k, v in sources.items() if k.startswith("docs/")}
        for path, src in sources.items():
            if path.startswith("src/waitress/") and path.endswith(".py"):
                name = path[len("src/waitress/"):-3]
                self.modules[name] = Module(name, path, src)
        self._restore_private_names()
        for m in self.modules.values():
            self._index_module(m)
        self._link_classes()
        self._parents = None

    @classmethod
    def from_repo(cls, root="/repo"):
        return cls(load_sources(root))

    # ------------------------------------------------------------------
    def _active_statements(self, body):
        for st in body:
            if isinstance(st, ast.If):
                t = norm(st.test)
                if t in _PLATFORM_TRUE:
                    yield from self._active_statements(st.body)
                    continue
                yield from self._active_statements(st.body)
                yield from self._active_statements(st.orelse)
            elif isinstance(st, ast.Try):
                yield from self._active_statements(st.body)
                for h in st.handlers:
                    yield from self._active_statements(h.body)
                yield from self._active_statements(st.orelse)
                yield from self._active_statements(st.finalbody)
            else:
                yield st

    def _index_module(self, m):
        for st in self._active_statements(m.tree.body):
            m.toplevel.append(st)
            if isinstance(st, ast.Import):
                for a in st.names:
                    local = a.asname or a.name.split(".")[0]
                    if a.name == PKG or a.name.startswith(PKG + "."):
                        sub = a.name[len(PKG) + 1:]
                        m.imports[local] = ("mod", sub) if a.asname else ("ext", PKG)
                    else:
                        m.imports[local] = ("ext", a.name if a.asname else a.name.split(".")[0])
            elif isinstance(st, ast.ImportFrom):
                modname = st.module or ""
                inpkg = False
                if st.level == 1:
                    inpkg, sub = True, modname
                elif st.level == 0 and (modname == PKG or modname.startswith(PKG + ".")):
                    inpkg, sub = True, modname[len(PKG) + 1:]
                for a in st.names:
                    local = a.asname or a.name
                    if inpkg:
                        if sub == "":
                            # from . import wasyncore / from waitress import trigger
                            m.imports[local] = ("mod", a.name)
                        else:
                            m.imports[local] = ("sym", sub, a.name)
                    else:
                        m.imports[local] = ("ext", (modname + "." + a.name) if modname else a.name)
            elif isinstance(st, (ast.FunctionDef, ast.AsyncFunctionDef)):
                if st.name not in m.functions:
                    self._index_function(st, m, None, None, m.name)
            elif isinstance(st, ast.ClassDef):
                if st.name not in m.classes:
                    self._index_class(st, m)
            elif isinstance(st, ast.Assign):
                for t in st.targets:
                    if isinstance(t, ast.Name):
                        m.globals[t.id] = st.value
                    elif isinstance(t, ast.Tuple) and isinstance(st.value, ast.Tuple) and len(t.elts) == len(st.value.elts):
                        for a, b in zip(t.elts, st.value.elts):
                            if isinstance(a, ast.Name):
                                m.globals[a.id] = b
            elif isinstance(st, ast.AnnAssign) and isinstance(st.target, ast.Name) and st.value is not None:
                m.globals[st.target.id] = st.value

    def _index_function(self, node, m, cls, parent, prefix):
        qual = prefix + "." + node.name
        f = Func(qual, node, m, cls, parent)
        self.functions[qual] = f
        if parent is not None:
            parent.nested[node.name] = f
        elif cls is not None:
            cls.methods[node.name] = f
        else:
            m.functions[node.name] = f
        for n in walk_own(node):
            if isinstance(n, (ast.FunctionDef, ast.AsyncFunctionDef)):
                # only direct nesting level: walk_own does not descend further
                self._index_function(n, m, cls, f, qual)
        return f

    def _index_class(self, node, m):
        qual = m.name + "." + node.name
        c = Class(qual, node, m)
        self.classes[qual] = c
        m.classes[node.name] = c
        for st in node.body:
            if isinstance(st, (ast.FunctionDef, ast.AsyncFunctionDef)):
                self._index_function(st, m, c, None, qual)
            elif isinstance(st, ast.Assign):
                for t in st.targets:
                    if isinstance(t, ast.Name):
                        c.attrs[t.id] = st.value
            elif isinstance(st, ast.AnnAssign) and isinstance(st.target, ast.Name) and st.value is not None:
                c.attrs[st.target.id] = st.value

    def resolve_global(self, m, name):
        """Resolve a module-level name to ('class',Class)|('func',Func)|('mod',Module)|
        ('const', Module, expr)|('ext', dotted)|None."""
        seen = set()
        while True:
            if (m.name, name) in seen:
                return None
            seen.add((m.name, name))
            if name in m.classes:
                return ("class", m.classes[name])
            if name in m.functions:
                return ("func", m.functions[name])
            if name in m.globals:
                return ("const", m, m.globals[name])
            imp = m.imports.get(name)
            if imp is None:
                return None
            if imp[0] == "mod":
                mod = self.modules.get(imp[1])
                return ("mod", mod) if mod else ("ext", PKG + "." + imp[1])
            if imp[0] == "ext":
                return ("ext", imp[1])
            if imp[0] == "sym":
                mod = self.modules.get(imp[1])
                if mod is None:
                    return ("ext", PKG + "." + imp[1] + "." + imp[2])
                m, name = mod, imp[2]
                continue

    def resolve_expr_static(self, m, expr):
        """Resolve Name / mod.Name expressions at module scope."""
        if isinstance(expr, ast.Name):
            return self.resolve_global(m, expr.id)
        if isinstance(expr, ast.Attribute):
            base = self.resolve_expr_static(m, expr.value)
            if base is None:
                return None
            if base[0] == "mod":
                return self.resolve_global(base[1], expr.attr)
            if base[0] == "ext":
                return ("ext", base[1] + "." + expr.attr)
            if base[0] == "class":
                f = base[1].lookup(expr.attr)
                if f:
                    return ("func", f)
                a = base[1].lookup_attr(expr.attr)
                if a:
                    return ("const", a[0].module, a[1])
        return None

    def _link_classes(self):
        for c in self.classes.values():
            for b in c.base_exprs:
                r = self.resolve_expr_static(c.module, b)
                if r and r[0] == "class":
                    c.bases.append(r[1])
                    r[1].subclasses.append(c)
                else:
                    c.ext_bases.append(dotted(b) or norm(b))
        for c in self.classes.values():
            c.mro = self._c3(c)

    def _c3(self, c):
        if not c.bases:
            return [c]
        seqs = [list(self._c3(b)) for b in c.bases] + [list(c.bases)]
        res = [c]
        while True:
            seqs = [s for s in seqs if s]
            if not seqs:
                return res
            for s in seqs:
                cand = s[0]
                if not any(cand in t[1:] for t in seqs):
                    break
            else:
                raise AnalysisError("inconsistent MRO for %s" % c.qual)
            res.append(cand)
            for s in seqs:
                if s[0] is cand:
                    del s[0]

    # ------------------------------------------------------------------
    def func(self, qual, raw=False):
        f = self.functions.get(qual)
        if f is None:
            raise AnalysisError("anchor vanished: function %s" % qual)
        return f

    def _restore_private_names(self):
        """Private members (functions, methods, class attributes, module globals named `_x`) that were merely RENAMED with
        respect to the reference tree get their reference names back, everywhere in the package, before anything is
        indexed: a member of the same scope that the reference tree does not have, with exactly the code (private names
        erased) of a member the reference tree has and this tree lacks.  Pure renaming; ambiguous cases are left alone."""
        ref = self.reference_names().get("__shapes__")
        self.restored_names = {}
        if not ref:
            return
        cur = member_shapes({m.name: m.tree for m in self.modules.values()})
        ref_names = {n for d in ref.values() for n in d}
        used = set()
        for m in self.modules.values():
            for x in ast.walk(m.tree):
                if isinstance(x, ast.Name):
                    used.add(x.id)
                elif isinstance(x, ast.Attribute):
                    used.add(x.attr)
                elif isinstance(x, (ast.FunctionDef, ast.AsyncFunctionDef, ast.ClassDef)):
                    used.add(x.name)
                elif isinstance(x, ast.arg):
                    used.add(x.arg)
        renames = {}
        for scope, rd in ref.items():
            cd = cur.get(scope)
            if not cd:
                continue
            missing = [n for n in rd if n not in cd and _is_private(n) and n not in used]
            new = [n for n in cd if n not in rd and _is_private(n) and n not in ref_names]
            for nn in new:
                cands = [m0 for m0 in missing if rd[m0] == cd[nn]]
                same = [x for x in new if cd[x] == cd[nn]]
                if len(cands) == 1 and len(same) == 1 and renames.get(nn, cands[0]) == cands[0] and cands[0] not in renames.values():
                    renames[nn] = cands[0]
        if not renames:
            return
        for m in self.modules.values():
            for x in ast.walk(m.tree):
                if isinstance(x, ast.Name) and x.id in renames:
                    x.id = renames[x.id]
                elif isinstance(x, ast.Attribute) and x.attr in renames:
                    x.attr = renames[x.attr]
                elif isinstance(x, (ast.FunctionDef, ast.AsyncFunctionDef)) and x.name in renames:
                    x.name = renames[x.name]
                elif isinstance(x, ast.alias) and x.name in renames and x.asname is None:
                    x.name = renames[x.name]
                elif isinstance(x, ast.keyword) and x.arg in renames:
                    pass  # a keyword argument names a parameter, not a member
        self.restored_names = renames

    def reference_names(self):
        t = getattr(self, "_refnames", None)
        if t is None:
            import json
            import os
            path = os.path.join(os.path.dirname(os.path.abspath(__file__)), "reference_names.json")
            try:
                with open(path, encoding="utf-8") as fh:
                    t = json.load(fh)
            except OSError:
                t = {}
            self._refnames = t
        return t

    def private_sentinel(self, module, name):
        """`name` is a module global bound once to a fresh `object()` that never escapes: every reference to it in the
        package is the right side of `local = name` or an operand of `is` / `is not` - so nothing handed in from outside
        (a queue element, an argument) can be that object."""
        cache = self.__dict__.setdefault("_sentinels", {})
        key = (module.name, name)
        if key in cache:
            return cache[key]
        ok = False
        e = module.globals.get(name)
        if isinstance(e, ast.Call) and isinstance(e.func, ast.Name) and e.func.id == "object" and not e.args and not e.keywords and name.startswith("_"):
            ok = True
            nbind = 0
            for m in self.modules.values():
                par = {}
                for pn in ast.walk(m.tree):
                    for ch in ast.iter_child_nodes(pn):
                        par[id(ch)] = pn
                for n in ast.walk(m.tree):
                    if isinstance(n, ast.alias) and (n.name == name or n.asname == name):
                        ok = False
                    if isinstance(n, ast.Attribute) and n.attr == name:
                        ok = False
                    if isinstance(n, ast.Name) and n.id == name:
                        if m is not module:
                            ok = False
                            continue
                        pn = par.get(id(n))
                        if isinstance(n.ctx, ast.Store):
                            nbind += 1
                        elif isinstance(pn, ast.Compare) and all(isinstance(o, (ast.Is, ast.IsNot)) for o in pn.ops):
                            pass
                        elif isinstance(pn, ast.Assign) and pn.value is n and all(isinstance(t, ast.Name) for t in pn.targets):
                            pass
                        else:
                            ok = False
            if nbind != 1:
                ok = False
        cache[key] = ok
        return ok

    def normalise(self, anchor_names):
        """Rewrite every function into the normal form the rules are written
        against (inline.py): unknown private helpers inlined, locals given the
        reference tree's names, new temporaries / condition flags / stable
        aliases substituted, reference temporaries restored.  Every step is
        behaviour-preserving.  Must run before any analysis caches anything."""
        if getattr(self, "_normalised", False):
            return
        self._normalised = True
        from .inline import unroll_literal_loops, _boolean_ifexp_in_tests, split_boolop_assignments, split_named_expressions, attributes_from_constant_getattr, thread_exit_flags, drop_self_assignments, loops_from_primed, _fold_constant_tests, split_tuple_assignments, comprehensions_from_append_loops, loops_from_leading_breaks, flags_to_breaks, _attr_alias_candidates, expand_attribute_aliases, inline_new_constants, new_constants, alpha_normalise, expand_condition_locals, inline_new_temps, inlined, loops_from_filtered_generators, loops_from_quantifiers, outline_reference_temps, split_conditional_expressions
        anchor_names = frozenset(anchor_names)
        self.inline_anchors = anchor_names

        tab = self.reference_names()

        def pred(callee):
            # private helpers, and any function the reference tree does not have (a helper somebody extracted)
            n = callee.name
            if n in anchor_names or (n.startswith("__") and n.endswith("__")):
                return False
            return (n.startswith("_") and not n.startswith("__")) or callee.qual not in tab
        self.normal_form_log = {}
        # innermost functions first, so a parent is copied with its closures already rewritten
        order = sorted(self.functions.values(), key=lambda f: -f.qual.count("."))
        for f in order:
            f.raw_node = getattr(f, "raw_node", f.node)
        gl, ca = new_constants(self, tab)
        # locals that track an attribute (x = self.A ... x = self.A = E): deciding that no call in between re-binds A needs
        # the call graph of the tree as it is; it is built only when such a local exists that the reference tree lacks
        raw_cg = None
        alias_funcs = set()
        for f in order:
            keep0 = set(tab.get(f.qual, {}).get("keys", {}).values())
            if any(x not in keep0 for x in _attr_alias_candidates(f.node)):
                alias_funcs.add(f.qual)
        if alias_funcs:
            from .callgraph import CallGraph
            raw_cg = CallGraph(self)
            writers = {}
            for f2 in self.functions.values():
                for n2 in walk_own(f2.node):
                    if isinstance(n2, ast.Attribute) and isinstance(n2.ctx, (ast.Store, ast.Del)):
                        writers.setdefault(n2.attr, set()).add(f2.qual)
        self.normal_form_constants = {"globals": {k: sorted(v) for k, v in gl.items()}, "class_attrs": {k: sorted(v) for k, v in ca.items()}}
        for f in order:
            nf = split_named_expressions(f)
            nf = unroll_literal_loops(nf)
            nf = loops_from_quantifiers(nf)  # before the inliner: the predicate of any() / all() may be a helper call
            nf = inlined(self, nf, pred=pred)
            if getattr(nf, "inlined_from", None):
                nf = drop_self_assignments(nf)
                nf = attributes_from_constant_getattr(nf)
            nf = split_tuple_assignments(nf)
            nf = comprehensions_from_append_loops(nf, set(tab.get(f.qual, {}).get("keys", {}).values()))
            nf = inline_new_constants(nf, gl, ca)
            nf = split_conditional_expressions(nf)
            nf = split_boolop_assignments(nf)
            nf = drop_self_assignments(nf)
            nf = loops_from_quantifiers(nf)
            nf = flags_to_breaks(nf)
            nf = loops_from_leading_breaks(nf)
            nf = loops_from_primed(nf)
            nf, ren = alpha_normalise(nf, tab)
            keep = set(tab.get(f.qual, {}).get("keys", {}).values())
            if f.qual in tab:
                nf = inline_new_temps(nf, keep)
                nf = outline_reference_temps(nf, tab[f.qual]["keys"])
            nf = loops_from_filtered_generators(nf)
            if raw_cg is not None and f.qual in alias_funcs:
                def may_write(call, attr, _f=f):
                    o = getattr(call, "_orig", call)
                    tg = raw_cg.callees(o)
                    if not tg:
                        # unresolved: a call on an opaque object (socket, logger, builtin) cannot reach package code
                        return False
                    w = writers.get(attr, set())
                    if not w:
                        return False
                    reach = raw_cg.reachable(list(tg))
                    return any(q in w and q != "__none__" and (self.functions[q].cls is None or _f.cls is None or self.functions[q].cls in _f.cls.mro or _f.cls in self.functions[q].cls.mro) for q in reach)
                nf = expand_attribute_aliases(nf, keep, may_write)
            nf = expand_condition_locals(nf, self.stable_attr, keep)
            if nf is f:
                continue
            if getattr(nf, "inlined_from", None):
                _boolean_ifexp_in_tests(nf.node)  # `False if c else x` left behind by a ladder helper expanded in a test
                _fold_constant_tests(nf.node)  # `t = True; if t:` left behind by an inlined predicate
                ast.fix_missing_locations(nf.node)
            self.normal_form_log[f.qual] = {"inlined": list(getattr(nf, "inlined_from", [])), "renamed": dict(ren)}
            self._replace_node(f, nf.node)
        for k in ("_callgraph", "_locks", "_roles"):
            self.__dict__.pop(k, None)
        # helpers whose every use was expanded are dead code now
        expanded = {q for v in self.normal_form_log.values() for q in v["inlined"]}
        for q in sorted(expanded):
            h = self.functions.get(q)
            if h is None or h.parent is not None:
                continue
            used = False
            for m in self.modules.values():
                for n in ast.walk(m.tree):
                    if (isinstance(n, ast.Name) and n.id == h.name) or (isinstance(n, ast.Attribute) and n.attr == h.name) \
                            or (isinstance(n, ast.Constant) and n.value == h.name) or (isinstance(n, ast.alias) and n.name == h.name):
                        used = True
                        break
                if used:
                    break
            if used:
                continue
            del self.functions[q]
            for k in [k for k in self.functions if k.startswith(q + ".")]:
                del self.functions[k]
            if h.cls is not None:
                h.cls.methods.pop(h.name, None)
                if h.node in h.cls.node.body:
                    h.cls.node.body.remove(h.node)
            else:
                h.module.functions.pop(h.name, None)
                if h.node in h.module.tree.body:
                    h.module.tree.body.remove(h.node)
                if h.node in h.module.toplevel:
                    h.module.toplevel.remove(h.node)
            self.normal_form_log.setdefault(q, {})["removed"] = True
        # decisions taken under a lock and acted upon after it (flag / sentinel): threaded now that expanded helpers are
        # gone - whether a sentinel escapes is judged on the tree as it is after normalisation
        for f in sorted(self.functions.values(), key=lambda f: -f.qual.count(".")):
            nf = thread_exit_flags(f, sentinel_ok=lambda nm, _m=f.module: self.private_sentinel(_m, nm))
            if nf is not f:
                self.normal_form_log.setdefault(f.qual, {}).setdefault("inlined", [])
                self.normal_form_log[f.qual]["threaded"] = True
                self._replace_node(f, nf.node)
        for k in ("_callgraph", "_locks", "_roles"):
            self.__dict__.pop(k, None)

    def _replace_node(self, f, new):
        old = f.node
        containers = []
        if f.parent is not None:
            containers.append(f.parent.node)
        elif f.cls is not None:
            containers.append(f.cls.node)
        else:
            containers.append(f.module.tree)
        done = False
        for c in containers:
            for n in ast.walk(c):
                for fld in ("body", "orelse", "finalbody"):
                    lst = getattr(n, fld, None)
                    if isinstance(lst, list):
                        for i, x in enumerate(lst):
                            if x is old:
                                lst[i] = new
                                done = True
        if f.parent is None and f.cls is None:
            tl = f.module.toplevel
            for i, x in enumerate(tl):
                if x is old:
                    tl[i] = new
        f.rebind(new)
        # closures of f now live inside the copy
        raw_to_func = {}

        def collect(g):
            for h in g.nested.values():
                raw_to_func[id(h.raw_node)] = h
                collect(h)
        collect(f)
        if raw_to_func:
            for n in ast.walk(new):
                if isinstance(n, (ast.FunctionDef, ast.AsyncFunctionDef)) and n is not new:
                    o = getattr(n, "_orig", n)
                    h = raw_to_func.get(id(o))
                    if h is not None:
                        h.rebind(n)
        return done

    def stable_attr(self, attr):
        """Attribute name never re-bound outside a constructor anywhere in the
        package (so `x = obj.attr` aliases the same object for good)."""
        reb = getattr(self, "_rebound", None)
        if reb is None:
            reb = set()
            for f in self.functions.values():
                if f.name == "__init__":
                    continue
                for n in walk_own(f.node):
                    if isinstance(n, ast.Attribute) and isinstance(n.ctx, (ast.Store, ast.Del)):
                        reb.add(n.attr)
                    elif isinstance(n, ast.Call) and isinstance(n.func, ast.Name) and n.func.id in ("setattr", "delattr"):
                        reb.add("*")
                    elif isinstance(n, ast.Attribute) and n.attr == "__dict__":
                        reb.add("*")
            self._rebound = reb
        return "*" not in reb and attr not in reb

    def enable_inlining(self, anchor_names):
        self.normalise(anchor_names)

    def cls(self, qual):
        c = self.classes.get(qual)
        if c is None:
            raise AnalysisError("anchor vanished: class %s" % qual)
        return c

    def method(self, clsqual, name):
        c = self.cls(clsqual)
        f = c.lookup(name)
        if f is None:
            raise AnalysisError("anchor vanished: method %s.%s" % (clsqual, name))
        return f

    def module(self, name):
        m = self.modules.get(name)
        if m is None:
            raise AnalysisError("anchor vanished: module %s" % name)
        return m

    # ------------------------------------------------------------------
    # constant folding
    def fold(self, expr, m, env=None, _depth=0):
        """Evaluate a constant expression without importing the package."""
        if _depth > 40:
            raise NotConst("too deep")
        env = env or {}
        F = lambda e: self.fold(e, m, env, _depth + 1)  # noqa: E731
        if isinstance(expr, ast.Constant):
            return expr.value
        if isinstance(expr, ast.Name):
            if expr.id in env:
                return env[expr.id]
            r = self.resolve_global(m, expr.id)
            if r is None:
                if expr.id in ("True", "False", "None"):
                    return {"True": True, "False": False, "None": None}[expr.id]
                import builtins

                if hasattr(builtins, expr.id):
                    return Sym("builtins." + expr.id)
                raise NotConst("unknown name %s" % expr.id)
            if r[0] == "const":
                return self.fold(r[2], r[1], None, _depth + 1)
            if r[0] == "ext":
                return Sym(r[1])
            if r[0] == "func":
                return Sym("func:" + r[1].qual)
            if r[0] == "class":
                return Sym("class:" + r[1].qual)
            raise NotConst("name %s is %s" % (expr.id, r[0]))
        if isinstance(expr, ast.Attribute):
            r = self.resolve_expr_static(m, expr)
            if r is not None:
                if r[0] == "const":
                    return self.fold(r[2], r[1], None, _depth + 1)
                if r[0] == "ext":
                    if r[1].startswith("re."):
                        import re as _re

                        v = getattr(_re, r[1][3:], None)
                        if isinstance(v, _re.RegexFlag):
                            return int(v)
                    return Sym(r[1])
                if r[0] == "func":
                    return Sym("func:" + r[1].qual)
                if r[0] == "class":
                    return Sym("class:" + r[1].qual)
            raise NotConst("attribute %s" % norm(expr))
        if isinstance(expr, ast.Tuple):
            return tuple(F(e) for e in expr.elts)
        if isinstance(expr, ast.List):
            return [F(e) for e in expr.elts]
        if isinstance(expr, ast.Set):
            return frozenset(F(e) for e in expr.elts)
        if isinstance(expr, ast.Dict):
            return {F(k): F(v) for k, v in zip(expr.keys, expr.values)}
        if isinstance(expr, ast.BinOp):
            a, b = F(expr.left), F(expr.right)
            try:
                if isinstance(expr.op, ast.Add):
                    return a + b
                if isinstance(expr.op, ast.Mod):
                    return a % b
                if isinstance(expr.op, ast.Mult):
                    return a * b
                if isinstance(expr.op, ast.Sub):
                    return a - b
                if isinstance(expr.op, ast.BitOr):
                    return a | b
                if isinstance(expr.op, ast.LShift):
                    return a << b
            except Exception as e:
                raise NotConst(str(e))
            raise NotConst("binop")
        if isinstance(expr, ast.UnaryOp) and isinstance(expr.op, ast.USub):
            return -F(expr.operand)
        if isinstance(expr, ast.JoinedStr):
            out = ""
            for v in expr.values:
                if isinstance(v, ast.Constant):
                    out += v.value
                elif isinstance(v, ast.FormattedValue) and v.conversion == -1 and v.format_spec is None:
                    out += format(F(v.value))
                else:
                    raise NotConst("fstring")
            return out
        if isinstance(expr, ast.DictComp):
            if len(expr.generators) != 1 or not isinstance(expr.generators[0].target, ast.Name):
                raise NotConst("comprehension")
            g = expr.generators[0]
            it = F(g.iter)
            out = {}
            for v in (sorted(it, key=repr) if isinstance(it, (set, frozenset)) else it):
                e2 = dict(env)
                e2[g.target.id] = v
                if all(self.fold(c, m, e2, _depth + 1) for c in g.ifs):
                    out[self.fold(expr.key, m, e2, _depth + 1)] = self.fold(expr.value, m, e2, _depth + 1)
            return out
        if isinstance(expr, (ast.ListComp, ast.SetComp, ast.GeneratorExp)):
            if len(expr.generators) != 1:
                raise NotConst("comprehension")
            g = expr.generators[0]
            if not isinstance(g.target, ast.Name):
                raise NotConst("comprehension target")
            it = F(g.iter)
            out = []
            for v in (sorted(it, key=repr) if isinstance(it, (set, frozenset)) else it):
                e2 = dict(env)
                e2[g.target.id] = v
                if all(self.fold(c, m, e2, _depth + 1) for c in g.ifs):
                    out.append(self.fold(expr.elt, m, e2, _depth + 1))
            if isinstance(expr, ast.SetComp):
                return frozenset(out)
            return out
        if isinstance(expr, ast.Call):
            fn = expr.func
            args = [F(a) for a in expr.args]
            kwargs = {k.arg: F(k.value) for k in expr.keywords}
            if isinstance(fn, ast.Name) and fn.id in ("frozenset", "set", "tuple", "list", "dict", "str", "len", "sorted"):
                if fn.id in ("frozenset", "set"):
                    return frozenset(*args)
                if fn.id == "tuple":
                    return tuple(*args)
                if fn.id == "list":
                    return list(*args)
                if fn.id == "dict":
                    return dict(*args, **kwargs)
                if fn.id == "str":
                    return str(*args)
                if fn.id == "len":
                    return len(*args)
                if fn.id == "sorted":
                    return sorted(*args)
            if isinstance(fn, ast.Attribute):
                d = dotted(fn)
                if d == "re.compile":
                    return RePat(args[0], args[1] if len(args) > 1 else kwargs.get("flags", 0))
                try:
                    recv = F(fn.value)
                except NotConst:
                    raise
                if isinstance(recv, (str, bytes)) and fn.attr in (
                    "encode", "decode", "lower", "upper", "replace", "join", "strip",
                    "lstrip", "rstrip", "split", "format", "capitalize",
                ):
                    try:
                        return getattr(recv, fn.attr)(*args, **kwargs)
                    except Exception as e:
                        raise NotConst(str(e))
                if isinstance(recv, (frozenset, set)) and fn.attr in ("difference", "union", "intersection", "symmetric_difference", "copy"):
                    try:
                        return frozenset(getattr(frozenset(recv), fn.attr)(*[frozenset(a) if isinstance(a, (list, tuple, set, frozenset)) else a for a in args]))
                    except Exception as e:
                        raise NotConst(str(e))
            if isinstance(fn, ast.Name):
                r = self.resolve_global(m, fn.id)
                if r and r[0] == "func":
                    return self._fold_simple_call(r[1], args, kwargs, _depth)
            raise NotConst("call %s" % norm(fn))
        if isinstance(expr, ast.Subscript):
            v = F(expr.value)
            if isinstance(expr.slice, ast.Slice):
                lo = F(expr.slice.lower) if expr.slice.lower else None
                hi = F(expr.slice.upper) if expr.slice.upper else None
                return v[lo:hi]
            return v[F(expr.slice)]
        raise NotConst("unsupported %s" % type(expr).__name__)

    def _fold_simple_call(self, f, args, kwargs, depth):
        """Fold helper functions of the form  def f(a, b=..): return <expr>."""
        body = [s for s in f.node.body if not (isinstance(s, ast.Expr) and isinstance(s.value, ast.Constant))]
        if len(body) != 1 or not isinstance(body[0], ast.Return) or body[0].value is None:
            raise NotConst("call of non-trivial function %s" % f.qual)
        env = {}
        for p, a in zip(f.params, args):
            env[p] = a
        if f.vararg:
            env[f.vararg] = tuple(args[len(f.params):])
        for k, v in kwargs.items():
            env[k] = v
        for p, d in f.defaults.items():
            if p not in env:
                env[p] = self.fold(d, f.module, None, depth + 1)
        return self.fold(body[0].value, f.module, env, depth + 1)

    def const(self, modname, name):
        m = self.module(modname)
        if name not in m.globals:
            raise AnalysisError("anchor vanished: constant %s.%s" % (modname, name))
        try:
            return self.fold(m.globals[name], m)
        except NotConst as e:
            raise AnalysisError("cannot fold %s.%s: %s" % (modname, name, e))


class Sym:
    """An external symbol (errno.EPIPE, socket.AF_INET, a function reference)."""

    def __init__(self, name):
        self.name = name

    def __eq__(self, o):
        return isinstance(o, Sym) and o.name == self.name

    def __hash__(self):
        return hash(("Sym", self.name))

    def __repr__(self):
        return "Sym(%s)" % self.name


class RePat:
    def __init__(self, pattern, flags=0):
        self.pattern = pattern
        self.flags = flags

    def __repr__(self):
        return "RePat(%r, %r)" % (self.pattern, self.flags)
