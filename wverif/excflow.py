"""E6 — exception routing: where does an exception of a given class raised at
a given statement end up, following enclosing handlers lexically and then the
resolved call graph upwards."""
from __future__ import annotations

import ast
import builtins

from .callgraph import get_callgraph
from .cfg import cfg_of, handler_names
from .model import NotConst, Sym, dotted, norm


class ExcClass:
    """An exception class: builtin (by name) or package class."""

    def __init__(self, program, name):
        self.p = program
        self.name = name
        self.builtin = getattr(builtins, name, None) if isinstance(name, str) and "." not in name else None
        self.pkg = program.classes.get(name) if self.builtin is None else None

    def ancestors(self):
        """Names of all classes this one is a subclass of (incl. itself)."""
        out = set()
        if self.builtin is not None and isinstance(self.builtin, type):
            for c in self.builtin.__mro__:
                out.add(c.__name__)
            return out
        if self.pkg is not None:
            for c in self.pkg.mro:
                out.add(c.qual)
                out.add(c.name)
                for b in c.ext_bases:
                    bc = getattr(builtins, b.split(".")[-1], None)
                    if isinstance(bc, type):
                        for k in bc.__mro__:
                            out.add(k.__name__)
            return out
        return {self.name}


def resolve_handler_classes(program, func, h):
    """Set of class names an except clause catches; None = everything."""
    names = handler_names(h)
    if names is None:
        return None
    out = set()
    for n in names:
        expr = ast.parse(n, mode="eval").body
        try:
            v = program.fold(expr, func.module)
        except NotConst:
            v = None
        vals = v if isinstance(v, tuple) else (v,)
        ok = False
        for x in vals:
            if isinstance(x, Sym):
                nm = x.name
                if nm.startswith("builtins."):
                    out.add(nm[9:])
                    ok = True
                elif nm.startswith("class:"):
                    out.add(nm[6:])
                    out.add(nm[6:].split(".")[-1])
                    ok = True
                else:
                    out.add(nm.split(".")[-1])
                    ok = True
        if not ok:
            out.add(n.split(".")[-1])
    return out


def handler_catches(program, func, h, exc):
    hs = resolve_handler_classes(program, func, h)
    if hs is None:
        return True
    return bool(hs & ExcClass(program, exc).ancestors())


def handler_may_catch_subclass(program, func, h, exc):
    """The handler catches some *subclass* of exc but not exc itself (partial)."""
    hs = resolve_handler_classes(program, func, h)
    if hs is None:
        return False
    for n in hs:
        if exc in ExcClass(program, n).ancestors() and n != exc:
            return True
    return False


def handler_behaviour(cfg, hnode):
    """'swallow' | 'reraise-always' | 'reraise-sometimes' for a handler entry
    node: does control leave the handler body by (re-)raising?"""
    # nodes of the handler body reachable from hnode until leaving the try statement
    raises = False
    normal = False
    seen = set()
    st = [hnode]
    body_ids = {id(x) for x in ast.walk(hnode.ast)}
    while st:
        n = st.pop()
        if n.id in seen:
            continue
        seen.add(n.id)
        inside = n is hnode or (n.ast is not None and id(n.ast) in body_ids) or n.kind == "join"
        if n.kind == "stmt" and isinstance(n.ast, ast.Raise) and id(n.ast) in body_ids:
            raises = True
            continue
        if n.kind in ("exit",):
            normal = True
            continue
        if n.ast is not None and n.kind in ("stmt", "test", "iter", "with_enter") and id(n.ast) not in body_ids and n is not hnode:
            normal = True  # left the handler body normally
            continue
        for (s, l) in n.succ:
            if l == "exc":
                continue
            st.append(s)
    if raises and normal:
        return "reraise-sometimes"
    if raises:
        return "reraise-always"
    return "swallow"


class Terminal:
    def __init__(self, kind, func, hnode, chain):
        self.kind = kind  # 'handler' | 'escape'
        self.func = func
        self.hnode = hnode
        self.chain = chain

    def describe(self):
        if self.kind == "escape":
            return "escapes %s (no caller in package)" % self.func.qual
        return "caught by `except %s` in %s at %s" % (
            norm(self.hnode.ast.type) if self.hnode.ast.type is not None else "<bare>", self.func.qual, self.func.loc(self.hnode.ast))


def enclosing_handlers(cfg, node):
    """Handler entry nodes an exception raised at `node` meets, innermost
    first, as a list of lists (one per enclosing try, through finally copies)."""
    out = []
    seen = set()
    cur = [s for (s, l) in node.succ if l == "exc"]
    while cur:
        nxt = []
        for d in cur:
            if d.id in seen:
                continue
            seen.add(d.id)
            if d.kind == "dispatch":
                out.append(list(d.handlers or []))
                nxt.extend(s for (s, l) in d.succ if l == "exc" and s.kind != "handler")
            elif d.kind == "raise_exit":
                pass
            else:
                # finally copy: follow to its exceptional continuation
                st = [d]
                vis = set()
                while st:
                    x = st.pop()
                    if x.id in vis:
                        continue
                    vis.add(x.id)
                    for (s, l) in x.succ:
                        if l == "exc" and (s.kind in ("dispatch", "raise_exit")):
                            nxt.append(s)
                        elif l != "exc":
                            st.append(s)
        cur = nxt
    return out


def _recv_classes_at(cg, func, g, node, call):
    """Classes of the receiver of `call` at cfg node, using the reaching
    definition of a local receiver when it is unique (flow-sensitive refinement
    of the flow-insensitive points-to result)."""
    fn = call.func if isinstance(call, ast.Call) else None
    if not isinstance(fn, ast.Attribute):
        return None
    recv = fn.value
    if isinstance(recv, ast.Name):
        defs = []
        for n in g.nodes:
            if n.kind == "stmt" and isinstance(n.ast, ast.Assign) and any(isinstance(t, ast.Name) and t.id == recv.id for t in n.ast.targets):
                defs.append(n)
        dom = [d for d in defs if g.dominates(d, node)]
        if dom:
            D = dom[0]
            for d in dom[1:]:
                if g.dominates(D, d):
                    D = d
            others = [k for k in defs if k is not D and node.id in g.reach(k, avoid=[D])]
            if not others:
                return {v[1] for v in cg.types_of(func, D.ast.value) if v[0] == "inst"}
    return {v[1] for v in cg.types_of(func, recv) if v[0] == "inst"} or None


def route(program, func, node, exc, _seen=None, _chain=None, roots_only=None, cls=None):
    """Terminals for exception class `exc` raised at cfg `node` of `func`.
    cls: class of `self` in func when known (receiver-sensitive climbing)."""
    cg = get_callgraph(program)
    if cls is None and func.cls is not None:
        g0 = func
        while g0.parent is not None:
            g0 = g0.parent
        cls = g0.cls
    _seen = _seen if _seen is not None else set()
    _chain = (_chain or []) + ["%s at %s" % (func.qual, func.loc(node.ast) if node.ast is not None else func.loc())]
    g = cfg_of(func)
    for handlers in enclosing_handlers(g, node):
        for h in handlers:
            if handler_catches(program, func, h.ast, exc):
                beh = handler_behaviour(g, h)
                t = Terminal("handler", func, h, _chain)
                t.behaviour = beh
                if beh == "swallow":
                    return [t]
                out = [t] if beh == "reraise-sometimes" else []
                if beh == "reraise-always":
                    t.kind = "passthrough"
                # re-raised: continues outward from the handler
                out += route_from_handler(program, func, h, exc, _seen, _chain, cls)
                return out
    # leaves the function
    key = (func.qual, exc, cls.qual if cls is not None else None)
    if key in _seen:
        return []
    _seen.add(key)
    callers = cg.callers.get(func.qual, [])
    if func.is_generator:
        callers = []  # exceptions surface at the iteration site, not the call site
    out = []
    if not callers:
        return [Terminal("escape", func, None, _chain)]
    for s in callers:
        cgf = cfg_of(s.func)
        cn = _node_of_call(cgf, s.node)
        if cn is None:
            continue
        ncls = None
        sname = cg._self_name(s.func)
        fn = s.node.func if isinstance(s.node, ast.Call) else None
        if isinstance(fn, ast.Attribute) and isinstance(fn.value, ast.Name) and fn.value.id == sname:
            ncls = cls if (cls is not None and s.func.cls is not None and s.func.cls in cls.mro) else None
        elif cls is not None and func.cls is not None and isinstance(fn, ast.Attribute):
            rc = _recv_classes_at(cg, s.func, cgf, cn, s.node)
            if rc is not None and not any(cls is c or cls in c.mro or c in cls.mro for c in rc):
                continue  # this call site cannot have `cls` as receiver
        out += route(program, s.func, cn, exc, _seen, _chain, cls=ncls)
    return out


def route_from_handler(program, func, hnode, exc, _seen, _chain, cls=None):
    """Continue routing for an exception re-raised inside handler hnode."""
    g = cfg_of(func)
    out = []
    for n in g.nodes:
        if n.kind == "stmt" and isinstance(n.ast, ast.Raise) and any(id(n.ast) == id(x) for x in ast.walk(hnode.ast)):
            out += route(program, func, n, exc, _seen, _chain[:-1], cls=cls)
    return out


def _node_of_call(cfg, call):
    for n in cfg.nodes:
        if n.ast is None or n.kind == "branch":
            continue
        root = n.ast
        if n.kind == "iter":
            root = n.ast.target
        if n.kind == "with_enter":
            for it in n.ast.items:
                for x in ast.walk(it.context_expr):
                    if x is call:
                        return n
            continue
        if isinstance(root, (ast.If, ast.While, ast.For, ast.Try, ast.With, ast.FunctionDef, ast.AsyncFunctionDef, ast.ClassDef, ast.ExceptHandler)):
            continue
        for x in ast.walk(root):
            if x is call:
                return n
    return None


# ----------------------------------------------------------------------
# frozen table of raising primitives relevant to client-controlled data
# (DESIGN.md A.4).  Each entry: the exception class and the guard idiom that
# makes the site safe.

def _dominating_guard(cfg, node, pred, polarity=None):
    for (t, pol, b) in cfg.guards(node):
        if (polarity is None or pol == polarity) and pred(t, pol):
            return True
    return False


def _codec(call, program, func, idx):
    if len(call.args) > idx:
        try:
            v = program.fold(call.args[idx], func.module)
        except NotConst:
            return None
        return v if isinstance(v, str) else None
    for kw in call.keywords:
        if kw.arg in ("encoding",):
            try:
                return program.fold(kw.value, func.module)
            except NotConst:
                return None
    return "utf-8"


def _norm_codec(c):
    return (c or "").lower().replace("-", "").replace("_", "")


def primitive_sites(program, func, is_match_var=None):
    """[(cfg node, exc class, description)] for statements of `func` that may
    raise on client-controlled data and are NOT protected by the local guard
    idiom. try/except protection is handled by the caller through routing."""
    g = cfg_of(func)
    out = []
    reach = g.reachable_nodes()
    raise_arity = _raise_arity(program)
    # names assigned from regex matches
    match_vars = set()
    for n in ast.walk(func.node):
        if isinstance(n, ast.Assign) and isinstance(n.value, ast.Call) and isinstance(n.value.func, ast.Attribute) \
                and n.value.func.attr in ("match", "fullmatch", "search"):
            for t in n.targets:
                if isinstance(t, ast.Name):
                    match_vars.add(t.id)
    for n in g.nodes:
        if n.id not in reach or n.ast is None or n.kind not in ("stmt", "test", "iter"):
            continue
        roots = [n.ast] if n.kind != "iter" else [n.ast.target]
        if isinstance(n.ast, (ast.FunctionDef, ast.AsyncFunctionDef, ast.ClassDef)):
            continue
        for root in roots:
            for e in ast.walk(root):
                if isinstance(e, ast.Lambda):
                    continue
                if isinstance(e, ast.Call):
                    d = dotted(e.func) or ""
                    if d == "int" and e.args:
                        base = 10
                        if len(e.args) > 1 and isinstance(e.args[1], ast.Constant):
                            base = e.args[1].value
                        out.append((n, "ValueError", "int(%s, base %s)" % (norm(e.args[0])[:30], base), {"kind": "int", "base": base, "arg": e.args[0], "call": e}))
                    elif d.endswith("urlsplit") or d.endswith("urlparse"):
                        out.append((n, "ValueError", "%s()" % d, {"kind": "urlsplit"}))
                    elif isinstance(e.func, ast.Attribute) and e.func.attr == "decode":
                        c = _norm_codec(_codec(e, program, func, 0))
                        if c not in ("latin1", "iso88591"):
                            out.append((n, "UnicodeDecodeError", "%s with codec %s" % (norm(e)[:40], c or "?"), {"kind": "decode"}))
                    elif isinstance(e.func, ast.Attribute) and e.func.attr == "encode":
                        c = _norm_codec(_codec(e, program, func, 0))
                        if c not in ("latin1", "iso88591", "utf8"):
                            out.append((n, "UnicodeEncodeError", "%s with codec %s" % (norm(e)[:40], c or "?"), {"kind": "encode"}))
                    elif d == "str" and len(e.args) >= 2:
                        c = _norm_codec(_codec(e, program, func, 1))
                        if c not in ("latin1", "iso88591"):
                            out.append((n, "UnicodeDecodeError", "%s with codec %s" % (norm(e)[:40], c or "?"), {"kind": "decode"}))
                    elif isinstance(e.func, ast.Attribute) and e.func.attr in ("group", "groups", "end", "start", "span") \
                            and isinstance(e.func.value, ast.Name) and e.func.value.id in match_vars:
                        v = e.func.value.id
                        if not _not_none_guard(g, n, v):
                            out.append((n, "AttributeError", "%s on a possibly-None match" % norm(e)[:40], {"kind": "match"}))
                elif isinstance(e, ast.Subscript) and isinstance(e.ctx, ast.Load) and not isinstance(e.slice, ast.Slice):
                    base = e.value
                    bd = dotted(base)
                    if isinstance(base, ast.Name) and base.id in match_vars:
                        if not _not_none_guard(g, n, base.id):
                            out.append((n, "TypeError", "%s on a possibly-None match" % norm(e)[:40], {"kind": "match"}))
                        continue
                    if isinstance(base, ast.Attribute) and base.attr == "args":
                        # e.args[0]: safe iff every raise of the caught classes passes >= 1 argument
                        out.append((n, "IndexError", norm(e), {"kind": "exc-args", "expr": e}))
                        continue
                    idx = e.slice
                    const_idx = isinstance(idx, ast.Constant) and isinstance(idx.value, int) or \
                        (isinstance(idx, ast.UnaryOp) and isinstance(idx.op, ast.USub) and isinstance(idx.operand, ast.Constant))
                    if const_idx and bd is not None:
                        if _truthy_guard(g, n, base):
                            continue
                        out.append((n, "IndexError", "%s on a possibly empty sequence" % norm(e)[:40], {"kind": "index", "expr": e}))
                    elif isinstance(idx, ast.Constant) and isinstance(idx.value, str):
                        out.append((n, "KeyError", norm(e)[:40], {"kind": "key", "expr": e}))
            # tuple unpack of split(sep, 1)
            if n.kind == "stmt" and isinstance(n.ast, ast.Assign) and isinstance(n.ast.targets[0], (ast.Tuple, ast.List)) \
                    and isinstance(n.ast.value, ast.Call) and isinstance(n.ast.value.func, ast.Attribute) \
                    and n.ast.value.func.attr in ("split", "rsplit") and len(n.ast.value.args) == 2:
                c = n.ast.value
                sep, recv = c.args[0], c.func.value

                def has_sep(t, pol, sep=sep, recv=recv):
                    return pol and isinstance(t, ast.Compare) and isinstance(t.ops[0], ast.In) and norm(t.left) == norm(sep) and norm(t.comparators[0]) == norm(recv)
                if not _dominating_guard(g, n, has_sep):
                    out.append((n, "ValueError", "unpacking %s without a dominating `%s in %s`" % (norm(c)[:40], norm(sep), norm(recv)), {"kind": "unpack"}))
    return out


def _not_none_guard(g, node, var):
    for (t, pol, b) in g.guards(node):
        if isinstance(t, ast.Name) and t.id == var and pol:
            return True
        if isinstance(t, ast.Compare) and isinstance(t.left, ast.Name) and t.left.id == var and isinstance(t.comparators[0], ast.Constant) and t.comparators[0].value is None:
            if isinstance(t.ops[0], ast.IsNot) and pol:
                return True
            if isinstance(t.ops[0], ast.Is) and not pol:
                return True
    return False


def _truthy_guard(g, node, base):
    txt = norm(base)
    for (t, pol, b) in g.guards(node):
        if pol and norm(t) == txt:
            return True
        if pol and isinstance(t, ast.Compare) and isinstance(t.ops[0], ast.In) and norm(t.comparators[0]) == txt:
            return True
        if pol and isinstance(t, ast.Call) and dotted(t.func) == "len" and t.args and norm(t.args[0]) == txt:
            return True
        if pol and isinstance(t, ast.Compare) and isinstance(t.left, ast.Call) and dotted(t.left.func) == "len" and t.left.args and norm(t.left.args[0]) == txt \
                and isinstance(t.ops[0], (ast.Gt, ast.GtE, ast.NotEq, ast.Eq)):
            return True
    return False


def _raise_arity(program):
    """{class name: min number of positional args over all raise sites}"""
    out = {}
    for f in program.functions.values():
        for n in ast.walk(f.node):
            if isinstance(n, ast.Raise) and isinstance(n.exc, ast.Call):
                nm = (dotted(n.exc.func) or "").split(".")[-1]
                k = len(n.exc.args)
                out[nm] = min(out.get(nm, 99), k)
            elif isinstance(n, ast.Raise) and n.exc is not None and isinstance(n.exc, (ast.Name, ast.Attribute)):
                nm = (dotted(n.exc) or "").split(".")[-1]
                out[nm] = 0
    return out


def raise_arity(program):
    return _raise_arity(program)


# ----------------------------------------------------------------------
# containment inside a scope: does an exception raised at a site get caught
# before it leaves `root_qual`?

def raised_class(program, f, rnode, current):
    e = rnode.ast.exc
    if e is None:
        return current
    if isinstance(e, ast.Call):
        e = e.func
    r = program.resolve_expr_static(f.module, e) if isinstance(e, (ast.Name, ast.Attribute)) else None
    if r and r[0] == "class":
        return r[1].qual
    d = dotted(e)
    if d:
        return d.split(".")[-1]
    return "BaseException"


def route_in_scope(program, scope, root_qual, f, node, exc, skip_site=None, seen=None, chain=None):
    """[('caught', func, handler node, chain) | ('escape', func, None, chain)]"""
    cg = get_callgraph(program)
    seen = seen if seen is not None else set()
    chain = (chain or []) + ["%s:%s" % (f.qual, getattr(node.ast, "lineno", "?"))]
    g = cfg_of(f)
    for handlers in enclosing_handlers(g, node):
        for h in handlers:
            if handler_catches(program, f, h.ast, exc):
                beh = handler_behaviour(g, h)
                if beh == "swallow":
                    return [("caught", f, h, chain)]
                out = []
                for rn in g.nodes:
                    if rn.kind == "stmt" and isinstance(rn.ast, ast.Raise) and any(x is rn.ast for x in ast.walk(h.ast)):
                        out += route_in_scope(program, scope, root_qual, f, rn, raised_class(program, f, rn, exc), skip_site, seen, chain)
                if beh == "reraise-sometimes":
                    out.append(("caught", f, h, chain))
                return out
    if f.qual == root_qual:
        return [("escape", f, None, chain)]
    key = (f.qual, exc)
    if key in seen:
        return []
    seen.add(key)
    out = []
    for s in cg.callers.get(f.qual, []):
        if s.func.qual not in scope:
            continue
        if skip_site is not None and skip_site(s):
            continue
        cn = _node_of_call(cfg_of(s.func), s.node)
        if cn is None:
            continue
        out += route_in_scope(program, scope, root_qual, s.func, cn, exc, skip_site, seen, chain)
    return out
