"""E6 — exception routing: where does an exception of a given class raised at
a given statement end up, following enclosing handlers lexically and then the
resolved call graph upwards."""
from __future__ import annotations

import ast
import builtins

from .callgraph import get_callgraph
from .cfg import cfg_of, handler_names
from .model import NotConst, Sym, dotted, norm


class ExcClass:
    """An exception class: builtin (by name) or package class."""

    def __init__(self, program, name):
        self.p = program
        self.name = name
        self.builtin = getattr(builtins, name, None) if isinstance(name, str) and "." not in name else None
        self.pkg = program.classes.get(name) if self.builtin is None else None

    def ancestors(self):
        """Names of all classes this one is a subclass of (incl. itself)."""
        out = set()
        if self.builtin is not None and isinstance(self.builtin, type):
            for c in self.builtin.__mro__:
                out.add(c.__name__)
            return out
        if self.pkg is not None:
            for c in self.pkg.mro:
                out.add(c.qual)
                out.add(c.name)
                for b in c.ext_bases:
                    bc = getattr(builtins, b.split(".")[-1], None)
                    if isinstance(bc, type):
                        for k in bc.__mro__:
                            out.add(k.__name__)
            return out
        return {self.name}


def resolve_handler_classes(program, func, h):
    """Set of class names an except clause catches; None = everything."""
    names = handler_names(h)
    if names is None:
        return None
    out = set()
    for n in names:
        expr = ast.parse(n, mode="eval").body
        try:
            v = program.fold(expr, func.module)
        except NotConst:
            v = None
        vals = v if isinstance(v, tuple) else (v,)
        ok = False
        for x in vals:
            if isinstance(x, Sym):
                nm = x.name
                if nm.startswith("builtins."):
                    out.add(nm[9:])
                    ok = True
                elif nm.startswith("class:"):
                    out.add(nm[6:])
                    out.add(nm[6:].split(".")[-1])
                    ok = True
                else:
                    out.add(nm.split(".")[-1])
                    ok = True
        if not ok:
            out.add(n.split(".")[-1])
    return out


def handler_catches(program, func, h, exc):
    hs = resolve_handler_classes(program, func, h)
    if hs is None:
        return True
    return bool(hs & ExcClass(program, exc).ancestors())


def handler_may_catch_subclass(program, func, h, exc):
    """The handler catches some *subclass* of exc but not exc itself (partial)."""
    hs = resolve_handler_classes(program, func, h)
    if hs is None:
        return False
    for n in hs:
        if exc in ExcClass(program, n).ancestors() and n != exc:
            return True
    return False


def handler_behaviour(cfg, hnode):
    """'swallow' | 'reraise-always' | 'reraise-sometimes' for a handler entry
    node: does control leave the handler body by (re-)raising?"""
    # nodes of the handler body reachable from hnode until leaving the try statement
    raises = False
    normal = False
    seen = set()
    st = [hnode]
    body_ids = {id(x) for x in ast.walk(hnode.ast)}
    while st:
        n = st.pop()
        if n.id in seen:
            continue
        seen.add(n.id)
        inside = n is hnode or (n.ast is not None and id(n.ast) in body_ids) or n.kind == "join"
        if n.kind == "stmt" and isinstance(n.ast, ast.Raise) and id(n.ast) in body_ids:
            raises = True
            continue
        if n.kind in ("exit",):
            normal = True
            continue
        if n.ast is not None and n.kind in ("stmt", "test", "iter", "with_enter") and id(n.ast) not in body_ids and n is not hnode:
            normal = True  # left the handler body normally
            continue
        for (s, l) in n.succ:
            if l == "exc":
                continue
            st.append(s)
    if raises and normal:
        return "reraise-sometimes"
    if raises:
        return "reraise-always"
    return "swallow"


class Terminal:
    def __init__(self, kind, func, hnode, chain):
        self.kind = kind  # 'handler' | 'escape'
        self.func = func
        self.hnode = hnode
        self.chain = chain

    def describe(self):
        if self.kind == "escape":
            return "escapes %s (no caller in package)" % self.func.qual
        return "caught by `except %s` in %s at %s" % (
            norm(self.hnode.ast.type) if self.hnode.ast.type is not None else "<bare>", self.func.qual, self.func.loc(self.hnode.ast))


def enclosing_handlers(cfg, node):
    """Handler entry nodes an exception raised at `node` meets, innermost
    first, as a list of lists (one per enclosing try, through finally copies)."""
    out = []
    seen = set()
    cur = [s for (s, l) in node.succ if l == "exc"]
    while cur:
        nxt = []
        for d in cur:
            if d.id in seen:
                continue
            seen.add(d.id)
            if d.kind == "dispatch":
                out.append(list(d.handlers or []))
                nxt.extend(s for (s, l) in d.succ if l == "exc" and s.kind != "handler")
            elif d.kind == "raise_exit":
                pass
            else:
                # finally copy: follow to its exceptional continuation
                st = [d]
                vis = set()
                while st:
                    x = st.pop()
                    if x.id in vis:
                        continue
                    vis.add(x.id)
                    for (s, l) in x.succ:
                        if l == "exc" and (s.kind in ("dispatch", "raise_exit")):
                            nxt.append(s)
                        elif l != "exc":
                            st.append(s)
        cur = nxt
    return out


def route(program, func, node, exc, _seen=None, _chain=None, roots_only=None):
    """Terminals for exception class `exc` raised at cfg `node` of `func`."""
    cg = get_callgraph(program)
    _seen = _seen if _seen is not None else set()
    _chain = (_chain or []) + ["%s at %s" % (func.qual, func.loc(node.ast) if node.ast is not None else func.loc())]
    g = cfg_of(func)
    for handlers in enclosing_handlers(g, node):
        for h in handlers:
            if handler_catches(program, func, h.ast, exc):
                beh = handler_behaviour(g, h)
                t = Terminal("handler", func, h, _chain)
                t.behaviour = beh
                if beh == "swallow":
                    return [t]
                out = [t] if beh == "reraise-sometimes" else []
                if beh == "reraise-always":
                    t.kind = "passthrough"
                # re-raised: continues outward from the handler
                out += route_from_handler(program, func, h, exc, _seen, _chain)
                return out
    # leaves the function
    key = (func.qual, exc)
    if key in _seen:
        return []
    _seen.add(key)
    callers = cg.callers.get(func.qual, [])
    if func.is_generator:
        callers = []  # exceptions surface at the iteration site, not the call site
    out = []
    if not callers:
        return [Terminal("escape", func, None, _chain)]
    for s in callers:
        cgf = cfg_of(s.func)
        cn = _node_of_call(cgf, s.node)
        if cn is None:
            continue
        out += route(program, s.func, cn, exc, _seen, _chain)
    return out


def route_from_handler(program, func, hnode, exc, _seen, _chain):
    """Continue routing for an exception re-raised inside handler hnode."""
    g = cfg_of(func)
    out = []
    for n in g.nodes:
        if n.kind == "stmt" and isinstance(n.ast, ast.Raise) and any(id(n.ast) == id(x) for x in ast.walk(hnode.ast)):
            out += route(program, func, n, exc, _seen, _chain[:-1])
    return out


def _node_of_call(cfg, call):
    for n in cfg.nodes:
        if n.ast is None or n.kind == "branch":
            continue
        root = n.ast
        if n.kind == "iter":
            root = n.ast.target
        if n.kind == "with_enter":
            for it in n.ast.items:
                for x in ast.walk(it.context_expr):
                    if x is call:
                        return n
            continue
        if isinstance(root, (ast.If, ast.While, ast.For, ast.Try, ast.With, ast.FunctionDef, ast.AsyncFunctionDef, ast.ClassDef)):
            continue
        for x in ast.walk(root):
            if x is call:
                return n
    return None
