"""Helper inlining: a behaviour-preserving normal form for shape rules.

Many rules of this checker decide a property from the shape of one function
(which statement dominates which, which value reaches which store).  An
"extract method" refactoring moves part of that shape into a private helper and
leaves a call behind; the behaviour is unchanged, so the verdict must be too.
`inlined(program, func, ...)` returns a synthetic Func whose body has such calls
replaced by the helper's body, so that the rule sees the same shape again.

Only calls whose inlining is exact are expanded:

  * callee resolved statically: `self.h(...)` through the MRO of the caller's
    class, or `h(...)` to a function of the same module (or imported from a
    module of the package);
  * no *args / **kwargs at the call or in the callee, no generator, no
    decorator, not recursive;
  * position  `h(...)` as a statement   -> callee must not return before its end
              `x = h(...)`              -> callee returns only in its last statement
              `return h(...)`           -> any callee (its returns become ours).

Parameters bound to simple arguments (names, attribute chains, constants) and
never rebound in the callee are substituted; others become `p = arg`
assignments.  Callee locals that clash with caller names are renamed.  Every
copied node keeps `_orig` (the node it was copied from) so that call-graph
queries still resolve.
"""
from __future__ import annotations

import ast

from .model import Func, walk_own


def _copy(node):
    """Deep copy of an AST that remembers the originals."""
    if isinstance(node, list):
        return [_copy(x) for x in node]
    if not isinstance(node, ast.AST):
        return node
    new = type(node)()
    for f in node._fields:
        if hasattr(node, f):
            setattr(new, f, _copy(getattr(node, f)))
    for a in ("lineno", "col_offset", "end_lineno", "end_col_offset"):
        if hasattr(node, a):
            setattr(new, a, getattr(node, a))
    new._orig = getattr(node, "_orig", node)
    return new


def orig(node):
    return getattr(node, "_orig", node)


def _bound_names(fnode):
    out = set()
    for n in walk_own(fnode):
        if isinstance(n, ast.Name) and isinstance(n.ctx, (ast.Store, ast.Del)):
            out.add(n.id)
        elif isinstance(n, ast.ExceptHandler) and n.name:
            out.add(n.name)
        elif isinstance(n, (ast.Import, ast.ImportFrom)):
            for a in n.names:
                out.add((a.asname or a.name).split(".")[0])
    return out


def _all_names(fnode):
    return {n.id for n in ast.walk(fnode) if isinstance(n, ast.Name)} | {a.arg for a in ast.walk(fnode) if isinstance(a, ast.arg)}


def _returns(body):
    """Return statements of a body (not entering nested defs)."""
    out = []

    def rec(stmts):
        for s in stmts:
            if isinstance(s, ast.Return):
                out.append(s)
            elif isinstance(s, (ast.FunctionDef, ast.AsyncFunctionDef, ast.ClassDef)):
                continue
            else:
                for fld in ("body", "orelse", "finalbody"):
                    sub = getattr(s, fld, None)
                    if isinstance(sub, list) and sub and isinstance(sub[0], ast.stmt):
                        rec(sub)
                if isinstance(s, ast.Try):
                    for h in s.handlers:
                        rec(h.body)
    rec(body)
    return out


def _returns_structured(body):
    """Every return sits in (nested) if/else branches only - not in a loop, try or with."""
    def rec(stmts):
        for s in stmts:
            if isinstance(s, (ast.FunctionDef, ast.AsyncFunctionDef, ast.ClassDef)):
                continue
            if isinstance(s, ast.If):
                if not rec(s.body) or not rec(s.orelse):
                    return False
            elif not isinstance(s, ast.Return):
                if _returns([s]):
                    return False
        return True
    return rec(body)


class _Unstructured(Exception):
    pass


def _own_breaks(loop):
    """`break` / `continue` statements that belong to this loop (not to a loop nested in it)."""
    out = []

    def rec(stmts):
        for x in stmts:
            if isinstance(x, (ast.Break, ast.Continue)):
                out.append(x)
            elif isinstance(x, (ast.For, ast.While, ast.AsyncFor, ast.FunctionDef, ast.AsyncFunctionDef, ast.ClassDef)):
                if isinstance(x, (ast.For, ast.While, ast.AsyncFor)):
                    rec(x.orelse)
                continue
            else:
                for fld in ("body", "orelse", "finalbody"):
                    sub = getattr(x, fld, None)
                    if isinstance(sub, list) and sub and isinstance(sub[0], ast.stmt):
                        rec(sub)
                if isinstance(x, ast.Try):
                    for h in x.handlers:
                        rec(h.body)
    rec(loop.body)
    return out


def _returns_to_breaks(stmts, conv):
    """Inside a loop body: `return e` -> conv(return) + break.  Nested loops holding a return are not handled."""
    out = []
    for s in stmts:
        if isinstance(s, ast.Return):
            out.extend(conv(s))
            out.append(ast.copy_location(ast.Break(), s))
            return out
        if isinstance(s, (ast.FunctionDef, ast.AsyncFunctionDef, ast.ClassDef)) or not _returns([s]):
            out.append(s)
            continue
        if isinstance(s, (ast.For, ast.While, ast.AsyncFor)):
            raise _Unstructured("return inside a nested loop")
        if isinstance(s, ast.Try) and _returns(s.finalbody):
            raise _Unstructured("return inside finally")
        for fld in ("body", "orelse", "finalbody"):
            sub = getattr(s, fld, None)
            if isinstance(sub, list) and sub and isinstance(sub[0], ast.stmt):
                setattr(s, fld, _returns_to_breaks(sub, conv))
        if isinstance(s, ast.Try):
            for h in s.handlers:
                h.body = _returns_to_breaks(h.body, conv)
        out.append(s)
    return out


def _eliminate_returns(stmts, conv, cont):
    """stmts followed by cont, with `return` replaced by conv(return) and the rest skipped.  Exact rewritings only:
    if/else (the continuation moves into the arms that fall through), try (the continuation moves into the else clause
    and the handlers that fall through - it was outside the try, where no handler of it applies, and so it is there),
    with in tail position, loops without break (return -> break, the continuation becomes the loop's else clause).
    Raises _Unstructured for anything else."""
    if not stmts:
        return [_copy(x) for x in cont]
    s, rest = stmts[0], stmts[1:]
    if isinstance(s, ast.Return):
        return conv(s)
    if isinstance(s, (ast.FunctionDef, ast.AsyncFunctionDef, ast.ClassDef)) or not _returns([s]):
        return [s] + _eliminate_returns(rest, conv, cont)
    if isinstance(s, ast.If):
        k = _eliminate_returns(rest, conv, cont)
        s.body = _eliminate_returns(s.body, conv, k) or [ast.copy_location(ast.Pass(), s)]
        s.orelse = _eliminate_returns(s.orelse, conv, k)
        return [s]
    if isinstance(s, ast.Try):
        if _returns(s.finalbody):
            raise _Unstructured("return inside finally")
        k = _eliminate_returns(rest, conv, cont)
        if k and s.finalbody:
            raise _Unstructured("statements after a try/finally that returns")
        if _returns(s.body) and (s.orelse or k):
            # a return in the body skips the else clause and the continuation.  When the body never falls off its end
            # (it always returns or raises) the continuation is only reachable through the handlers: it goes there.
            if s.orelse or not _always_leaves(s.body):
                raise _Unstructured("return inside a try body that is followed by something")
            s.body = _eliminate_returns(s.body, conv, [])
            for h in s.handlers:
                h.body = _eliminate_returns(h.body, conv, k) or [ast.copy_location(ast.Pass(), h)]
            return [s]
        if _returns(s.body):
            s.body = _eliminate_returns(s.body, conv, [])
        for h in s.handlers:
            h.body = _eliminate_returns(h.body, conv, k) or [ast.copy_location(ast.Pass(), h)]
        if s.orelse or k:
            s.orelse = _eliminate_returns(s.orelse, conv, k)
        return [s]
    if isinstance(s, (ast.With, ast.AsyncWith)):
        k = _eliminate_returns(rest, conv, cont)
        if k:
            raise _Unstructured("return inside a with block that is followed by something")
        s.body = _eliminate_returns(s.body, conv, []) or [ast.copy_location(ast.Pass(), s)]
        return [s]
    if isinstance(s, (ast.For, ast.While)):
        if _returns(s.orelse) and not _returns(s.body):
            k = _eliminate_returns(rest, conv, cont)
            if any(isinstance(b, ast.Break) for b in _own_breaks(s)) and k:
                raise _Unstructured("loop with break and a returning else clause")
            s.orelse = _eliminate_returns(s.orelse, conv, k)
            return [s]
        if any(isinstance(b, ast.Break) for b in _own_breaks(s)):
            raise _Unstructured("return inside a loop that also has break")
        s.body = _returns_to_breaks(s.body, conv)
        tail = _eliminate_returns(list(s.orelse) + rest, conv, cont)
        s.orelse = tail
        return [s]
    raise _Unstructured(type(s).__name__)


def _always_leaves(stmts):
    """the statement list never falls off its end: it ends in return / raise, or in an if whose arms all do"""
    if not stmts:
        return False
    last = stmts[-1]
    if isinstance(last, (ast.Return, ast.Raise)):
        return True
    if isinstance(last, ast.If):
        return _always_leaves(last.body) and _always_leaves(last.orelse)
    return False


def _ladder_expression(body, budget=None):
    """A body that is a ladder of `if c: return a` ... `return z` (if / else / return / pass only) as the conditional
    expression evaluating the same sub-expressions in the same order; None if the body is anything else."""
    budget = budget if budget is not None else [24]
    if body and isinstance(body[0], ast.Expr) and isinstance(body[0].value, ast.Constant) and isinstance(body[0].value.value, str):
        body = body[1:]

    def conv(stmts):
        budget[0] -= 1
        if budget[0] < 0:
            return None
        stmts = [x for x in stmts if not isinstance(x, ast.Pass)]
        if not stmts:
            return ast.Constant(value=None)
        s0 = stmts[0]
        if isinstance(s0, ast.Return):
            return _copy(s0.value) if s0.value is not None else ast.Constant(value=None)
        if isinstance(s0, ast.If):
            a = conv(list(s0.body) + stmts[1:])
            b = conv(list(s0.orelse) + stmts[1:])
            if a is None or b is None:
                return None
            return ast.IfExp(test=_copy(s0.test), body=a, orelse=b)
        return None
    if not body:
        return None
    return conv(list(body))


_SIMPLE = (ast.Name, ast.Constant)


def _simple(e):
    if isinstance(e, _SIMPLE):
        return True
    if isinstance(e, ast.Attribute):
        return _simple(e.value)
    return False


class _Subst(ast.NodeTransformer):
    def __init__(self, mapping, rename):
        self.mapping = mapping  # param name -> expr (substituted on Load)
        self.rename = rename  # local name -> new name

    def visit_Name(self, node):
        if node.id in self.mapping and isinstance(node.ctx, ast.Load):
            new = _copy(self.mapping[node.id])
            for y in ast.walk(new):
                ast.copy_location(y, node)
            return new
        if node.id in self.rename:
            node.id = self.rename[node.id]
        return node

    def visit_ExceptHandler(self, node):
        if node.name and node.name in self.rename:
            node.name = self.rename[node.name]
        self.generic_visit(node)
        return node

    def visit_FunctionDef(self, node):
        return node

    visit_AsyncFunctionDef = visit_FunctionDef
    visit_Lambda = visit_FunctionDef


class Inliner:
    def __init__(self, program, func, pred, depth):
        self.p = program
        self.f = func
        self.pred = pred
        self.depth = depth
        self.count = 0
        self.expanded = []  # qualified names of helpers that were inlined

    # -- resolution -----------------------------------------------------------
    def resolve(self, call, caller):
        fn = call.func
        # the method whose `self` is visible here: the caller itself, or - for a closure that does not
        # rebind the name - the enclosing method
        owner = caller
        while owner.parent is not None:
            owner = owner.parent
        sname = owner.params[0] if (owner.cls is not None and owner.params and not owner.is_staticmethod and not owner.is_classmethod) else None
        if sname and owner is not caller:
            g = caller
            while g is not owner:
                if sname in _bound_names(g.node) or sname in g.params + g.kwonly or sname in (g.vararg, g.kwarg):
                    sname = None
                    break
                g = g.parent
        if isinstance(fn, ast.Attribute) and isinstance(fn.value, ast.Name) and sname and fn.value.id == sname and owner.cls is not None:
            for c in owner.cls.mro:
                m = c.methods.get(fn.attr)
                if m is not None:
                    # a subclass override would make the target ambiguous
                    for sub in owner.cls.all_subclasses():
                        if fn.attr in sub.methods and sub.methods[fn.attr] is not m:
                            return None, None
                    if m.is_property or m.is_classmethod:
                        return None, None
                    if m.is_staticmethod:
                        return m, None
                    return m, ast.Name(id=sname, ctx=ast.Load())
                if fn.attr in c.attrs:
                    return None, None
            return None, None
        if isinstance(fn, ast.Name):
            mod = caller.module
            # a closure defined (once, as a statement of its own) in the function being expanded, called from that function:
            # its free variables are the caller's variables at the call, which is what the expanded body reads
            q = "%s.%s" % (self.f.qual, fn.id)
            cl = self.p.functions.get(q)
            if cl is not None and caller is self.f:
                defs = [x for x in walk_own(self.f.node) if isinstance(x, (ast.FunctionDef, ast.AsyncFunctionDef)) and x.name == fn.id]
                stores = [x for x in walk_own(self.f.node) if isinstance(x, ast.Name) and x.id == fn.id and isinstance(x.ctx, (ast.Store, ast.Del))]
                if len(defs) == 1 and not stores and fn.id not in self.f.params and any(x is defs[0] for x in self.f.node.body):
                    return cl, None
            if fn.id in _bound_names(caller.node) or fn.id in caller.params:
                return None, None
            g = mod.functions.get(fn.id)
            if g is not None:
                return g, None
            imp = mod.imports.get(fn.id)
            if imp and imp[0] == "sym":
                m2 = self.p.modules.get(imp[1])
                if m2 is not None and imp[2] in m2.functions:
                    return m2.functions[imp[2]], None
        return None, None

    def eligible(self, callee, call, stack):
        n = callee.node
        if callee.qual in stack or callee.is_generator or [d for d in callee.decorators if d != "staticmethod"]:
            return False
        if isinstance(n, ast.AsyncFunctionDef):
            return False
        if n.args.vararg or n.args.kwarg or n.args.posonlyargs:
            return False
        if any(isinstance(a, ast.Starred) for a in call.args) or any(k.arg is None for k in call.keywords):
            return False
        for x in walk_own(n):
            if isinstance(x, (ast.Global, ast.Nonlocal)):
                return False
        if callee.nested:
            return False  # functions nested in it would capture its locals, which are renamed on expansion
        if callee.parent is not None and callee.parent is not self.f:
            return False
        return self.pred(callee)

    # -- expansion ------------------------------------------------------------
    def bind(self, callee, call, recv, caller_names):
        """([prelude stmts], mapping, rename) or None"""
        a = callee.node.args
        params = [x.arg for x in a.args]
        args = list(call.args)
        if recv is not None:
            args = [recv] + args
        if len(args) > len(params):
            return None
        actual = {}
        for pn, e in zip(params, args):
            actual[pn] = e
        for k in call.keywords:
            if k.arg in actual or (k.arg not in params and k.arg not in [x.arg for x in a.kwonlyargs]):
                return None
            actual[k.arg] = k.value
        for pn in params + [x.arg for x in a.kwonlyargs]:
            if pn not in actual:
                d = callee.defaults.get(pn)
                if d is None:
                    return None
                actual[pn] = d
        rebound = _bound_names(callee.node)
        mapping, prelude = {}, []
        locals_ = set(rebound)
        rename = {}
        for pn, e in actual.items():
            # names and constants are substituted; an attribute chain is evaluated once, up front, as the call did
            # (the callee may store to that attribute before it reads the parameter)
            if isinstance(e, (ast.Name, ast.Constant)) and pn not in rebound:
                mapping[pn] = e
            else:
                locals_.add(pn)
        for ln in sorted(locals_):
            # (a parameter bound by a prelude assignment always gets a name of its own: a helper expanded several times
            # then leaves one single-use temporary per expansion, which the later passes fold into its use)
            if ln in caller_names or (ln in actual and ln not in mapping and ln not in rebound):
                self.count += 1
                rename[ln] = "%s__%s%d" % (ln, callee.name.strip("_"), self.count)
        for pn, e in actual.items():
            if pn not in mapping:
                tgt = ast.Name(id=rename.get(pn, pn), ctx=ast.Store())
                st = ast.Assign(targets=[tgt], value=_copy(e), type_comment=None)
                ast.copy_location(st, call)
                ast.copy_location(tgt, call)
                prelude.append(st)
        return prelude, mapping, rename

    def body_of(self, callee, call, recv, caller_names, stack):
        b = self.bind(callee, call, recv, caller_names)
        if b is None:
            return None
        prelude, mapping, rename = b
        body = [s for s in _copy(callee.node.body)]
        if body and isinstance(body[0], ast.Expr) and isinstance(body[0].value, ast.Constant) and isinstance(body[0].value.value, str):
            body = body[1:] or [ast.copy_location(ast.Pass(), call)]
        sub = _Subst(mapping, rename)
        body = [sub.visit(s) for s in body]
        for s in body:
            ast.fix_missing_locations(s)
        # nested helpers of the helper
        if len(stack) < self.depth:
            body = self.block(body, callee, caller_names | _all_names(callee.node), stack + [callee.qual])
        return prelude + body

    def expand_generator_loop(self, st, caller, names, stack):
        """`for x in gen(args): BODY` with gen an inlinable generator helper whose yields are plain `yield E` statements:
        the generator's body with every `yield E` replaced by `x = E; BODY`.  Exact when BODY has no break / continue of
        this loop (they would have to steer the generator) and the loop has no else clause: the consumer runs exactly
        between the generator's steps, which is where its statements now stand."""
        if not (isinstance(st, ast.For) and not st.orelse and isinstance(st.iter, ast.Call) and isinstance(st.target, (ast.Name, ast.Tuple))):
            return None
        call = st.iter
        callee, recv = self.resolve(call, caller)
        if callee is None or not callee.is_generator:
            return None
        n = callee.node
        if callee.qual in stack + [self.f.qual] or [d for d in callee.decorators if d != "staticmethod"] or n.args.vararg or n.args.kwarg or n.args.posonlyargs or callee.nested \
                or (callee.parent is not None and callee.parent is not self.f) or not self.pred(callee):
            return None
        if any(isinstance(a, ast.Starred) for a in call.args) or any(k.arg is None for k in call.keywords):
            return None
        yields = [x for x in walk_own(n) if isinstance(x, (ast.Yield, ast.YieldFrom))]
        ystmts = [x for x in walk_own(n) if isinstance(x, ast.Expr) and isinstance(x.value, ast.Yield) and x.value.value is not None]
        if not yields or len(yields) != len(ystmts) or len(yields) > 3 or any(isinstance(x, ast.YieldFrom) for x in yields):
            return None
        if any(isinstance(x, ast.Return) and x.value is not None for x in walk_own(n)) or any(isinstance(x, (ast.Global, ast.Nonlocal)) for x in walk_own(n)):
            return None
        if any(isinstance(x, ast.Try) and any(isinstance(y, ast.Yield) for y in ast.walk(x)) for x in walk_own(n)):
            return None  # a yield inside try: closing the generator early would run handlers / finally
        if _own_breaks(st):
            return None
        body = self.body_of(callee, call, recv, names, stack)
        if body is None:
            return None
        target, consumer = st.target, st.body

        class Y(ast.NodeTransformer):
            def visit_FunctionDef(self, node):
                return node
            visit_AsyncFunctionDef = visit_FunctionDef
            visit_Lambda = visit_FunctionDef

            def visit_Expr(self, node):
                if isinstance(node.value, ast.Yield):
                    a = ast.copy_location(ast.Assign(targets=[_copy(target)], value=node.value.value, type_comment=None), node)
                    return [a] + [_copy(x) for x in consumer]
                return node
        wrapper = ast.Module(body=body, type_ignores=[])
        Y().visit(wrapper)
        out = wrapper.body
        # `return` in a generator ends the iteration: only in tail position can it simply fall off
        try:
            out = _eliminate_returns(out, lambda r: [], [])
        except _Unstructured:
            return None
        for x in out:
            ast.fix_missing_locations(x)
        self.expanded.append(callee.qual)
        return out or [ast.copy_location(ast.Pass(), st)]

    def expand_stmt(self, st, caller, names, stack):
        """Replacement statement list for st, or None."""
        g_rep = self.expand_generator_loop(st, caller, names, stack)
        if g_rep is not None:
            return g_rep
        call = None
        mode = None
        if isinstance(st, ast.Expr) and isinstance(st.value, ast.Call):
            call, mode = st.value, "stmt"
        elif isinstance(st, ast.Assign) and isinstance(st.value, ast.Call) and len(st.targets) == 1:
            call, mode = st.value, "assign"
        elif isinstance(st, ast.Return) and isinstance(st.value, ast.Call):
            call, mode = st.value, "return"
        if call is None:
            return None
        callee, recv = self.resolve(call, caller)
        if callee is None or not self.eligible(callee, call, stack + [self.f.qual]):
            return None
        rets = _returns(callee.node.body)
        last = callee.node.body[-1]
        structured = False
        if mode == "stmt":
            if any(r is not last for r in rets):
                structured = True
        elif mode == "assign":
            if not (isinstance(last, ast.Return) and last.value is not None and all(r is last for r in rets)):
                structured = True
            tg0 = st.targets[0]
            if not (isinstance(tg0, ast.Name) or (isinstance(tg0, ast.Tuple) and all(isinstance(e, ast.Name) for e in tg0.elts))):
                if structured:
                    return None
        body = self.body_of(callee, call, recv, names, stack)
        if body is None:
            return None
        if structured:
            # early returns under if/else only: `return e` becomes `target = e` (or nothing) and the statements that
            # would have followed move into the branches that fall through
            if mode == "assign":
                target = st.targets[0]

                def conv(r):
                    v = r.value if r.value is not None else ast.copy_location(ast.Constant(value=None), r)
                    tg = _copy(target)
                    return [ast.copy_location(ast.Assign(targets=[tg], value=v, type_comment=None), r)]
                none = ast.copy_location(ast.Constant(value=None), st)
                cont = [ast.copy_location(ast.Assign(targets=[_copy(target)], value=none, type_comment=None), st)]
            else:
                def conv(r):
                    if r.value is not None and not _simple(r.value):
                        return [ast.copy_location(ast.Expr(value=r.value), r)]
                    return []
                cont = []
            try:
                body = _eliminate_returns(body, conv, cont) or [ast.copy_location(ast.Pass(), st)]
            except _Unstructured:
                return None
            self.expanded.append(callee.qual)
            return body
        if mode == "stmt":
            if body and isinstance(body[-1], ast.Return):
                tail = body[-1]
                body = body[:-1]
                if tail.value is not None and not _simple(tail.value):
                    e = ast.Expr(value=tail.value)
                    ast.copy_location(e, tail)
                    body.append(e)
            if not body:
                body = [ast.copy_location(ast.Pass(), st)]
        elif mode == "assign":
            tail = body[-1]
            a = ast.Assign(targets=st.targets, value=tail.value, type_comment=None)
            ast.copy_location(a, st)
            body = body[:-1] + [a]
        else:
            if not isinstance(body[-1], (ast.Return, ast.Raise)):
                # falling off the end returns None
                r = ast.Return(value=None)
                ast.copy_location(r, st)
                body.append(r)
        self.expanded.append(callee.qual)
        return body

    def hoist(self, st, caller, names, stack):
        """`g(h())` with h an inlinable helper -> `t = h(); g(t)`: exact when nothing with a side effect is evaluated
        before h() in the statement (the callee expression and the earlier arguments are names / attribute chains /
        constants).  Returns the list of new assignments (st is edited in place)."""
        outer = None
        if isinstance(st, (ast.Expr, ast.Assign, ast.Return)) and isinstance(getattr(st, "value", None), ast.Call):
            outer = st.value
        if outer is None or not _simple(outer.func):
            return []
        pre = []
        for i, a in enumerate(list(outer.args)):
            if isinstance(a, ast.Call) and not isinstance(a, ast.Starred):
                callee, recv = self.resolve(a, caller)
                if callee is not None and self.eligible(callee, a, stack + [self.f.qual]) and all(_simple(x) for x in outer.args[:i]):
                    self.count += 1
                    nm = "%s__arg%d" % (callee.name.strip("_"), self.count)
                    while nm in names:
                        self.count += 1
                        nm = "%s__arg%d" % (callee.name.strip("_"), self.count)
                    tgt = ast.copy_location(ast.Name(id=nm, ctx=ast.Store()), a)
                    pre.append(ast.copy_location(ast.Assign(targets=[tgt], value=a, type_comment=None), st))
                    outer.args[i] = ast.copy_location(ast.Name(id=nm, ctx=ast.Load()), a)
                    names.add(nm) if isinstance(names, set) else None
                else:
                    break
            elif not _simple(a):
                break
        return pre

    # -- helpers used inside expressions --------------------------------------------
    def ladder_call(self, call, caller, stack):
        """The conditional expression equal to `call` when the callee is an eligible helper whose body is a ladder of
        if/return (evaluates the same sub-expressions in the same order as the call did), else None."""
        callee, recv = self.resolve(call, caller)
        if callee is None or not self.eligible(callee, call, stack + [self.f.qual]):
            return None
        e = _ladder_expression(callee.node.body)
        if e is None:
            return None
        a = callee.node.args
        params = [x.arg for x in a.args]
        args = ([recv] if recv is not None else []) + list(call.args)
        if len(args) > len(params):
            return None
        actual = dict(zip(params, args))
        for k in call.keywords:
            if k.arg in actual or k.arg not in params + [x.arg for x in a.kwonlyargs]:
                return None
            actual[k.arg] = k.value
        for pn in params + [x.arg for x in a.kwonlyargs]:
            if pn not in actual:
                d = callee.defaults.get(pn)
                if d is None or not isinstance(d, ast.Constant):
                    return None
                actual[pn] = d
        has_call = any(isinstance(x, (ast.Call, ast.Await, ast.Yield, ast.YieldFrom, ast.NamedExpr)) for x in ast.walk(e))
        uses = {}
        for x in ast.walk(e):
            if isinstance(x, ast.Name) and x.id in actual:
                uses[x.id] = uses.get(x.id, 0) + 1
                if not isinstance(x.ctx, ast.Load):
                    return None
        for pn, v in actual.items():
            if isinstance(v, (ast.Name, ast.Constant)):
                continue
            # an attribute chain is read where the parameter is read: the same value unless a call in the ladder runs in
            # between; any other argument expression must have been evaluated exactly once, first
            if _simple(v) and not has_call:
                continue
            return None
        # names of the helper's module must mean the same here
        if callee.module is not caller.module:
            free = {x.id for x in ast.walk(e) if isinstance(x, ast.Name)} - set(actual)
            import builtins as _b
            for nm in free:
                if hasattr(_b, nm) and nm not in callee.module.globals and nm not in callee.module.functions and nm not in callee.module.imports:
                    continue
                return None
        sub = _Subst({k: v for k, v in actual.items()}, {})
        e = sub.visit(e)
        ast.copy_location(e, call)
        for x in ast.walk(e):
            if not hasattr(x, "lineno"):
                ast.copy_location(x, call)
        ast.fix_missing_locations(e)
        self.expanded.append(callee.qual)
        return e

    def rewrite_expr(self, e, caller, stack, top=True):
        """e with ladder-helper calls replaced (not the call that *is* the statement's value: expand_stmt takes that)."""
        if isinstance(e, (ast.Lambda, ast.ListComp, ast.SetComp, ast.DictComp, ast.GeneratorExp)):
            return e
        if isinstance(e, ast.Call) and not top:
            r = self.ladder_call(e, caller, stack)
            if r is not None:
                return self.rewrite_expr(r, caller, stack, False)
        if top and isinstance(e, ast.Call):
            # the arguments of the call that *is* the statement are hoisted into temporaries (hoist) and expanded as
            # statements: an if/else there reads better than a conditional expression here
            return e
        for fld, v in ast.iter_fields(e):
            if isinstance(v, ast.expr):
                setattr(e, fld, self.rewrite_expr(v, caller, stack, False))
            elif isinstance(v, list):
                for i, x in enumerate(v):
                    if isinstance(x, ast.expr):
                        v[i] = self.rewrite_expr(x, caller, stack, False)
                    elif isinstance(x, ast.keyword):
                        x.value = self.rewrite_expr(x.value, caller, stack, False)
        return e

    def property_value(self, node, caller, stack):
        """`self.p` with p a read-only property the rules do not know whose body is a ladder of if/return over `self`:
        the expression it returns (the getter is evaluated at the same point, with the same sub-expressions)."""
        if not (isinstance(node, ast.Attribute) and isinstance(node.ctx, ast.Load) and isinstance(node.value, ast.Name)):
            return None
        owner = caller
        while owner.parent is not None:
            owner = owner.parent
        if owner.cls is None or not owner.params or node.value.id != owner.params[0] or owner.is_staticmethod or owner.is_classmethod:
            return None
        g = caller
        while g is not owner:
            if node.value.id in _bound_names(g.node) or node.value.id in g.params:
                return None
            g = g.parent
        m = None
        for c in owner.cls.mro:
            if node.attr in c.methods:
                m = c.methods[node.attr]
                break
            if node.attr in c.attrs:
                return None
        if m is None or not m.is_property or len(m.params) != 1 or not self.pred(m) or m.qual in stack + [self.f.qual]:
            return None
        for sub in owner.cls.all_subclasses():
            if node.attr in sub.methods and sub.methods[node.attr] is not m:
                return None
        # a setter / deleter would make stores meaningful: only plain read-only properties
        if any(d not in ("property",) for d in m.decorators):
            return None
        e = _ladder_expression(m.node.body)
        if e is None:
            return None
        e = _Subst({m.params[0]: ast.Name(id=node.value.id, ctx=ast.Load())}, {}).visit(e)
        for x in ast.walk(e):
            ast.copy_location(x, node)
        ast.fix_missing_locations(e)
        self.expanded.append(m.qual)
        return e

    def inline_properties(self, st, caller, stack):
        me = self

        class P(ast.NodeTransformer):
            def visit_FunctionDef(self, n):
                return n
            visit_AsyncFunctionDef = visit_FunctionDef
            visit_ClassDef = visit_FunctionDef
            visit_Lambda = visit_FunctionDef

            def visit_Attribute(self, n):
                self.generic_visit(n)
                r = me.property_value(n, caller, stack)
                return r if r is not None else n
        for fld, v in ast.iter_fields(st):
            if fld in ("body", "orelse", "finalbody", "handlers"):
                continue
            if isinstance(v, ast.expr):
                setattr(st, fld, P().visit(v))
            elif isinstance(v, list):
                for i, x in enumerate(v):
                    if isinstance(x, ast.expr):
                        v[i] = P().visit(x)
                    elif isinstance(x, ast.withitem):
                        x.context_expr = P().visit(x.context_expr)

    def rewrite_stmt_exprs(self, st, caller, stack):
        self.inline_properties(st, caller, stack)
        if isinstance(st, (ast.If, ast.While, ast.Assert)):
            st.test = self.rewrite_expr(st.test, caller, stack, False)
        elif isinstance(st, (ast.Assign, ast.AugAssign, ast.AnnAssign, ast.Return, ast.Expr)) and getattr(st, "value", None) is not None:
            st.value = self.rewrite_expr(st.value, caller, stack, True)
        elif isinstance(st, ast.For):
            st.iter = self.rewrite_expr(st.iter, caller, stack, False)
        elif isinstance(st, ast.Raise) and st.exc is not None:
            st.exc = self.rewrite_expr(st.exc, caller, stack, False)  # raise _make_error(...): the helper that builds it

    def hoist_test(self, st, caller, names, stack):
        """`if h(...):` with h an inlinable helper that is not a ladder -> `t = h(...); if t:` - exact when the call is
        the first thing the test evaluates, unconditionally."""
        if not isinstance(st, ast.If):
            return []

        def first(e):
            # (parent setter, call) of the expression evaluated first
            if isinstance(e, ast.Call):
                return e
            if isinstance(e, ast.UnaryOp) and isinstance(e.op, ast.Not):
                return first(e.operand)
            if isinstance(e, ast.BoolOp):
                return first(e.values[0])
            if isinstance(e, ast.Compare):
                return first(e.left)
            return None
        c = first(st.test)
        if c is None or not all(_simple(a) for a in c.args) or not all(_simple(k.value) for k in c.keywords) or not _simple(c.func):
            return []
        callee, recv = self.resolve(c, caller)
        if callee is None or not self.eligible(callee, c, stack + [self.f.qual]):
            return []
        self.count += 1
        nm = "%s__test%d" % (callee.name.strip("_"), self.count)
        while nm in names:
            self.count += 1
            nm = "%s__test%d" % (callee.name.strip("_"), self.count)
        if isinstance(names, set):
            names.add(nm)
        tgt = ast.copy_location(ast.Name(id=nm, ctx=ast.Store()), c)
        pre = ast.copy_location(ast.Assign(targets=[tgt], value=c, type_comment=None), st)
        ref = ast.copy_location(ast.Name(id=nm, ctx=ast.Load()), c)

        class R(ast.NodeTransformer):
            def visit_Call(self, node):
                return ref if node is c else self.generic_visit(node)
        st.test = R().visit(st.test)
        return [pre]

    def split_and_test(self, st, caller, stack):
        """`if A and h(...) [and R]: B else: E` with h an inlinable helper -> `if A: (if h(...) [and R]: B else: E) else: E`
        so that the call becomes the first thing its own test evaluates (then hoist_test applies).  Exact: E is copied."""
        if not (isinstance(st, ast.If) and isinstance(st.test, ast.BoolOp) and isinstance(st.test.op, ast.And)):
            return st
        vals = st.test.values

        def lead(e):
            if isinstance(e, ast.Call):
                return e
            if isinstance(e, ast.UnaryOp) and isinstance(e.op, ast.Not):
                return lead(e.operand)
            if isinstance(e, ast.Compare):
                return lead(e.left)
            return None
        for i in range(1, len(vals)):
            c = lead(vals[i])
            if c is None:
                continue
            callee, recv = self.resolve(c, caller)
            if callee is None or not self.eligible(callee, c, stack + [self.f.qual]) or _ladder_expression(callee.node.body) is not None:
                continue
            if sum(1 for _ in ast.walk(ast.Module(body=st.orelse, type_ignores=[]))) > 60:
                return st
            head = vals[:i]
            tail = vals[i:]
            inner = ast.copy_location(ast.If(test=tail[0] if len(tail) == 1 else ast.copy_location(ast.BoolOp(op=ast.And(), values=tail), tail[0]),
                                             body=st.body, orelse=[_copy(x) for x in st.orelse]), st)
            st.test = head[0] if len(head) == 1 else ast.copy_location(ast.BoolOp(op=ast.And(), values=head), head[0])
            st.body = [inner]
            return st
        return st

    def comprehension_to_loop(self, st, caller, names, stack):
        """`T = [E for v in XS if C]` whose E calls an inlinable helper -> `T = []; for v': ...: if C: T.append(E)` (v renamed
        to a fresh name: a comprehension does not leak its variable).  Exact; lets the helper be expanded."""
        if not (isinstance(st, ast.Assign) and len(st.targets) == 1 and isinstance(st.targets[0], ast.Name) and isinstance(st.value, ast.ListComp) and len(st.value.generators) == 1):
            return None
        comp = st.value
        gen = comp.generators[0]
        if gen.is_async or not isinstance(gen.target, ast.Name):
            return None
        hit = False
        for c in ast.walk(comp.elt):
            if isinstance(c, ast.Call):
                callee, recv = self.resolve(c, caller)
                if callee is not None and self.eligible(callee, c, stack + [self.f.qual]):
                    hit = True
        tname = st.targets[0].id
        if not hit or any(isinstance(x, ast.Name) and x.id == tname for x in ast.walk(comp)):
            return None
        v = gen.target.id
        self.count += 1
        nv = v if v not in names else "%s__c%d" % (v, self.count)
        if isinstance(names, set):
            names.add(nv)
        sub = _Subst({}, {v: nv})
        elt = sub.visit(_copy(comp.elt))
        ifs = [sub.visit(_copy(x)) for x in gen.ifs]
        init = ast.copy_location(ast.Assign(targets=[ast.copy_location(ast.Name(id=tname, ctx=ast.Store()), st)], value=ast.copy_location(ast.List(elts=[], ctx=ast.Load()), st), type_comment=None), st)
        app = ast.copy_location(ast.Expr(value=ast.copy_location(ast.Call(func=ast.copy_location(ast.Attribute(value=ast.copy_location(ast.Name(id=tname, ctx=ast.Load()), st), attr="append", ctx=ast.Load()), st),
                                                                       args=[elt], keywords=[]), st)), st)
        inner = [app]
        for c in reversed(ifs):
            inner = [ast.copy_location(ast.If(test=c, body=inner, orelse=[]), st)]
        loop = ast.copy_location(ast.For(target=ast.copy_location(ast.Name(id=nv, ctx=ast.Store()), st), iter=gen.iter, body=inner, orelse=[], type_comment=None), st)
        ast.fix_missing_locations(init)
        ast.fix_missing_locations(loop)
        return [init, loop]

    def block(self, body, caller, names, stack):
        out = []
        body0 = list(body)
        body = []
        for st in body0:
            rep = self.comprehension_to_loop(st, caller, names, stack)
            body.extend(rep if rep is not None else [st])
        for st in body:
            self.rewrite_stmt_exprs(st, caller, stack)
            self.split_and_test(st, caller, stack)
        k = 0
        while k < len(body):
            pre = self.hoist(body[k], caller, names, stack) + self.hoist_test(body[k], caller, names, stack)
            if pre:
                body[k:k] = pre
            k += len(pre) + 1
        for st in body:
            rep = self.expand_stmt(st, caller, names, stack)
            if rep is not None:
                out.extend(rep)
                continue
            for fld in ("body", "orelse", "finalbody"):
                sub = getattr(st, fld, None)
                if isinstance(sub, list) and sub and isinstance(sub[0], ast.stmt) and not isinstance(st, (ast.FunctionDef, ast.AsyncFunctionDef, ast.ClassDef)):
                    setattr(st, fld, self.block(sub, caller, names, stack))
            if isinstance(st, ast.Try):
                for h in st.handlers:
                    h.body = self.block(h.body, caller, names, stack)
            out.append(st)
        return out

    def run(self):
        node = _copy(self.f.node)
        names = _all_names(self.f.node)
        node.body = self.block(node.body, self.f, names, [])
        ast.fix_missing_locations(node)
        if not self.expanded:
            return self.f
        nf = Func(self.f.qual, node, self.f.module, self.f.cls, self.f.parent)
        nf.inlined_from = list(self.expanded)
        return nf


def orig_call(c):
    return getattr(c, "_orig", c)


def private_helper(keep=()):
    """Default predicate: private (single underscore) functions not named in `keep`
    (the helper names a rule anchors on itself)."""
    keep = set(keep)

    def pred(callee):
        n = callee.name
        return n.startswith("_") and not n.startswith("__") and n not in keep
    return pred


def inlined(program, func, keep=(), pred=None, depth=2):
    """func with calls to private helpers expanded (see module docstring); the
    same object if nothing was expanded."""
    cache = program.__dict__.setdefault("_inline_cache", {})
    key = (func.qual, tuple(sorted(keep)), id(pred), depth)
    if key not in cache:
        cache[key] = Inliner(program, func, pred or private_helper(keep), depth).run()
    return cache[key]


# ---------------------------------------------------------------------------
# boolean snapshot locals:   flag = <side-effect-free condition> ... if flag:
# ---------------------------------------------------------------------------
def _chain(e):
    out = []
    while isinstance(e, ast.Attribute):
        out.append(e.attr)
        e = e.value
    out.reverse()
    return e, out


class _Snap:
    """Substitute locals that abbreviate a side-effect-free *condition* (a
    comparison / and / or / not over names, attribute chains, constant
    subscripts, len()) into the later expressions that use them, when nothing in
    between can change the condition: no store to an attribute / subscript it
    reads and - unless it reads only configuration (`.adj.` chains), constants
    and never-rebound names compared by `in` / `==` with constants - no call
    other than logging."""

    def __init__(self, fnode, stable=None, keep_names=()):
        self.fn = fnode
        self.keep_names = set(keep_names)
        self.stable = stable or (lambda attr: False)
        self.binds = {}
        self.escaping = set()  # names some nested scope can re-bind
        for n in ast.walk(fnode):
            if isinstance(n, (ast.Global, ast.Nonlocal)):
                self.escaping.update(n.names)
        for n in walk_own(fnode):
            if isinstance(n, ast.Name) and isinstance(n.ctx, (ast.Store, ast.Del)):
                self.binds[n.id] = self.binds.get(n.id, 0) + 1
            elif isinstance(n, (ast.Global, ast.Nonlocal)):
                for x in n.names:
                    self.binds[x] = self.binds.get(x, 0) + 2
            elif isinstance(n, ast.ExceptHandler) and n.name:
                self.binds[n.name] = self.binds.get(n.name, 0) + 2
        a = fnode.args
        self.params = {x.arg for x in a.posonlyargs + a.args + a.kwonlyargs}
        if a.vararg:
            self.params.add(a.vararg.arg)
        if a.kwarg:
            self.params.add(a.kwarg.arg)
        self.changed = False

    # reads: list of ('attr', name) / ('sub', text) / ('name', id); volatile flag
    def pure(self, e, reads):
        if isinstance(e, ast.Constant):
            return True
        if isinstance(e, ast.Name):
            if self.binds.get(e.id, 0) <= (0 if e.id in self.params else 1):
                reads.append(("name", e.id, True))
                return True
            if e.id not in self.escaping and getattr(self, "flow_names", True):
                # re-bound somewhere in this function: fine as long as no store to it lies between the snapshot and the
                # use - kills() drops the snapshot at every such store
                reads.append(("name", e.id, True))
                reads.append(("rebound", e.id, True))
                return True
            return False
        if isinstance(e, ast.Attribute):
            base, chain = _chain(e)
            if isinstance(base, ast.Name) and self.binds.get(base.id, 0) <= (0 if base.id in self.params else 1) and self.pure(base, []):
                for a in chain:
                    reads.append(("attr", a, not (self.stable(a) or "adj" in chain[:-1])))
                return True
            return False
        if isinstance(e, ast.Subscript):
            if isinstance(e.slice, ast.Constant) and self.pure(e.value, reads):
                reads.append(("sub", ast.unparse(e.value), True))
                return True
            return False
        if isinstance(e, ast.Compare):
            return self.pure(e.left, reads) and all(self.pure(c, reads) for c in e.comparators)
        if isinstance(e, ast.BoolOp):
            return all(self.pure(v, reads) for v in e.values)
        if isinstance(e, ast.UnaryOp):
            return self.pure(e.operand, reads)
        if isinstance(e, ast.BinOp):
            return self.pure(e.left, reads) and self.pure(e.right, reads)
        if isinstance(e, ast.Call) and isinstance(e.func, ast.Name) and e.func.id == "len" and len(e.args) == 1 and not e.keywords:
            return self.pure(e.args[0], reads)
        if isinstance(e, ast.Call) and isinstance(e.func, ast.Attribute) and e.func.attr in self._OBSERVERS and not e.keywords \
                and isinstance(e.func.value, ast.Name) and all(isinstance(a, ast.Constant) for a in e.args):
            # x.startswith("...") and friends on a plain local / parameter: side-effect free observers of str / bytes
            return self.pure(e.func.value, reads)
        return False

    _OBSERVERS = ("startswith", "endswith", "isdigit", "isalpha", "isspace", "islower", "isupper")

    @classmethod
    def is_condition(cls, e):
        return isinstance(e, (ast.Compare, ast.BoolOp)) or (isinstance(e, ast.UnaryOp) and isinstance(e.op, ast.Not)) \
            or (isinstance(e, ast.Call) and isinstance(e.func, ast.Attribute) and e.func.attr in cls._OBSERVERS)

    def is_stable_alias(self, e):
        """`x = self.a.b` where neither a nor b is ever re-bound outside a
        constructor anywhere in the program: x and self.a.b are the same object
        for as long as x lives."""
        if not isinstance(e, ast.Attribute):
            return False
        base, chain = _chain(e)
        if not isinstance(base, ast.Name) or not all(self.stable(a) for a in chain):
            return False
        if base.id in self.params and not self.binds.get(base.id):
            return True
        # or rooted at a local that is itself such an alias (server = channel.server; adj = server.adj)
        return base.id in getattr(self, "stable_locals", ())

    @classmethod
    def _logging(cls, call):
        """calls that cannot change what a snapshot read: logging, total builtins, str/bytes observers"""
        base, chain = _chain(call.func)
        if chain and chain[-1] in cls._OBSERVERS:
            return True
        return "logger" in chain[:-1] or (isinstance(base, ast.Name) and base.id in ("len", "isinstance", "hasattr") and not chain)

    def kills(self, node, env):
        """names of env entries invalidated by executing `node` (any part of it)"""
        dead = set()
        if not env:
            return dead
        stores_attr, stores_sub, call = set(), set(), False
        stores_name = set()
        for x in ast.walk(node):
            if isinstance(x, ast.Name) and isinstance(x.ctx, (ast.Store, ast.Del)):
                stores_name.add(x.id)
            elif isinstance(x, ast.ExceptHandler) and x.name:
                stores_name.add(x.name)
            if isinstance(x, ast.Attribute) and isinstance(x.ctx, (ast.Store, ast.Del)):
                stores_attr.add(x.attr)
            elif isinstance(x, ast.Subscript) and isinstance(x.ctx, (ast.Store, ast.Del)):
                stores_sub.add(ast.unparse(x.value))
            elif isinstance(x, ast.Call) and not self._logging(x) and not self._fresh_container_call(x):
                call = True
            elif isinstance(x, ast.AugAssign) and isinstance(x.target, ast.Attribute):
                stores_attr.add(x.target.attr)
        for nm, (rhs, reads) in env.items():
            for (k, what, vol) in reads:
                if (k == "attr" and what in stores_attr) or (k == "sub" and what in stores_sub) or (call and vol and k not in ("name", "rebound")) \
                        or (call and k == "name" and self._mutable_use(rhs, what)) or (k == "rebound" and what in stores_name):
                    dead.add(nm)
        return dead

    _CONTAINER_METHODS = ("remove", "add", "append", "discard", "extend", "clear", "insert", "update", "pop")

    def _fresh_container_call(self, call):
        """`v.remove("X")` and the like on a local that only ever holds containers created in this function (set(...),
        displays, comprehensions, differences of such), with constant arguments: it changes that container and nothing
        a snapshot of *other* names can have read."""
        f = call.func
        if not (isinstance(f, ast.Attribute) and f.attr in self._CONTAINER_METHODS and isinstance(f.value, ast.Name) and not call.keywords
                and all(isinstance(a, ast.Constant) for a in call.args)):
            return False
        v = f.value.id
        if v in self.params:
            return False

        def fresh(e):
            if isinstance(e, (ast.List, ast.Set, ast.Dict, ast.ListComp, ast.SetComp, ast.DictComp)):
                return True
            if isinstance(e, ast.Call) and isinstance(e.func, ast.Name) and e.func.id in ("set", "list", "dict", "frozenset", "sorted") and not e.keywords:
                return True
            if isinstance(e, ast.BinOp) and isinstance(e.op, (ast.Sub, ast.BitOr, ast.BitAnd, ast.Add)):
                return True  # a new object either way for the builtin containers
            return False
        bs = [n for n in walk_own(self.fn) if isinstance(n, ast.Assign) and any(isinstance(t, ast.Name) and t.id == v for t in n.targets)]
        nstores = sum(1 for n in walk_own(self.fn) if isinstance(n, ast.Name) and n.id == v and isinstance(n.ctx, (ast.Store, ast.Del)))
        return bool(bs) and nstores == len(bs) and all(len(b.targets) == 1 and fresh(b.value) for b in bs)

    @staticmethod
    def _mutable_use(rhs, name):
        """Is `name` used in rhs other than as operand of a comparison with a
        constant / another name (where only its identity or value at that time
        matters and a call could have mutated it)?  `"x" in kw` after a call
        that pops from kw is the case to reject; plain names compared with
        constants are strings / numbers in this code base, so only containment
        tests count as mutable uses."""
        for x in ast.walk(rhs):
            if isinstance(x, ast.Compare) and any(isinstance(o, (ast.In, ast.NotIn)) for o in x.ops):
                for c in x.comparators:
                    if isinstance(c, ast.Name) and c.id == name:
                        return True
            if isinstance(x, ast.Call) and not (isinstance(x.func, ast.Attribute) and x.func.attr in _Snap._OBSERVERS):
                for y in ast.walk(x):
                    if isinstance(y, ast.Name) and y.id == name:
                        return True
        return False

    @staticmethod
    def _leaves(stmts):
        return bool(stmts) and isinstance(stmts[-1], (ast.Raise, ast.Return, ast.Break, ast.Continue))

    def _continuing_parts(self, s):
        """the parts of s after which control can reach the statement following s (an arm that always leaves - raise /
        return / break / continue - cannot affect what follows); nested ifs are taken apart the same way"""
        if isinstance(s, ast.If):
            parts = [s.test]
            for arm in (s.body, s.orelse):
                if not self._leaves(arm):
                    for x in arm:
                        parts.extend(self._continuing_parts(x))
            return parts
        return [s]

    def subst(self, expr, env):
        if not env or expr is None:
            return expr
        me = self

        class S(ast.NodeTransformer):
            def visit_Name(self, node):
                if isinstance(node.ctx, ast.Load) and node.id in env:
                    new = _copy(env[node.id][0])
                    for y in ast.walk(new):
                        ast.copy_location(y, node)
                    me.changed = True
                    return new
                return node

            def visit_Lambda(self, node):
                return node
        return S().visit(expr)

    _HEADERS = {ast.If: ("test",), ast.While: ("test",), ast.Assert: ("test",), ast.Return: ("value",), ast.Expr: ("value",),
                ast.Assign: ("value",), ast.AugAssign: ("value",), ast.AnnAssign: ("value",), ast.For: ("iter",), ast.Raise: ("exc",)}

    def block(self, body, env):
        env = dict(env)
        for s in body:
            if isinstance(s, (ast.FunctionDef, ast.AsyncFunctionDef, ast.ClassDef)):
                continue
            loopish = isinstance(s, (ast.While, ast.For, ast.AsyncFor, ast.Try))
            inner = dict(env)
            if loopish:
                for nm in self.kills(s, env):
                    inner.pop(nm, None)
            # header expressions
            for fld in self._HEADERS.get(type(s), ()):
                e = getattr(s, fld, None)
                if e is None:
                    continue
                henv = dict(inner)
                for nm in self.kills(e, henv):
                    henv.pop(nm, None)
                setattr(s, fld, self.subst(e, henv))
            if isinstance(s, (ast.With, ast.AsyncWith)):
                for it in s.items:
                    henv = dict(inner)
                    for nm in self.kills(it.context_expr, henv):
                        henv.pop(nm, None)
                    it.context_expr = self.subst(it.context_expr, henv)
                    for nm in self.kills(it.context_expr, inner):
                        inner.pop(nm, None)
            if isinstance(s, (ast.If, ast.While)):
                for nm in self.kills(s.test, inner):
                    inner.pop(nm, None)
            for fld in ("body", "orelse", "finalbody"):
                sub = getattr(s, fld, None)
                if isinstance(sub, list) and sub and isinstance(sub[0], ast.stmt):
                    self.block(sub, inner)
            if isinstance(s, ast.Try):
                for h in s.handlers:
                    self.block(h.body, inner)
            # after the statement (an arm that always leaves - raise / return / break / continue - cannot affect what follows)
            for part in self._continuing_parts(s):
                for nm in self.kills(part, env):
                    env.pop(nm, None)
            if isinstance(s, ast.Assign) and len(s.targets) == 1 and isinstance(s.targets[0], ast.Name):
                nm = s.targets[0].id
                reads = []
                if self.binds.get(nm) == 1 and nm not in self.params and self.is_stable_alias(s.value):
                    self.__dict__.setdefault("stable_locals", set()).add(nm)
                if self.binds.get(nm) == 1 and nm not in self.params and (self.is_condition(s.value) or (nm not in self.keep_names and self.is_stable_alias(s.value))) and self.pure(s.value, reads):
                    env[nm] = (s.value, reads)

    def run(self):
        self.block(self.fn.body, dict(getattr(self, "initial_env", {})))
        return self.changed


def _captured_conditions(func):
    """{name: (rhs, reads)} for condition flags of the enclosing function that a closure reads: bound exactly once there,
    to a side-effect-free condition over names that neither the enclosing function nor the closure ever re-binds.
    The value the closure sees is then the value of the condition itself."""
    par = func.parent
    if par is None:
        return {}
    ps = _Snap(par.node)
    ps.flow_names = False  # the closure runs at some later time: only never-rebound names are safe
    mine = _Snap(func.node)
    out = {}
    used = {n.id for n in ast.walk(func.node) if isinstance(n, ast.Name) and isinstance(n.ctx, ast.Load)}
    for n in walk_own(par.node):
        if isinstance(n, ast.Assign) and len(n.targets) == 1 and isinstance(n.targets[0], ast.Name) and n.targets[0].id in used:
            nm = n.targets[0].id
            if ps.binds.get(nm) != 1 or nm in ps.params or mine.binds.get(nm) or nm in mine.params:
                continue
            if not _Snap.is_condition(n.value):
                continue
            reads = []
            if not ps.pure(n.value, reads):
                continue
            # only plain names (parameters / never re-bound locals of the enclosing function), compared with constants
            names = [y.id for y in ast.walk(n.value) if isinstance(y, ast.Name)]
            if any(k != "name" for (k, _w, _v) in reads):
                continue
            if any(ps.binds.get(y, 0) > (0 if y in ps.params else 1) or mine.binds.get(y) or y in mine.params for y in names):
                continue
            # the definition must be at the top level of the enclosing function, before the closure is defined
            body = par.node.body
            # (func.node may be a rewritten copy of the definition: the statement is found by name)
            mine_at = [i for i, x in enumerate(body) if isinstance(x, (ast.FunctionDef, ast.AsyncFunctionDef)) and x.name == func.node.name]
            if n in body and len(mine_at) == 1 and body.index(n) < mine_at[0]:
                out[nm] = (n.value, [])
    return out


def expand_condition_locals(func, stable=None, keep_names=()):
    """Func whose expressions use conditions / stable attribute chains themselves
    rather than locals that abbreviate them; the same object if there is nothing
    to expand."""
    has = False
    for n in walk_own(func.node):
        if isinstance(n, ast.Assign) and len(n.targets) == 1 and isinstance(n.targets[0], ast.Name) and (_Snap.is_condition(n.value) or isinstance(n.value, ast.Attribute)):
            has = True
            break
    captured = {k: v for k, v in _captured_conditions(func).items() if k not in keep_names}
    if not has and not captured:
        return func
    node = _copy(func.node)
    sn = _Snap(node, stable, keep_names)
    sn.initial_env = captured
    if not sn.run():
        return func
    ast.fix_missing_locations(node)
    nf = Func(func.qual, node, func.module, func.cls, func.parent)
    nf.inlined_from = list(getattr(func, "inlined_from", []))
    return nf


# ---------------------------------------------------------------------------
# alpha-normalisation against the reference tree
# ---------------------------------------------------------------------------
def binding_keys(fnode):
    """[(key, [Name targets])] for the bindings of a function, in source order.
    The key describes *what* is bound, independent of the local's spelling:
    the normalised right-hand side (or `for:<iterable>`); tuple targets give
    `<key>#<index>`."""
    out = []
    nodes = [n for n in walk_own(fnode) if isinstance(n, (ast.Assign, ast.For, ast.AnnAssign, ast.NamedExpr, ast.withitem))]
    nodes.sort(key=lambda n: (getattr(n, "lineno", 0) if not isinstance(n, ast.withitem) else getattr(n.context_expr, "lineno", 0),
                              getattr(n, "col_offset", 0) if not isinstance(n, ast.withitem) else getattr(n.context_expr, "col_offset", 0)))
    for n in nodes:
        if isinstance(n, ast.Assign):
            if len(n.targets) != 1:
                continue
            tgt, key = n.targets[0], ast.unparse(n.value)
        elif isinstance(n, ast.AnnAssign):
            if n.value is None:
                continue
            tgt, key = n.target, ast.unparse(n.value)
        elif isinstance(n, ast.NamedExpr):
            tgt, key = n.target, ast.unparse(n.value)
        elif isinstance(n, ast.withitem):
            if n.optional_vars is None:
                continue
            tgt, key = n.optional_vars, "with:" + ast.unparse(n.context_expr)
        else:
            tgt, key = n.target, "for:" + ast.unparse(n.iter)
        if isinstance(tgt, ast.Name):
            out.append((key, tgt, n))
        elif isinstance(tgt, (ast.Tuple, ast.List)) and all(isinstance(e, ast.Name) for e in tgt.elts):
            for i, e in enumerate(tgt.elts):
                out.append(("%s#%d" % (key, i), e, n))
    return out


def reference_table(program):
    """{qual: {"params": [...], "keys": {key: name}}} of the tree as it is."""
    tab = {}
    for q, f in program.functions.items():
        keys = {}
        amb = set()
        for (k, tgt, _) in binding_keys(f.node):
            if k in keys and keys[k] != tgt.id:
                amb.add(k)
            keys.setdefault(k, tgt.id)
        for k in amb:
            del keys[k]
        # constants say nothing about the role of a local
        keys = {k: v for k, v in keys.items() if not _trivial_key(k)}
        a = f.node.args
        tab[q] = {"params": [x.arg for x in a.posonlyargs + a.args + a.kwonlyargs], "keys": keys}
    from .model import member_shapes
    tab["__shapes__"] = member_shapes({m.name: ast.parse(m.source) for m in program.modules.values()})
    tab["__globals__"] = {m.name: sorted(m.globals) for m in program.modules.values()}
    tab["__classattrs__"] = {c.qual: sorted(c.attrs) for c in program.classes.values()}
    return tab


def _trivial_key(k):
    base = k.split("#")[0]
    try:
        e = ast.parse(base, mode="eval").body
    except SyntaxError:
        return False
    return isinstance(e, ast.Constant) or (isinstance(e, (ast.List, ast.Dict, ast.Tuple, ast.Set)) and not ast.unparse(e).strip("[]{}() "))


def _rename_safe(fnode, old, new):
    if old == new:
        return False
    for n in ast.walk(fnode):
        if isinstance(n, ast.Name) and n.id == new:
            return False
        if isinstance(n, ast.arg) and n.arg == new:
            return False
        if isinstance(n, (ast.Global, ast.Nonlocal)) and (old in n.names or new in n.names):
            return False
        if isinstance(n, ast.ExceptHandler) and n.name in (old, new):
            return False
        if isinstance(n, ast.alias) and (n.asname or n.name).split(".")[0] in (old, new):
            return False
        if isinstance(n, ast.keyword) and False:
            return False
    # nested scopes must not bind `old` themselves
    for n in ast.walk(fnode):
        if n is fnode:
            continue
        if isinstance(n, (ast.FunctionDef, ast.AsyncFunctionDef, ast.Lambda)):
            a = n.args
            if any(x.arg == old for x in a.posonlyargs + a.args + a.kwonlyargs + ([a.vararg] if a.vararg else []) + ([a.kwarg] if a.kwarg else [])):
                return False
            if not isinstance(n, ast.Lambda):
                for m in walk_own(n):
                    if isinstance(m, ast.Name) and m.id == old and isinstance(m.ctx, ast.Store):
                        return False
    return True


def _merge_safe(fnode, old, new):
    """May local `old` be renamed to the already existing local `new`?  Yes when
    the two never hold a needed value at the same time: at every binding of one
    the other is dead (classic live-range test on the CFG), neither is a
    parameter, global, closure variable or used in a nested scope."""
    from .cfg import CFG
    new_is_param = False
    for n in ast.walk(fnode):
        if isinstance(n, ast.arg) and n.arg == old:
            return False
        if isinstance(n, ast.arg) and n.arg == new:
            # merging into a parameter of this very function is fine (its live range starts at entry)
            a_ = fnode.args
            if n in a_.posonlyargs + a_.args + a_.kwonlyargs:
                new_is_param = True
            else:
                return False
        if isinstance(n, (ast.Global, ast.Nonlocal)) and (old in n.names or new in n.names):
            return False
        if isinstance(n, ast.ExceptHandler) and n.name in (old, new):
            return False
        if n is not fnode and isinstance(n, (ast.FunctionDef, ast.AsyncFunctionDef, ast.Lambda, ast.ListComp, ast.SetComp, ast.DictComp, ast.GeneratorExp)):
            if any(isinstance(m, ast.Name) and m.id in (old, new) for m in ast.walk(n)):
                return False
    bound = _bound_names(fnode)
    if old not in bound or (new not in bound and not new_is_param):
        return False
    try:
        g = CFG(fnode, "?")
    except Exception:
        return False
    use = {}
    define = {}
    for n in g.nodes:
        a = n.ast
        u, d = set(), set()
        if a is not None:
            if n.kind == "iter":
                roots_use, roots_def = [], [a.target]
            elif n.kind == "with_enter":
                roots_use = [i.context_expr for i in a.items]
                roots_def = [i.optional_vars for i in a.items if i.optional_vars is not None]
            elif n.kind in ("with_exit", "dispatch", "handler", "join"):
                roots_use, roots_def = [], []
            elif n.kind == "stmt" and isinstance(a, (ast.FunctionDef, ast.AsyncFunctionDef, ast.ClassDef)):
                roots_use, roots_def = [], []
            else:
                roots_use, roots_def = [a], [a]
            for r in roots_use:
                for m in ast.walk(r):
                    if isinstance(m, ast.Name) and m.id in (old, new) and isinstance(m.ctx, ast.Load):
                        u.add(m.id)
                    if isinstance(m, ast.AugAssign) and isinstance(m.target, ast.Name) and m.target.id in (old, new):
                        u.add(m.target.id)
            for r in roots_def:
                for m in ast.walk(r):
                    if isinstance(m, ast.Name) and m.id in (old, new) and isinstance(m.ctx, (ast.Store, ast.Del)):
                        d.add(m.id)
        use[n.id], define[n.id] = u, d
    live_out = {n.id: set() for n in g.nodes}
    changed = True
    while changed:
        changed = False
        for n in reversed(g.nodes):
            out = set()
            for (sx, _) in n.succ:
                out |= use[sx.id] | (live_out[sx.id] - define[sx.id])
            if out != live_out[n.id]:
                live_out[n.id] = out
                changed = True
    for n in g.nodes:
        if old in define[n.id] and new in live_out[n.id]:
            return False
        if new in define[n.id] and old in live_out[n.id]:
            return False
    # both must be dead on entry (no read before a binding)
    ent = use[g.entry.id] | live_out[g.entry.id]
    if old in ent or (new in ent and not new_is_param):
        return False
    return True


def _rename(fnode, old, new):
    for n in ast.walk(fnode):
        if isinstance(n, ast.Name) and n.id == old:
            n.id = new
        elif isinstance(n, ast.arg) and n.arg == old:
            n.arg = new


def alpha_normalise(func, table):
    """Give the locals of `func` the names the reference tree uses for the same
    bindings (alpha-renaming only: behaviour cannot change).  Returns
    (Func, {old: new})."""
    ref = table.get(func.qual)
    if not ref:
        return func, {}
    want = ref["keys"]
    node = None
    renames = {}
    cur = func.node
    # parameter copies introduced by the inliner (`line__h1 = line`): when the source is dead afterwards the copy
    # and the source are one variable
    if getattr(func, "inlined_from", None):
        for _ in range(10):
            hit = None
            for n in walk_own(cur):
                if isinstance(n, ast.Assign) and len(n.targets) == 1 and isinstance(n.targets[0], ast.Name) and "__" in n.targets[0].id \
                        and isinstance(n.value, ast.Name) and n.value.id != n.targets[0].id and _merge_safe(cur, n.targets[0].id, n.value.id):
                    hit = (n.targets[0].id, n.value.id)
                    break
                # ... and result copies (`total = total__h1`): the helper's local and the caller's are one variable when
                # their live ranges do not overlap
                if isinstance(n, ast.Assign) and len(n.targets) == 1 and isinstance(n.targets[0], ast.Name) and isinstance(n.value, ast.Name) and "__" in n.value.id \
                        and "__" not in n.targets[0].id and n.value.id != n.targets[0].id and _merge_safe(cur, n.value.id, n.targets[0].id):
                    hit = (n.value.id, n.targets[0].id)
                    break
            if hit is None:
                break
            if node is None:
                node = _copy(func.node)
                cur = node
            _rename(cur, hit[0], hit[1])
            renames[hit[0]] = hit[1]

            class Drop(ast.NodeTransformer):
                def visit_Assign(self, n2):
                    if len(n2.targets) == 1 and isinstance(n2.targets[0], ast.Name) and isinstance(n2.value, ast.Name) and n2.targets[0].id == n2.value.id:
                        return None
                    return n2

                def visit_FunctionDef(self, n2):
                    if n2 is cur:
                        self.generic_visit(n2)
                    return n2
            Drop().visit(cur)
    # parameters by position (same arity only; keyword callers are resolved on
    # the original function by the call graph, not on this copy)
    a = cur.args
    params = [x.arg for x in a.posonlyargs + a.args + a.kwonlyargs]
    plan = []
    if len(params) == len(ref["params"]):
        for old, new in zip(params, ref["params"]):
            if old != new:
                plan.append(("param", old, new))
    done = True
    guard = 0
    while done and guard < 50:
        done = False
        guard += 1
        todo = list(plan)
        plan = []
        if not todo:
            for (k, tgt, _) in binding_keys(cur):
                new = want.get(k)
                if new is not None and tgt.id != new and tgt.id not in want.values():
                    todo.append(("local", tgt.id, new))
                    break
        for (_, old, new) in todo:
            if old in renames.values() and False:
                continue
            if _rename_safe(cur, old, new) or _merge_safe(cur, old, new):
                if node is None:
                    node = _copy(func.node)
                    cur = node
                _rename(cur, old, new)
                renames[old] = new
                done = True
            else:
                # cannot restore this one: forget the key so the scan moves on
                want = {k: v for k, v in want.items() if v != new}
                done = True
    if node is None:
        return func, {}
    # copies between two locals that have become one variable
    def _drop_self_copies(body):
        out = []
        for st in body:
            if isinstance(st, ast.Assign) and len(st.targets) == 1 and isinstance(st.targets[0], ast.Name) and isinstance(st.value, ast.Name) and st.targets[0].id == st.value.id \
                    and st.value.id in renames.values():
                continue
            for fld in ("body", "orelse", "finalbody"):
                sub = getattr(st, fld, None)
                if isinstance(sub, list) and sub and isinstance(sub[0], ast.stmt) and not isinstance(st, (ast.FunctionDef, ast.AsyncFunctionDef, ast.ClassDef)):
                    setattr(st, fld, _drop_self_copies(sub) or ([ast.copy_location(ast.Pass(), st)] if fld == "body" else []))
            if isinstance(st, ast.Try):
                for h in st.handlers:
                    h.body = _drop_self_copies(h.body) or [ast.copy_location(ast.Pass(), h)]
            out.append(st)
        return out
    node.body = _drop_self_copies(node.body) or [ast.copy_location(ast.Pass(), node)]
    ast.fix_missing_locations(node)
    nf = Func(func.qual, node, func.module, func.cls, func.parent)
    nf.inlined_from = list(getattr(func, "inlined_from", []))
    nf.renamed = renames
    return nf, renames


# ---------------------------------------------------------------------------
# new single-use temporaries:   t = E ; <statement using t once>
# ---------------------------------------------------------------------------
_HDR = {ast.If: ("test",), ast.Assert: ("test",), ast.Return: ("value",), ast.Expr: ("value",), ast.Assign: ("value",),
        ast.AugAssign: ("value",), ast.AnnAssign: ("value",), ast.For: ("iter",), ast.Raise: ("exc",)}


def _pos(n):
    return (getattr(n, "lineno", 0), getattr(n, "col_offset", 0))


def _endpos(n):
    return (getattr(n, "end_lineno", 0) or 0, getattr(n, "end_col_offset", 0) or 0)


def inline_new_temps(func, keep_names=()):
    """Forward-substitute temporaries the reference tree does not have: a local
    bound once by `t = E`, read exactly once, in the header expression of the
    *next* statement, with nothing that could have a side effect evaluated in
    that header before the read.  Moving E to its only use is then exact."""
    keep = set(keep_names)
    fn0 = func.node
    binds, loads = {}, {}
    for n in ast.walk(fn0):
        if isinstance(n, ast.Name):
            if isinstance(n.ctx, ast.Load):
                loads[n.id] = loads.get(n.id, 0) + 1
            else:
                binds[n.id] = binds.get(n.id, 0) + 1
        elif isinstance(n, ast.arg):
            binds[n.arg] = binds.get(n.arg, 0) + 2
        elif isinstance(n, (ast.Global, ast.Nonlocal)):
            for x in n.names:
                binds[x] = binds.get(x, 0) + 2
    cands = {nm for nm, c in binds.items() if c == 1 and loads.get(nm, 0) == 1 and nm not in keep}
    joins = {nm for nm, c in binds.items() if c == 2 and loads.get(nm, 0) == 1 and nm not in keep}
    if not cands and not joins:
        return func
    node = _copy(fn0)
    changed = [False]

    def try_pair(a, b):
        if not (isinstance(a, ast.Assign) and len(a.targets) == 1 and isinstance(a.targets[0], ast.Name) and a.targets[0].id in cands):
            return False
        nm = a.targets[0].id
        for fld in _HDR.get(type(b), ()):
            e = getattr(b, fld, None)
            if e is None:
                continue
            uses = [x for x in ast.walk(e) if isinstance(x, ast.Name) and x.id == nm and isinstance(x.ctx, ast.Load)]
            if len(uses) != 1:
                continue
            u = uses[0]
            # inside a lambda / comprehension the read may happen later or repeatedly
            for x in ast.walk(e):
                if isinstance(x, (ast.Lambda, ast.ListComp, ast.SetComp, ast.DictComp, ast.GeneratorExp, ast.IfExp, ast.BoolOp)) and any(y is u for y in ast.walk(x)):
                    if isinstance(x, (ast.IfExp,)) and (x.test is u or any(y is u for y in ast.walk(x.test))):
                        continue
                    if isinstance(x, ast.BoolOp) and any(y is u for y in ast.walk(x.values[0])):
                        continue
                    return False
            for x in ast.walk(e):
                if isinstance(x, (ast.Call, ast.Await, ast.Yield, ast.YieldFrom, ast.NamedExpr)) and _endpos(x) <= _pos(u) and _endpos(x) != (0, 0):
                    return False
            if isinstance(b, ast.AugAssign):
                return False

            class S(ast.NodeTransformer):
                def visit_Name(self, n2):
                    if n2 is u:
                        new = a.value
                        return new
                    return n2
            setattr(b, fld, S().visit(e))
            return True
        return False

    def try_join(s, nxt):
        """if c: ...; t = A  else: ...; t = B   followed by one statement reading t once: the statement moves into both
        arms with t replaced (a conditional expression split earlier, or its hand-written form)."""
        if not (isinstance(s, ast.If) and s.body and s.orelse):
            return False
        la, lb = s.body[-1], s.orelse[-1]
        if not all(isinstance(x, ast.Assign) and len(x.targets) == 1 and isinstance(x.targets[0], ast.Name) for x in (la, lb)):
            return False
        nm = la.targets[0].id
        if lb.targets[0].id != nm or nm in keep or binds.get(nm) != 2 or loads.get(nm, 0) != 1:
            return False
        import copy as _c
        a2, b2 = _copy(nxt), _copy(nxt)
        ok = True
        for arm, last, cp in ((s.body, la, a2), (s.orelse, lb, b2)):
            fake = ast.Assign(targets=[ast.Name(id=nm, ctx=ast.Store())], value=last.value, type_comment=None)
            cands.add(nm)
            if not try_pair(fake, cp):
                ok = False
            cands.discard(nm)
        if not ok:
            return False
        s.body[-1] = a2
        s.orelse[-1] = b2
        return True

    def block(body):
        i = 0
        while i < len(body):
            s = body[i]
            if i + 1 < len(body) and try_pair(s, body[i + 1]):
                del body[i]
                changed[0] = True
                if i > 0:
                    i -= 1
                continue
            if i + 1 < len(body) and try_join(s, body[i + 1]):
                del body[i + 1]
                changed[0] = True
                continue
            for fld in ("body", "orelse", "finalbody"):
                sub = getattr(s, fld, None)
                if isinstance(sub, list) and sub and isinstance(sub[0], ast.stmt) and not isinstance(s, (ast.FunctionDef, ast.AsyncFunctionDef, ast.ClassDef)):
                    block(sub)
            if isinstance(s, ast.Try):
                for h in s.handlers:
                    block(h.body)
            i += 1
    block(node.body)
    if not changed[0]:
        return func
    ast.fix_missing_locations(node)
    nf = Func(func.qual, node, func.module, func.cls, func.parent)
    nf.inlined_from = list(getattr(func, "inlined_from", []))
    return nf


def outline_reference_temps(func, ref_keys):
    """The inverse of inline_new_temps: where the reference tree binds a call's
    result to a local (`task = queue.popleft()`) and this tree uses the call
    directly, once, as the first thing evaluated in a statement header
    (`queue.popleft().cancel()`), re-introduce the local.  Exact for the same
    reason (nothing is evaluated before the call in that statement)."""
    fn0 = func.node
    names = {n.id for n in ast.walk(fn0) if isinstance(n, ast.Name)} | {a.arg for a in ast.walk(fn0) if isinstance(a, ast.arg)}
    todo = {}
    for k, nm in ref_keys.items():
        if "#" in k or nm in names or k.startswith(("for:", "with:")):
            continue
        try:
            e = ast.parse(k, mode="eval").body
        except SyntaxError:
            continue
        if isinstance(e, (ast.Call, ast.Subscript)):
            todo[k] = nm
    if not todo:
        return func
    node = _copy(fn0)
    changed = [False]

    def occurrences(k):
        out = []
        for x in ast.walk(node):
            if isinstance(x, (ast.Call, ast.Subscript)) and not isinstance(getattr(x, "ctx", None), (ast.Store, ast.Del)) and ast.unparse(x) == k:
                out.append(x)
        return out

    def block(body):
        i = 0
        while i < len(body):
            s = body[i]
            for fld in _HDR.get(type(s), ()):
                e = getattr(s, fld, None)
                if e is None:
                    continue
                for k, nm in list(todo.items()):
                    occ = [x for x in ast.walk(e) if isinstance(x, (ast.Call, ast.Subscript)) and not isinstance(getattr(x, "ctx", None), (ast.Store, ast.Del)) and ast.unparse(x) == k]
                    if len(occ) != 1 or len(occurrences(k)) != 1 or occ[0] is e and isinstance(s, ast.Assign) and len(s.targets) == 1 and isinstance(s.targets[0], ast.Name):
                        continue
                    u = occ[0]
                    bad = False
                    for x in ast.walk(e):
                        if isinstance(x, (ast.Lambda, ast.ListComp, ast.SetComp, ast.DictComp, ast.GeneratorExp)) and any(y is u for y in ast.walk(x)):
                            bad = True
                        if isinstance(x, ast.IfExp) and not any(y is u for y in ast.walk(x.test)) and any(y is u for y in ast.walk(x)):
                            bad = True
                        if isinstance(x, ast.BoolOp) and not any(y is u for y in ast.walk(x.values[0])) and any(y is u for y in ast.walk(x)):
                            bad = True
                        if isinstance(x, (ast.Call, ast.Await, ast.Yield, ast.YieldFrom, ast.NamedExpr)) and x is not u and _endpos(x) <= _pos(u) and _endpos(x) != (0, 0) \
                                and not any(y is x for y in ast.walk(u)):
                            bad = True
                    if bad or isinstance(s, ast.AugAssign):
                        continue
                    tgt = ast.Name(id=nm, ctx=ast.Store())
                    a = ast.Assign(targets=[tgt], value=u, type_comment=None)
                    ast.copy_location(a, s)
                    ast.copy_location(tgt, s)
                    use = ast.Name(id=nm, ctx=ast.Load())
                    ast.copy_location(use, u)

                    class S(ast.NodeTransformer):
                        def visit(self, n2):
                            if n2 is u:
                                return use
                            return super().visit(n2)
                    setattr(s, fld, S().visit(e))
                    body.insert(i, a)
                    i += 1
                    del todo[k]
                    changed[0] = True
                    e = getattr(s, fld)
            for fld in ("body", "orelse", "finalbody"):
                sub = getattr(s, fld, None)
                if isinstance(sub, list) and sub and isinstance(sub[0], ast.stmt) and not isinstance(s, (ast.FunctionDef, ast.AsyncFunctionDef, ast.ClassDef)):
                    block(sub)
            if isinstance(s, ast.Try):
                for h in s.handlers:
                    block(h.body)
            i += 1
    for _ in range(6):
        n0 = len(todo)
        block(node.body)
        if len(todo) == n0:
            break
    if not changed[0]:
        return func
    ast.fix_missing_locations(node)
    nf = Func(func.qual, node, func.module, func.cls, func.parent)
    nf.inlined_from = list(getattr(func, "inlined_from", []))
    return nf


# ---------------------------------------------------------------------------
# conditional expressions in statement position
# ---------------------------------------------------------------------------
def split_conditional_expressions(func):
    """`x = A if c else B` -> `if c: x = A  else: x = B` (same for `return` and
    expression statements, nested conditional expressions included).  Exact:
    the test is evaluated first either way and exactly one arm afterwards."""
    if not any(isinstance(n, ast.IfExp) for n in walk_own(func.node)):
        return func
    node = _copy(func.node)
    changed = [False]

    class OrForm(ast.NodeTransformer):
        """`x if x else y` is `x or y` (x a name / attribute chain: reading it twice or once is the same)"""
        def visit_IfExp(self, n):
            self.generic_visit(n)
            if _simple(n.test) and ast.dump(n.test) == ast.dump(n.body):
                changed[0] = True
                return ast.copy_location(ast.BoolOp(op=ast.Or(), values=[n.body, n.orelse]), n)
            if isinstance(n.test, ast.UnaryOp) and isinstance(n.test.op, ast.Not) and _simple(n.test.operand) and ast.dump(n.test.operand) == ast.dump(n.orelse):
                changed[0] = True
                return ast.copy_location(ast.BoolOp(op=ast.Or(), values=[n.orelse, n.body]), n)
            return n

        def visit_FunctionDef(self, n):
            if n is node:
                self.generic_visit(n)
            return n

        def visit_Lambda(self, n):
            return n
    OrForm().visit(node)

    def leading(e):
        """(parent, field) of a conditional expression that is the first thing `e` evaluates, nested as the receiver /
        callee / left operand / subscripted value; None if there is none."""
        for fld in {ast.Call: ("func",), ast.Attribute: ("value",), ast.BinOp: ("left",), ast.Compare: ("left",), ast.Subscript: ("value",)}.get(type(e), ()):
            sub = getattr(e, fld)
            if isinstance(sub, ast.IfExp):
                return (e, fld)
            return leading(sub)
        return None

    def conv(s):
        v = getattr(s, "value", None)
        if isinstance(s, (ast.Return, ast.Expr)) and v is not None and not isinstance(v, ast.IfExp):
            # `return (A if c else B).m()` -> `if c: return A.m()  else: return B.m()`
            ld = leading(v)
            if ld is not None:
                par, fld = ld
                ie = getattr(par, fld)
                setattr(par, fld, ie.body)
                a = _copy(s)
                setattr(par, fld, ie.orelse)
                b = _copy(s)
                setattr(par, fld, ie)
                new = ast.If(test=ie.test, body=block([a]), orelse=block([b]))
                ast.copy_location(new, s)
                changed[0] = True
                return new
        if isinstance(s, (ast.Assign, ast.Return, ast.Expr)) and isinstance(v, ast.IfExp):
            def simple_target(t):
                # the target's own sub-expressions are evaluated after the value either way; with names and constants
                # only, nothing can interfere
                if isinstance(t, ast.Name):
                    return True
                if isinstance(t, ast.Attribute):
                    return _simple(t.value)
                if isinstance(t, ast.Subscript):
                    return _simple(t.value) and (_simple(t.slice) or isinstance(t.slice, ast.Constant))
                return False
            if isinstance(s, ast.Assign) and not all(simple_target(t) for t in s.targets):
                return None
            a, b = _copy(s), _copy(s)
            a.value, b.value = v.body, v.orelse
            new = ast.If(test=v.test, body=block([a]), orelse=block([b]))
            ast.copy_location(new, s)
            changed[0] = True
            return new
        return None

    def block(body):
        out = []
        for s in body:
            r = conv(s)
            if r is not None:
                out.append(r)
                continue
            for fld in ("body", "orelse", "finalbody"):
                sub = getattr(s, fld, None)
                if isinstance(sub, list) and sub and isinstance(sub[0], ast.stmt) and not isinstance(s, (ast.FunctionDef, ast.AsyncFunctionDef, ast.ClassDef)):
                    setattr(s, fld, block(sub))
            if isinstance(s, ast.Try):
                for h in s.handlers:
                    h.body = block(h.body)
            out.append(s)
        return out
    node.body = block(node.body)
    if not changed[0]:
        return func
    ast.fix_missing_locations(node)
    nf = Func(func.qual, node, func.module, func.cls, func.parent)
    nf.inlined_from = list(getattr(func, "inlined_from", []))
    return nf


# ---------------------------------------------------------------------------
# any()/all() over a generator expression in an `if` test
# ---------------------------------------------------------------------------
def loops_from_quantifiers(func):
    """`if any(P(x) for x in xs): S  else: E`  ->  `for x in xs: if P(x): S; break` + `else: E`
    (and the three variants with `all` / `not`).  Exact: the generator stops at
    the first witness either way, S runs after P(x) held for that x and nothing
    else was evaluated, E runs iff no witness exists.  The bound variable gets a
    fresh name when the function uses that name elsewhere."""
    def quant(test):
        neg = False
        t = test
        while isinstance(t, ast.UnaryOp) and isinstance(t.op, ast.Not):
            neg = not neg
            t = t.operand
        if isinstance(t, ast.Call) and isinstance(t.func, ast.Name) and t.func.id in ("any", "all") and len(t.args) == 1 and not t.keywords \
                and isinstance(t.args[0], ast.GeneratorExp) and len(t.args[0].generators) == 1 and not t.args[0].generators[0].is_async:
            return t.func.id, neg, t.args[0]
        return None
    if not any(isinstance(n, ast.If) and quant(n.test) for n in walk_own(func.node)):
        return func
    node = _copy(func.node)
    names = _all_names(node)
    counter = [0]
    changed = [False]

    def conv(s):
        q = quant(s.test)
        if q is None:
            return None
        kind, neg, gen = q
        g = gen.generators[0]
        # the witness condition and which arm runs on a witness
        if kind == "any":
            witness = gen.elt
            on_witness, otherwise = (s.orelse, s.body) if neg else (s.body, s.orelse)
        else:
            witness = ast.copy_location(ast.UnaryOp(op=ast.Not(), operand=gen.elt), gen.elt)
            on_witness, otherwise = (s.body, s.orelse) if neg else (s.orelse, s.body)
        # bound variables: fresh names where the function uses the name outside this comprehension
        inside = {m.id for m in ast.walk(gen) if isinstance(m, ast.Name)}
        tnames = [m.id for m in ast.walk(g.target) if isinstance(m, ast.Name)]
        outside = {m.id for m in ast.walk(node) if isinstance(m, ast.Name) and not any(m is y for y in ast.walk(gen))}
        ren = {}
        for tn in tnames:
            if tn in outside:
                counter[0] += 1
                ren[tn] = "%s__q%d" % (tn, counter[0])
        if ren:
            for m in ast.walk(gen):
                if isinstance(m, ast.Name) and m.id in ren:
                    m.id = ren[m.id]
        cond = witness
        for c in g.ifs:
            cond = ast.copy_location(ast.BoolOp(op=ast.And(), values=[c, cond]), c)
        brk = ast.copy_location(ast.Break(), s)
        inner = ast.copy_location(ast.If(test=cond, body=block(list(on_witness)) + [brk], orelse=[]), s)
        loop = ast.copy_location(ast.For(target=g.target, iter=g.iter, body=[inner], orelse=block(list(otherwise)), type_comment=None), s)
        for m in ast.walk(g.target):
            if isinstance(m, ast.Name):
                m.ctx = ast.Store()
        changed[0] = True
        return loop

    def block(body):
        out = []
        for s in body:
            if isinstance(s, ast.If):
                # a break/continue in the arms would bind to the new loop
                arms = s.body + s.orelse
                if not any(isinstance(m, (ast.Break, ast.Continue)) for a in arms for m in ast.walk(a)):
                    r = conv(s)
                    if r is not None:
                        out.append(r)
                        continue
            for fld in ("body", "orelse", "finalbody"):
                sub = getattr(s, fld, None)
                if isinstance(sub, list) and sub and isinstance(sub[0], ast.stmt) and not isinstance(s, (ast.FunctionDef, ast.AsyncFunctionDef, ast.ClassDef)):
                    setattr(s, fld, block(sub))
            if isinstance(s, ast.Try):
                for h in s.handlers:
                    h.body = block(h.body)
            out.append(s)
        return out
    node.body = block(node.body)
    if not changed[0]:
        return func
    ast.fix_missing_locations(node)
    nf = Func(func.qual, node, func.module, func.cls, func.parent)
    nf.inlined_from = list(getattr(func, "inlined_from", []))
    return nf


# ---------------------------------------------------------------------------
# for x in (y for y in it if cond): body    ->    for y in it: if cond: body
# ---------------------------------------------------------------------------
def loops_from_filtered_generators(func):
    """A `for` over a generator expression that merely filters another iterable
    (element == bound variable, one generator clause) is the loop over that
    iterable with the body under the filter.  Exact: a generator expression is
    consumed lazily, one element per iteration of the outer loop, so the
    filter and the body interleave in the same order either way."""
    def is_filter(it):
        return isinstance(it, ast.GeneratorExp) and len(it.generators) == 1 and not it.generators[0].is_async \
            and isinstance(it.elt, ast.Name) and isinstance(it.generators[0].target, ast.Name) and it.elt.id == it.generators[0].target.id
    if not any(isinstance(n, ast.For) and is_filter(n.iter) for n in walk_own(func.node)):
        return func
    node = _copy(func.node)
    changed = [False]

    def block(body):
        out = []
        for s in body:
            for fld in ("body", "orelse", "finalbody"):
                sub = getattr(s, fld, None)
                if isinstance(sub, list) and sub and isinstance(sub[0], ast.stmt) and not isinstance(s, (ast.FunctionDef, ast.AsyncFunctionDef, ast.ClassDef)):
                    setattr(s, fld, block(sub))
            if isinstance(s, ast.Try):
                for h in s.handlers:
                    h.body = block(h.body)
            if isinstance(s, ast.For) and is_filter(s.iter) and isinstance(s.target, ast.Name) and not s.orelse:
                gen = s.iter.generators[0]
                inner, outer = gen.target.id, s.target.id
                # the outer loop variable takes the generator's name: it must not be used for anything else
                others = [m for m in ast.walk(node) if isinstance(m, ast.Name) and m.id == inner and not any(m is y for y in ast.walk(s))]
                if inner != outer and others:
                    out.append(s)
                    continue
                if inner != outer:
                    for m in ast.walk(s):
                        if isinstance(m, ast.Name) and m.id == outer:
                            m.id = inner
                body2 = s.body
                if gen.ifs:
                    cond = gen.ifs[0] if len(gen.ifs) == 1 else ast.copy_location(ast.BoolOp(op=ast.And(), values=list(gen.ifs)), gen.ifs[0])
                    body2 = [ast.copy_location(ast.If(test=cond, body=s.body, orelse=[]), s)]
                tgt = ast.copy_location(ast.Name(id=inner, ctx=ast.Store()), s.target)
                out.append(ast.copy_location(ast.For(target=tgt, iter=gen.iter, body=body2, orelse=[], type_comment=None), s))
                changed[0] = True
                continue
            out.append(s)
        return out
    node.body = block(node.body)
    if not changed[0]:
        return func
    ast.fix_missing_locations(node)
    nf = Func(func.qual, node, func.module, func.cls, func.parent)
    nf.inlined_from = list(getattr(func, "inlined_from", []))
    return nf


# ---------------------------------------------------------------------------
# constants the reference tree does not have
# ---------------------------------------------------------------------------
def _literal(v):
    """AST of an immutable constant value, or None."""
    def ok(x):
        if isinstance(x, (bytes, str, int, bool, type(None))) and not isinstance(x, float):
            return True
        return isinstance(x, tuple) and all(ok(y) for y in x)
    if not ok(v):
        return None
    try:
        return ast.parse(repr(v), mode="eval").body
    except SyntaxError:
        return None


def new_constants(program, table):
    """({module name: {global name: literal ast}}, {class qual: {attr: literal ast}}) for module-level / class-level
    names bound (once) to an immutable constant that the reference tree does not define: 'a literal was given a name'."""
    from .model import NotConst
    refg = table.get("__globals__")
    refc = table.get("__classattrs__")
    gl, ca = {}, {}
    if refg is None or refc is None:
        return gl, ca
    for m in program.modules.values():
        known = set(refg.get(m.name, ()))
        if m.name not in refg:
            continue
        for name, expr in m.globals.items():
            if name in known:
                continue
            # bound exactly once at module level, never declared global in a function
            nb = sum(1 for st in m.toplevel if isinstance(st, (ast.Assign, ast.AnnAssign)) for t in (st.targets if isinstance(st, ast.Assign) else [st.target])
                     for y in ast.walk(t) if isinstance(y, ast.Name) and y.id == name)
            if nb != 1 or any(isinstance(x, ast.Global) and name in x.names for x in ast.walk(m.tree)):
                continue
            try:
                v = program.fold(expr, m)
            except (NotConst, Exception):
                continue
            lit = _literal(v)
            if lit is not None:
                gl.setdefault(m.name, {})[name] = lit
    stored = {n.attr for m in program.modules.values() for n in ast.walk(m.tree) if isinstance(n, ast.Attribute) and isinstance(n.ctx, (ast.Store, ast.Del))}
    for c in program.classes.values():
        if c.qual not in refc:
            continue
        known = set(refc.get(c.qual, ()))
        for name, expr in c.attrs.items():
            if name in known or name in stored or name in c.methods:
                continue
            if any(name in sub.attrs or name in sub.methods for sub in c.all_subclasses()) or any(name in b.attrs for b in c.mro[1:]):
                continue
            try:
                v = program.fold(expr, c.module)
            except (NotConst, Exception):
                continue
            lit = _literal(v)
            if lit is not None:
                ca.setdefault(c.qual, {})[name] = lit
    return gl, ca


def inline_new_constants(func, gl, ca):
    """Replace reads of such names in func by the literal."""
    mg = dict(gl.get(func.module.name, {}))
    # ... and the ones another module of the package defines and this module imports by name (`from .utilities import CRLF`)
    for local, imp in func.module.imports.items():
        if imp[0] == "sym" and local not in mg and imp[2] in gl.get(imp[1], {}) and local not in func.module.globals:
            mg[local] = gl[imp[1]][imp[2]]
    owner = func
    while owner.parent is not None:
        owner = owner.parent
    cattrs = {}
    if owner.cls is not None:
        for c in owner.cls.mro:
            for k, v in ca.get(c.qual, {}).items():
                cattrs.setdefault(k, (c, v))
    if not mg and not cattrs:
        return func
    bound = _bound_names(func.node) | set(func.params) | set(func.kwonly) | {func.vararg, func.kwarg}
    g = func.parent
    while g is not None:
        bound |= _bound_names(g.node) | set(g.params) | set(g.kwonly) | {g.vararg, g.kwarg}
        g = g.parent
    sname = owner.params[0] if (owner.cls is not None and owner.params and not owner.is_staticmethod) else None
    hits = [n for n in ast.walk(func.node) if (isinstance(n, ast.Name) and isinstance(n.ctx, ast.Load) and n.id in mg and n.id not in bound)
            or (isinstance(n, ast.Attribute) and isinstance(n.ctx, ast.Load) and n.attr in cattrs and isinstance(n.value, ast.Name)
                and (n.value.id == sname or n.value.id in [c.name for c in owner.cls.mro]))] if True else []
    if not hits:
        return func
    node = _copy(func.node)

    class S(ast.NodeTransformer):
        def visit_Name(self, n):
            if isinstance(n.ctx, ast.Load) and n.id in mg and n.id not in bound:
                new = _copy(mg[n.id])
                for y in ast.walk(new):
                    ast.copy_location(y, n)
                new._from_name = True
                return new
            return n

        def visit_Call(self, n):
            self.generic_visit(n)
            # len(<the literal just substituted>) is the number the reference tree writes
            if isinstance(n.func, ast.Name) and n.func.id == "len" and "len" not in bound and len(n.args) == 1 and not n.keywords \
                    and isinstance(n.args[0], ast.Constant) and isinstance(n.args[0].value, (bytes, str)) and getattr(n.args[0], "_from_name", False):
                return ast.copy_location(ast.Constant(value=len(n.args[0].value)), n)
            return n

        def visit_Attribute(self, n):
            if isinstance(n.ctx, ast.Load) and n.attr in cattrs and isinstance(n.value, ast.Name) and (n.value.id == sname or n.value.id in [c.name for c in owner.cls.mro]):
                new = _copy(cattrs[n.attr][1])
                for y in ast.walk(new):
                    ast.copy_location(y, n)
                return new
            self.generic_visit(n)
            return n
    node = S().visit(node)
    ast.fix_missing_locations(node)
    nf = Func(func.qual, node, func.module, func.cls, func.parent)
    nf.inlined_from = list(getattr(func, "inlined_from", []))
    return nf


# ---------------------------------------------------------------------------
# locals that are always the current value of an attribute
# ---------------------------------------------------------------------------
def _attr_alias_candidates(fnode):
    """{local: attribute chain text} for locals whose every binding is `x = self.A` or the chained
    `x = self.A = E` / `self.A = x = E` (A possibly re-bound elsewhere: the general case of an alias)."""
    a = fnode.args
    params = {y.arg for y in a.posonlyargs + a.args + a.kwonlyargs} | ({a.vararg.arg} if a.vararg else set()) | ({a.kwarg.arg} if a.kwarg else set())
    forms = {}
    other = set()
    for n in walk_own(fnode):
        if isinstance(n, ast.Assign):
            names = [t for t in n.targets if isinstance(t, ast.Name)]
            attrs = [t for t in n.targets if isinstance(t, ast.Attribute) and isinstance(t.value, ast.Name) and t.value.id in params]
            if names and len(n.targets) == 1 and isinstance(n.value, ast.Attribute) and isinstance(n.value.value, ast.Name) and n.value.value.id in params:
                forms.setdefault(names[0].id, set()).add(ast.unparse(n.value))
                continue
            if len(names) == 1 and len(attrs) == 1 and len(n.targets) == 2:
                forms.setdefault(names[0].id, set()).add(ast.unparse(attrs[0]))
                continue
            for t in n.targets:
                for y in ast.walk(t):
                    if isinstance(y, ast.Name) and isinstance(y.ctx, ast.Store):
                        other.add(y.id)
        else:
            for fld in ("target", "optional_vars", "name"):
                t = getattr(n, fld, None)
                if isinstance(t, str):
                    other.add(t)
                elif isinstance(t, ast.AST) and not isinstance(n, ast.Assign):
                    for y in ast.walk(t):
                        if isinstance(y, ast.Name) and isinstance(y.ctx, (ast.Store, ast.Del)):
                            other.add(y.id)
    return {x: next(iter(v)) for x, v in forms.items() if len(v) == 1 and x not in other and x not in params}


def expand_attribute_aliases(func, keep_names, may_write):
    """Replace a local that provably always equals `self.A` at each of its reads by `self.A`.
    may_write(call node, attr) -> bool says whether a call may re-bind attribute A of the receiver's class
    (decided on the call graph of the tree as it is).  Locals the reference tree has are left alone."""
    from .cfg import CFG
    cands = {x: ch for x, ch in _attr_alias_candidates(func.node).items() if x not in keep_names}
    if not cands:
        return func
    node = _copy(func.node)
    try:
        g = CFG(node, "?")
    except Exception:
        return func
    done = False
    for x, chain in sorted(cands.items()):
        attr = chain.split(".")[-1]
        # must-alias dataflow: fact holds after the alias bindings, dies at stores to .attr and at calls that may write it
        IN = {g.entry.id: False}
        work = [g.entry]

        def transfer(n, label):
            h = IN[n.id]
            a = n.ast
            if n.kind in ("with_enter", "with_exit"):
                # a synchronisation point: while this thread did not hold the lock another one may have re-bound the
                # attribute - the local and the attribute are not known to agree any more
                return False
            if a is None or n.kind in ("dispatch", "join", "handler", "branch"):
                return h
            roots = [a]
            if n.kind == "iter":
                roots = [a.target]
            elif n.kind == "with_enter":
                roots = [i.context_expr for i in a.items]
            gen = False
            for r in roots:
                if isinstance(r, (ast.FunctionDef, ast.AsyncFunctionDef, ast.ClassDef)):
                    continue
                for y in ast.walk(r):
                    if isinstance(y, ast.Call) and may_write(y, attr):
                        h = False
                    if isinstance(y, ast.Call) and isinstance(y.func, ast.Attribute) and y.func.attr in ("acquire", "release", "wait"):
                        h = False  # synchronisation point (see above)
                    if isinstance(y, ast.Attribute) and y.attr == attr and isinstance(y.ctx, (ast.Store, ast.Del)):
                        h = False
                if isinstance(r, ast.Assign):
                    names = [t for t in r.targets if isinstance(t, ast.Name) and t.id == x]
                    if names:
                        if len(r.targets) == 1 and ast.unparse(r.value) == chain:
                            gen = True
                        elif len(r.targets) == 2 and any(isinstance(t, ast.Attribute) and ast.unparse(t) == chain for t in r.targets):
                            gen = True
            if gen and label != "exc":
                h = True
            return h
        while work:
            n = work.pop()
            for (sx, label) in n.succ:
                h = transfer(n, label)
                old = IN.get(sx.id)
                new = h if old is None else (old and h)
                if new != old:
                    IN[sx.id] = new
                    work.append(sx)
        ok = True
        for n in g.nodes:
            if n.id not in IN or n.ast is None or n.kind in ("dispatch", "join", "handler", "with_exit", "branch"):
                continue
            roots = [n.ast] if n.kind != "iter" else [n.ast.iter]
            if n.kind == "with_enter":
                roots = [i.context_expr for i in n.ast.items]
            for r in roots:
                if isinstance(r, (ast.FunctionDef, ast.AsyncFunctionDef, ast.ClassDef)):
                    if any(isinstance(y, ast.Name) and y.id == x for y in ast.walk(r)):
                        ok = False
                    continue
                for y in ast.walk(r):
                    if isinstance(y, ast.Name) and y.id == x and isinstance(y.ctx, ast.Load) and not IN[n.id]:
                        ok = False
        if not ok:
            continue
        # rewrite: reads become the chain, `x = self.A` disappears, `x = self.A = E` keeps the attribute store
        chain_ast = ast.parse(chain, mode="eval").body

        class S(ast.NodeTransformer):
            def visit_Name(self, n2):
                if n2.id == x and isinstance(n2.ctx, ast.Load):
                    new = _copy(chain_ast)
                    for y in ast.walk(new):
                        ast.copy_location(y, n2)
                    return new
                return n2

            def visit_Assign(self, n2):
                names = [t for t in n2.targets if isinstance(t, ast.Name) and t.id == x]
                if names:
                    if len(n2.targets) == 1:
                        return None
                    n2.targets = [t for t in n2.targets if not (isinstance(t, ast.Name) and t.id == x)]
                self.generic_visit(n2)
                return n2

            def visit_FunctionDef(self, n2):
                if n2 is node:
                    self.generic_visit(n2)
                return n2
        S().visit(node)
        done = True
        try:
            g = CFG(node, "?")
        except Exception:
            return func
    if not done:
        return func
    # an `if`/loop body emptied by a dropped assignment needs a pass
    for n in ast.walk(node):
        for fld in ("body", "orelse"):
            sub = getattr(n, fld, None)
            if isinstance(sub, list) and fld == "body" and not sub and isinstance(n, (ast.If, ast.For, ast.While, ast.With, ast.Try, ast.FunctionDef)):
                sub.append(ast.Pass())
    ast.fix_missing_locations(node)
    nf = Func(func.qual, node, func.module, func.cls, func.parent)
    nf.inlined_from = list(getattr(func, "inlined_from", []))
    return nf


# ---------------------------------------------------------------------------
# while True: if X: break; body   ->   while not X: body
# ---------------------------------------------------------------------------
def thread_exit_flags(func, module_globals=None, sentinel_ok=None):
    """Jump threading for a decision that is taken inside a `with` / `try-finally` block and acted upon right after it:

        with L:                              with L:
            ...                                  ...
            [v = C]                              if C: A; break
            if C: A [v = K1]         ->          else: B
            else: B [v = E]                  REST
        if T(v): break   (continue / return)
        REST

    T(v) is `v`, `not v`, `v is S` or `v is not S`.  Its outcome at the end of each arm must be known and differ: v bound
    just before the inner `if` to the very condition that `if` tests (nothing in the arms re-binds it), or bound in the
    arms to constants / to the sentinel S / to something that cannot be S (sentinel_ok(S) says that S never escapes).
    Exact: the leaving statement runs after the block's exit actions either way (`break` inside `with` / `try-finally`
    runs `__exit__` / the finally clause first), and nothing else lies between the inner `if` and the test."""
    sentinel_ok = sentinel_ok or (lambda name: False)
    changed = [False]

    def leaving(stmts):
        return bool(stmts) and all(isinstance(x, (ast.Break, ast.Continue)) or (isinstance(x, ast.Return) and (x.value is None or isinstance(x.value, ast.Constant))) for x in stmts) \
            and len(stmts) == 1

    def parse_test(t):
        sense = True
        while isinstance(t, ast.UnaryOp) and isinstance(t.op, ast.Not):
            sense = not sense
            t = t.operand
        if isinstance(t, ast.Name):
            return (t.id, None, sense)
        if isinstance(t, ast.Compare) and len(t.ops) == 1 and isinstance(t.ops[0], (ast.Is, ast.IsNot)) and isinstance(t.left, ast.Name) and isinstance(t.comparators[0], ast.Name):
            return (t.left.id, t.comparators[0].id, sense if isinstance(t.ops[0], ast.Is) else not sense)
        return None

    def innermost(st):
        """(list holding the deciding `if` as its last statement) for a chain of with / try-finally wrappers, else None"""
        cur = st
        for _ in range(4):
            if isinstance(cur, (ast.With, ast.AsyncWith)):
                lst = cur.body
            elif isinstance(cur, ast.Try) and cur.finalbody and not cur.handlers and not cur.orelse:
                lst = cur.body
            else:
                return None
            if not lst:
                return None
            if isinstance(lst[-1], ast.If):
                return lst
            cur = lst[-1]
        return None

    def arm_value(arm, v, sent):
        """outcome of `v` (truthiness) or `v is sent` at the end of the arm: True / False / None (unknown)"""
        binds = [x for x in arm if isinstance(x, ast.Assign) and len(x.targets) == 1 and isinstance(x.targets[0], ast.Name) and x.targets[0].id == v]
        deep = [x for st in arm for x in ast.walk(st) if isinstance(x, ast.Name) and x.id == v and isinstance(x.ctx, (ast.Store, ast.Del))]
        if len(binds) != 1 or len(deep) != 1:
            return None
        val = binds[0].value
        if sent is None:
            if isinstance(val, ast.Constant):
                return bool(val.value)
            return None
        if isinstance(val, ast.Name) and val.id == sent:
            return True
        if isinstance(val, ast.Constant):
            return False
        if sentinel_ok(sent) and not any(isinstance(x, ast.Name) and x.id == sent for x in ast.walk(val)):
            return False
        return None

    def block(body):
        i = 0
        while i + 1 < len(body):
            st, nxt = body[i], body[i + 1]
            done = False
            if isinstance(nxt, ast.If):
                pt = parse_test(nxt.test)
                lst = innermost(st)
                if pt is not None and lst is not None:
                    # the block's exit actions (finally clauses, with items) must leave the tested local alone
                    inner_ids = {id(x) for y in lst for x in ast.walk(y)}
                    if any(isinstance(x, ast.Name) and x.id == pt[0] and isinstance(x.ctx, (ast.Store, ast.Del)) and id(x) not in inner_ids for x in ast.walk(st)):
                        lst = None
                if pt is not None and lst is not None and (leaving(nxt.body) != leaving(nxt.orelse) or (leaving(nxt.body) and not nxt.orelse)):
                    v, sent, sense = pt
                    j = lst[-1]
                    tv = fv = None
                    rebinds = [x for arm in (j.body, j.orelse) for s2 in arm for x in ast.walk(s2) if isinstance(x, ast.Name) and x.id == v and isinstance(x.ctx, (ast.Store, ast.Del))]
                    flagdef = None
                    if sent is None and len(lst) >= 2 and not rebinds:
                        p0 = lst[-2]
                        if isinstance(p0, ast.Assign) and len(p0.targets) == 1 and isinstance(p0.targets[0], ast.Name) and p0.targets[0].id == v \
                                and not any(isinstance(x, (ast.Call, ast.Await, ast.NamedExpr, ast.Yield, ast.YieldFrom)) for x in ast.walk(p0.value)):
                            if ast.dump(p0.value) == ast.dump(j.test):
                                tv, fv, flagdef = True, False, p0
                            elif isinstance(p0.value, ast.UnaryOp) and isinstance(p0.value.op, ast.Not) and ast.dump(p0.value.operand) == ast.dump(j.test):
                                tv, fv, flagdef = False, True, p0
                    if tv is None:
                        tv, fv = arm_value(j.body, v, sent), arm_value(j.orelse, v, sent)
                        # an arm that leaves the local alone keeps what it was bound to on the way in: a constant assigned
                        # at the top level of the block (or just before it), with no store to it in between
                        if (tv is None) != (fv is None) and sent is None:
                            def stores(x):
                                return any(isinstance(y, ast.Name) and y.id == v and isinstance(y.ctx, (ast.Store, ast.Del)) for y in ast.walk(x))
                            incoming = None
                            for prev in list(reversed(lst[:-1])) + list(reversed(body[:i])):
                                if isinstance(prev, ast.Assign) and len(prev.targets) == 1 and isinstance(prev.targets[0], ast.Name) and prev.targets[0].id == v and isinstance(prev.value, ast.Constant):
                                    incoming = bool(prev.value.value)
                                    break
                                if stores(prev):
                                    break
                            quiet = j.orelse if tv is not None else j.body
                            if incoming is not None and not any(stores(x) for x in quiet) and not any(stores(w) for w in [j.test]):
                                if tv is None:
                                    tv = incoming
                                else:
                                    fv = incoming
                    if tv is not None and fv is not None and tv != fv:
                        # outcome of the test `nxt.test` in each arm
                        t_true_arm = j.body if (tv == sense) else j.orelse      # arm in which nxt.test comes out true
                        t_false_arm = j.orelse if (tv == sense) else j.body
                        lv, other = (nxt.body, nxt.orelse) if leaving(nxt.body) else (nxt.orelse, nxt.body)
                        target = t_true_arm if lv is nxt.body else t_false_arm
                        if target is j.orelse and not j.orelse:
                            pass  # (needs an else arm to put the statement into)
                        reads = [x for x in ast.walk(func_node) if isinstance(x, ast.Name) and x.id == v and isinstance(x.ctx, ast.Load)]
                        target.extend(lv)
                        body[i + 1:i + 2] = list(other)
                        if flagdef is not None and len(reads) == 1:
                            lst.remove(flagdef)
                        changed[0] = True
                        done = True
            if not done:
                i += 1
        for st in body:
            for fld in ("body", "orelse", "finalbody"):
                sub = getattr(st, fld, None)
                if isinstance(sub, list) and sub and isinstance(sub[0], ast.stmt) and not isinstance(st, (ast.FunctionDef, ast.AsyncFunctionDef, ast.ClassDef)):
                    block(sub)
            if isinstance(st, ast.Try):
                for h in st.handlers:
                    block(h.body)
    # cheap pre-check
    if not any(isinstance(x, (ast.With, ast.Try)) for x in walk_own(func.node)):
        return func
    func_node = _copy(func.node)
    block(func_node.body)
    if not changed[0]:
        return func
    ast.fix_missing_locations(func_node)
    nf = Func(func.qual, func_node, func.module, func.cls, func.parent)
    nf.inlined_from = list(getattr(func, "inlined_from", []))
    return nf


def attributes_from_constant_getattr(func):
    """`getattr(x, "name")` (two arguments, a constant identifier) is `x.name`.  Exact by the language definition."""
    def hit(c):
        return isinstance(c, ast.Call) and isinstance(c.func, ast.Name) and c.func.id == "getattr" and len(c.args) == 2 and not c.keywords \
            and isinstance(c.args[1], ast.Constant) and isinstance(c.args[1].value, str) and c.args[1].value.isidentifier() and not c.args[1].value.startswith("__")
    if not any(hit(x) for x in walk_own(func.node)) or "getattr" in _bound_names(func.node) or "getattr" in func.params or "getattr" in func.module.globals or "getattr" in func.module.functions:
        return func
    node = _copy(func.node)

    class G(ast.NodeTransformer):
        def visit_FunctionDef(self, n):
            if n is node:
                self.generic_visit(n)
            return n
        visit_AsyncFunctionDef = visit_FunctionDef

        def visit_Lambda(self, n):
            return n

        def visit_Call(self, n):
            self.generic_visit(n)
            if hit(n):
                return ast.copy_location(ast.Attribute(value=n.args[0], attr=n.args[1].value, ctx=ast.Load()), n)
            return n
    G().visit(node)
    ast.fix_missing_locations(node)
    nf = Func(func.qual, node, func.module, func.cls, func.parent)
    nf.inlined_from = list(getattr(func, "inlined_from", []))
    return nf


def split_named_expressions(func):
    """`if (x := E) ...:` -> `x = E; if x ...:` when the assignment expression is the first thing the test evaluates, and
    `while (x := E) ...: B` -> `while True: x = E; if not (x ...): break; B` (no else clause).  Exact: same evaluations,
    same order.  Elsewhere an assignment expression is left alone."""
    if not any(isinstance(x, ast.NamedExpr) for x in walk_own(func.node)):
        return func
    node = _copy(func.node)
    changed = [False]

    def lead(e):
        """(parent, field/index) of a NamedExpr that is evaluated first in e, or None"""
        if isinstance(e, ast.NamedExpr):
            return e
        if isinstance(e, ast.UnaryOp) and isinstance(e.op, ast.Not):
            return lead(e.operand)
        if isinstance(e, ast.BoolOp):
            return lead(e.values[0])
        if isinstance(e, ast.Compare):
            return lead(e.left)
        if isinstance(e, ast.Call) and isinstance(e.func, ast.Attribute):
            return lead(e.func.value)
        if isinstance(e, ast.Attribute):
            return lead(e.value)
        return None

    def replace(e, ne):
        class R(ast.NodeTransformer):
            def visit_NamedExpr(self, n):
                if n is ne:
                    return ast.copy_location(ast.Name(id=ne.target.id, ctx=ast.Load()), n)
                return self.generic_visit(n)
        return R().visit(e)

    def block(body):
        out = []
        for st in body:
            for fld in ("body", "orelse", "finalbody"):
                sub = getattr(st, fld, None)
                if isinstance(sub, list) and sub and isinstance(sub[0], ast.stmt) and not isinstance(st, (ast.FunctionDef, ast.AsyncFunctionDef, ast.ClassDef)):
                    setattr(st, fld, block(sub))
            if isinstance(st, ast.Try):
                for h in st.handlers:
                    h.body = block(h.body)
            if isinstance(st, ast.If):
                pre = []
                for _ in range(4):
                    ne = lead(st.test)
                    if ne is None or not isinstance(ne.target, ast.Name) or pre:
                        break
                    pre.append(ast.copy_location(ast.Assign(targets=[ast.copy_location(ast.Name(id=ne.target.id, ctx=ast.Store()), ne)], value=ne.value, type_comment=None), st))
                    st.test = replace(st.test, ne)
                    changed[0] = True
                out.extend(pre)
                out.append(st)
                continue
            if isinstance(st, ast.While) and not st.orelse:
                ne = lead(st.test)
                if ne is not None and isinstance(ne.target, ast.Name):
                    a = ast.copy_location(ast.Assign(targets=[ast.copy_location(ast.Name(id=ne.target.id, ctx=ast.Store()), ne)], value=ne.value, type_comment=None), st)
                    t = replace(st.test, ne)
                    g0 = ast.copy_location(ast.If(test=ast.copy_location(ast.UnaryOp(op=ast.Not(), operand=t), t), body=[ast.copy_location(ast.Break(), st)], orelse=[]), st)
                    st.test = ast.copy_location(ast.Constant(value=True), st)
                    st.body = [a, g0] + st.body
                    changed[0] = True
            out.append(st)
        return out
    node.body = block(node.body)
    if not changed[0]:
        return func
    ast.fix_missing_locations(node)
    nf = Func(func.qual, node, func.module, func.cls, func.parent)
    nf.inlined_from = list(getattr(func, "inlined_from", []))
    return nf


def split_boolop_assignments(func):
    """`T = A and B` with A a membership / identity test over plain names and constants (it yields exactly True or False
    and evaluating it has no effect) -> `if A: T = B  else: T = False`.  Exact; makes A visible as the guard of B."""
    def simple_test(a):
        return isinstance(a, ast.Compare) and len(a.ops) == 1 and isinstance(a.ops[0], (ast.In, ast.NotIn, ast.Is, ast.IsNot)) \
            and all(isinstance(x, (ast.Name, ast.Constant)) for x in [a.left] + a.comparators)

    def hit(st):
        return isinstance(st, ast.Assign) and len(st.targets) == 1 and isinstance(st.value, ast.BoolOp) and isinstance(st.value.op, ast.And) and len(st.value.values) == 2 \
            and simple_test(st.value.values[0]) and (isinstance(st.targets[0], ast.Name) or (isinstance(st.targets[0], ast.Attribute) and _simple(st.targets[0].value)))
    if not any(hit(x) for x in walk_own(func.node)):
        return func
    node = _copy(func.node)

    def block(body):
        out = []
        for st in body:
            if hit(st):
                a, b = st.value.values
                yes = ast.copy_location(ast.Assign(targets=[_copy(st.targets[0])], value=b, type_comment=None), st)
                no = ast.copy_location(ast.Assign(targets=[_copy(st.targets[0])], value=ast.copy_location(ast.Constant(value=False), st), type_comment=None), st)
                out.append(ast.copy_location(ast.If(test=a, body=[yes], orelse=[no]), st))
                continue
            for fld in ("body", "orelse", "finalbody"):
                sub = getattr(st, fld, None)
                if isinstance(sub, list) and sub and isinstance(sub[0], ast.stmt) and not isinstance(st, (ast.FunctionDef, ast.AsyncFunctionDef, ast.ClassDef)):
                    setattr(st, fld, block(sub))
            if isinstance(st, ast.Try):
                for h in st.handlers:
                    h.body = block(h.body)
            out.append(st)
        return out
    node.body = block(node.body)
    ast.fix_missing_locations(node)
    nf = Func(func.qual, node, func.module, func.cls, func.parent)
    nf.inlined_from = list(getattr(func, "inlined_from", []))
    return nf


def drop_self_assignments(func):
    """`x = x` for a plain local name (left behind when an inlined helper returns its own parameter): no effect."""
    def is_self(st):
        return isinstance(st, ast.Assign) and len(st.targets) == 1 and isinstance(st.targets[0], ast.Name) and isinstance(st.value, ast.Name) and st.targets[0].id == st.value.id
    if not any(is_self(x) for x in walk_own(func.node)):
        return func
    node = _copy(func.node)

    def block(body, must_keep_one):
        out = []
        for st in body:
            if is_self(st):
                continue
            for fld in ("body", "orelse", "finalbody"):
                sub = getattr(st, fld, None)
                if isinstance(sub, list) and sub and isinstance(sub[0], ast.stmt) and not isinstance(st, (ast.FunctionDef, ast.AsyncFunctionDef, ast.ClassDef)):
                    setattr(st, fld, block(sub, fld == "body"))
            if isinstance(st, ast.Try):
                for h in st.handlers:
                    h.body = block(h.body, True)
            out.append(st)
        if not out and must_keep_one:
            out = [ast.Pass()]
        return out
    node.body = block(node.body, True)
    ast.fix_missing_locations(node)
    nf = Func(func.qual, node, func.module, func.cls, func.parent)
    nf.inlined_from = list(getattr(func, "inlined_from", []))
    return nf


def split_tuple_assignments(func):
    """`a, b = x, y` with plain names / constants on the right that are none of the targets -> `a = x; b = y`
    (no element of the right side can be changed by the earlier stores).  Exact."""
    def ok(st):
        if not (isinstance(st, ast.Assign) and len(st.targets) == 1 and isinstance(st.targets[0], ast.Tuple) and isinstance(st.value, ast.Tuple)):
            return False
        ts, vs = st.targets[0].elts, st.value.elts
        if len(ts) != len(vs) or not all(isinstance(t, ast.Name) for t in ts) or not all(isinstance(v, (ast.Name, ast.Constant)) for v in vs):
            return False
        tn = {t.id for t in ts}
        return len(tn) == len(ts) and not any(isinstance(v, ast.Name) and v.id in tn for v in vs)
    if not any(ok(x) for x in walk_own(func.node)):
        return func
    node = _copy(func.node)

    def block(body):
        out = []
        for st in body:
            if ok(st):
                for t, v in zip(st.targets[0].elts, st.value.elts):
                    out.append(ast.copy_location(ast.Assign(targets=[t], value=v, type_comment=None), st))
                continue
            for fld in ("body", "orelse", "finalbody"):
                sub = getattr(st, fld, None)
                if isinstance(sub, list) and sub and isinstance(sub[0], ast.stmt) and not isinstance(st, (ast.FunctionDef, ast.AsyncFunctionDef, ast.ClassDef)):
                    setattr(st, fld, block(sub))
            if isinstance(st, ast.Try):
                for h in st.handlers:
                    h.body = block(h.body)
            out.append(st)
        return out
    node.body = block(node.body)
    ast.fix_missing_locations(node)
    nf = Func(func.qual, node, func.module, func.cls, func.parent)
    nf.inlined_from = list(getattr(func, "inlined_from", []))
    return nf


def unroll_literal_loops(func):
    """`for a, b in ((x1, y1), (x2, y2)): BODY` over a literal tuple / list of at most four rows whose entries are plain
    names or constants -> BODY[x1, y1]; BODY[x2, y2].  Exact when BODY holds no break / continue of this loop, binds none
    of the loop variables nor of the names in the rows, the loop has no else and the loop variables are read nowhere
    else in the function (a table-driven spelling of a sequence of checks)."""
    def rows(st):
        if not (isinstance(st, ast.For) and not st.orelse and isinstance(st.iter, (ast.Tuple, ast.List)) and 1 <= len(st.iter.elts) <= 4):
            return None
        if isinstance(st.target, ast.Name):
            tv = [st.target.id]
        elif isinstance(st.target, ast.Tuple) and all(isinstance(t, ast.Name) for t in st.target.elts):
            tv = [t.id for t in st.target.elts]
        else:
            return None
        out = []
        for r in st.iter.elts:
            cells = [r] if isinstance(st.target, ast.Name) else (list(r.elts) if isinstance(r, (ast.Tuple, ast.List)) else None)
            if cells is None or len(cells) != len(tv) or not all(isinstance(c, (ast.Name, ast.Constant)) for c in cells):
                return None
            out.append(cells)
        body_nodes = [n for b in st.body for n in ast.walk(b)]
        if any(isinstance(n, (ast.Break, ast.Continue, ast.FunctionDef, ast.AsyncFunctionDef, ast.Lambda, ast.ClassDef, ast.Yield, ast.YieldFrom)) for n in body_nodes):
            return None
        stored = {n.id for n in body_nodes if isinstance(n, ast.Name) and isinstance(n.ctx, (ast.Store, ast.Del))}
        used = {c.id for r in out for c in r if isinstance(c, ast.Name)}
        if stored & (set(tv) | used) or len(set(tv)) != len(tv):
            return None
        return tv, out

    cands = [x for x in walk_own(func.node) if rows(x)]
    if not cands:
        return func
    # the loop variables are read nowhere outside their loop
    for st in cands:
        tv, _ = rows(st)
        for v in tv:
            inside = {id(n) for c in cands if v in rows(c)[0] for n in ast.walk(c)}  # every such loop binds it afresh
            if any(isinstance(n, ast.Name) and n.id == v and id(n) not in inside for n in ast.walk(func.node)):
                return func
    node = _copy(func.node)

    def block(body):
        out = []
        for st in body:
            for fld in ("body", "orelse", "finalbody"):
                sub = getattr(st, fld, None)
                if isinstance(sub, list) and sub and isinstance(sub[0], ast.stmt) and not isinstance(st, (ast.FunctionDef, ast.AsyncFunctionDef, ast.ClassDef)):
                    setattr(st, fld, block(sub))
            if isinstance(st, ast.Try):
                for h in st.handlers:
                    h.body = block(h.body)
            r = rows(st)
            if r is None:
                out.append(st)
                continue
            tv, rws = r
            for cells in rws:
                env = dict(zip(tv, cells))

                class S(ast.NodeTransformer):
                    def visit_Name(self, n):
                        if isinstance(n.ctx, ast.Load) and n.id in env:
                            return ast.copy_location(_copy(env[n.id]), n)
                        return n
                for b in st.body:
                    out.append(S().visit(_copy(b)))
        return out
    node.body = block(node.body)
    ast.fix_missing_locations(node)
    nf = Func(func.qual, node, func.module, func.cls, func.parent)
    nf.inlined_from = list(getattr(func, "inlined_from", []))
    return nf


def comprehensions_from_append_loops(func, keep_names=()):
    """`acc = []` immediately followed by `for x in XS: acc.append(E)` (optionally under one `if C:`), where neither acc
    nor the reference tree's names are involved otherwise: `acc = [E for x in XS if C]`.  Exact when the loop variable is
    not read after the loop (a comprehension does not leak it) and E / C / XS do not mention acc."""
    keep = set(keep_names)

    def match(a, b, after):
        if not (isinstance(a, ast.Assign) and len(a.targets) == 1 and isinstance(a.targets[0], ast.Name) and isinstance(a.value, ast.List) and not a.value.elts):
            return None
        acc = a.targets[0].id
        if acc in keep or not (isinstance(b, ast.For) and not b.orelse and isinstance(b.target, ast.Name) and len(b.body) == 1):
            return None
        inner, cond = b.body[0], None
        if isinstance(inner, ast.If) and not inner.orelse and len(inner.body) == 1:
            cond, inner = inner.test, inner.body[0]
        if not (isinstance(inner, ast.Expr) and isinstance(inner.value, ast.Call) and isinstance(inner.value.func, ast.Attribute) and inner.value.func.attr == "append"
                and isinstance(inner.value.func.value, ast.Name) and inner.value.func.value.id == acc and len(inner.value.args) == 1 and not inner.value.keywords):
            return None
        elt = inner.value.args[0]
        for e in [elt, b.iter] + ([cond] if cond is not None else []):
            if any(isinstance(x, ast.Name) and x.id == acc for x in ast.walk(e)) or any(isinstance(x, (ast.Yield, ast.YieldFrom, ast.Await, ast.NamedExpr)) for x in ast.walk(e)):
                return None
        lv = b.target.id
        inside = {id(x) for x in ast.walk(b)}
        if lv in keep or any(isinstance(x, ast.Name) and x.id == lv and id(x) not in inside for st in after for x in ast.walk(st)):
            return None
        comp = ast.ListComp(elt=elt, generators=[ast.comprehension(target=b.target, iter=b.iter, ifs=[cond] if cond is not None else [], is_async=0)])
        return ast.copy_location(ast.Assign(targets=a.targets, value=ast.copy_location(comp, b), type_comment=None), a)
    hit = [False]

    def block(body, after_outer, in_try=False):
        out = []
        i = 0
        while i < len(body):
            st = body[i]
            if i + 1 < len(body) and not in_try:
                # (inside a try an exception raised half-way leaves the accumulator partly filled in one form and
                # untouched in the other: a handler could tell)
                m = match(st, body[i + 1], body[i + 2:] + after_outer)
                if m is not None:
                    out.append(m)
                    hit[0] = True
                    i += 2
                    continue
            for fld in ("body", "orelse", "finalbody"):
                sub = getattr(st, fld, None)
                if isinstance(sub, list) and sub and isinstance(sub[0], ast.stmt) and not isinstance(st, (ast.FunctionDef, ast.AsyncFunctionDef, ast.ClassDef)):
                    # inside a loop the statements before also run "after" (next iteration): be conservative
                    aft = body[i + 1:] + after_outer + ([st] if isinstance(st, (ast.For, ast.While)) else [])
                    setattr(st, fld, block(sub, aft, in_try or isinstance(st, ast.Try)))
            if isinstance(st, ast.Try):
                for h in st.handlers:
                    h.body = block(h.body, body[i + 1:] + after_outer, True)
            out.append(st)
            i += 1
        return out
    if not any(isinstance(x, ast.For) for x in walk_own(func.node)):
        return func
    node = _copy(func.node)
    node.body = block(node.body, [])
    if not hit[0]:
        return func
    ast.fix_missing_locations(node)
    nf = Func(func.qual, node, func.module, func.cls, func.parent)
    nf.inlined_from = list(getattr(func, "inlined_from", []))
    return nf


def loops_from_primed(func):
    """`x = E; while x: BODY; x = E` (the same E, x bound nowhere else in the loop, no continue, no else) ->
    `while True: x = E; if not x: break; BODY`.  Exact: E and the test are evaluated at the same points."""
    def match(a, w):
        if not (isinstance(a, ast.Assign) and len(a.targets) == 1 and isinstance(a.targets[0], ast.Name) and isinstance(w, ast.While) and not w.orelse
                and isinstance(w.test, ast.Name) and w.test.id == a.targets[0].id and len(w.body) >= 2):
            return False
        x = a.targets[0].id
        last = w.body[-1]
        if not (isinstance(last, ast.Assign) and len(last.targets) == 1 and isinstance(last.targets[0], ast.Name) and last.targets[0].id == x and ast.dump(last.value) == ast.dump(a.value)):
            return False
        if any(isinstance(b, ast.Continue) for b in _own_breaks(w)):
            return False
        for st in w.body[:-1]:
            if any(isinstance(n, ast.Name) and n.id == x and isinstance(n.ctx, (ast.Store, ast.Del)) for n in ast.walk(st)):
                return False
        return True
    found = [False]

    def block(body):
        out = []
        i = 0
        while i < len(body):
            st = body[i]
            if i + 1 < len(body) and match(st, body[i + 1]):
                w = body[i + 1]
                x = st.targets[0].id
                g0 = ast.copy_location(ast.If(test=ast.copy_location(ast.UnaryOp(op=ast.Not(), operand=ast.copy_location(ast.Name(id=x, ctx=ast.Load()), w.test)), w.test),
                                              body=[ast.copy_location(ast.Break(), w)], orelse=[]), w)
                w.body = [st, g0] + block(w.body[:-1])
                w.test = ast.copy_location(ast.Constant(value=True), w.test)
                out.append(w)
                found[0] = True
                i += 2
                continue
            for fld in ("body", "orelse", "finalbody"):
                sub = getattr(st, fld, None)
                if isinstance(sub, list) and sub and isinstance(sub[0], ast.stmt) and not isinstance(st, (ast.FunctionDef, ast.AsyncFunctionDef, ast.ClassDef)):
                    setattr(st, fld, block(sub))
            if isinstance(st, ast.Try):
                for h in st.handlers:
                    h.body = block(h.body)
            out.append(st)
            i += 1
        return out
    if not any(isinstance(x, ast.While) for x in walk_own(func.node)):
        return func
    node = _copy(func.node)
    node.body = block(node.body)
    if not found[0]:
        return func
    ast.fix_missing_locations(node)
    nf = Func(func.qual, node, func.module, func.cls, func.parent)
    nf.inlined_from = list(getattr(func, "inlined_from", []))
    return nf


def _nnf(e, neg):
    """Negations pushed to the leaves of the and/or structure (as a *test*: `not not x` and `x` decide alike; comparisons
    are left as they are, under a `not` where needed - no assumption about the operands)."""
    if isinstance(e, ast.UnaryOp) and isinstance(e.op, ast.Not):
        return _nnf(e.operand, not neg)
    if isinstance(e, ast.BoolOp):
        op = e.op
        if neg:
            op = ast.Or() if isinstance(e.op, ast.And) else ast.And()
        vals = []
        for v in e.values:
            x = _nnf(v, neg)
            if isinstance(x, ast.BoolOp) and type(x.op) is type(op):
                vals.extend(x.values)
            else:
                vals.append(x)
        return ast.copy_location(ast.BoolOp(op=op, values=vals), e)
    if neg:
        return ast.copy_location(ast.UnaryOp(op=ast.Not(), operand=e), e)
    return e


def loops_from_leading_breaks(func):
    """`while True:` (no else) whose body starts with `if X: break` (no else arm): the guard is the loop test.  Several
    leading guards chain with `and`.  Exact: the test is evaluated at the same points, and a loop without else clause
    behaves the same whether it is left by break or by its test."""
    def is_true(t):
        return isinstance(t, ast.Constant) and t.value is True

    def guard(st):
        return isinstance(st, ast.If) and not st.orelse and len(st.body) == 1 and isinstance(st.body[0], ast.Break)
    if not any(isinstance(w, ast.While) and is_true(w.test) and not w.orelse and w.body and guard(w.body[0]) for w in walk_own(func.node)):
        return func
    node = _copy(func.node)
    for w in walk_own(node):
        if isinstance(w, ast.While) and is_true(w.test) and not w.orelse:
            tests = []
            while len(w.body) > 1 and guard(w.body[0]):
                g0 = w.body.pop(0)
                tests.append(ast.copy_location(ast.UnaryOp(op=ast.Not(), operand=g0.test), g0.test))
            if tests:
                t = tests[0] if len(tests) == 1 else ast.copy_location(ast.BoolOp(op=ast.And(), values=tests), tests[0])
                w.test = _nnf(t, False)
    ast.fix_missing_locations(node)
    nf = Func(func.qual, node, func.module, func.cls, func.parent)
    nf.inlined_from = list(getattr(func, "inlined_from", []))
    return nf


# ---------------------------------------------------------------------------
# loop-exit flags:   done = False; while not done: ...; done = True   ->   while True: ...; break
# ---------------------------------------------------------------------------
def flags_to_breaks(func):
    """A local that only says 'leave this loop at the next test' is replaced by
    `break`.  Conditions (all syntactic / on the CFG of the function):
      * the local is bound to False once, before a `while` whose test is
        `not flag` (alone or as a conjunct with call-free other conjuncts),
        and otherwise only bound to True inside that loop; it is not read
        outside the loop; the loop has no else;
      * from every `flag = True` to the loop head only tests of the flag itself
        (taken as true), joins and with-exits are passed - i.e. nothing else
        runs in that iteration once the flag is set.
    Then setting the flag and breaking are the same thing."""
    from .cfg import CFG
    fn0 = func.node
    cands = {}
    for n in walk_own(fn0):
        if isinstance(n, ast.Assign) and len(n.targets) == 1 and isinstance(n.targets[0], ast.Name) and isinstance(n.value, ast.Constant) and isinstance(n.value.value, bool):
            cands.setdefault(n.targets[0].id, []).append(n.value.value)
    cands = {k for k, v in cands.items() if v.count(False) == 1 and v.count(True) >= 1}
    if not cands:
        return func
    node = _copy(fn0)
    changed = False
    for flag in sorted(cands):
        binds = [n for n in walk_own(node) if isinstance(n, ast.Name) and n.id == flag and isinstance(n.ctx, (ast.Store, ast.Del))]
        assigns = [n for n in walk_own(node) if isinstance(n, ast.Assign) and len(n.targets) == 1 and isinstance(n.targets[0], ast.Name) and n.targets[0].id == flag]
        if len(binds) != len(assigns) or any(not (isinstance(a.value, ast.Constant) and isinstance(a.value.value, bool)) for a in assigns):
            continue
        if any(isinstance(a, ast.arg) and a.arg == flag for a in ast.walk(node)):
            continue
        init = [a for a in assigns if a.value.value is False]
        sets = [a for a in assigns if a.value.value is True]
        if len(init) != 1 or not sets:
            continue
        # the loop: a While whose test has the conjunct `not flag`, containing all the sets, following init in one block
        loop = None
        for w in walk_own(node):
            if isinstance(w, ast.While) and not w.orelse:
                conj = w.test.values if isinstance(w.test, ast.BoolOp) and isinstance(w.test.op, ast.And) else [w.test]
                nf_ = [c for c in conj if isinstance(c, ast.UnaryOp) and isinstance(c.op, ast.Not) and isinstance(c.operand, ast.Name) and c.operand.id == flag]
                rest = [c for c in conj if c not in nf_]
                if len(nf_) == 1 and not any(isinstance(y, (ast.Call, ast.Await, ast.NamedExpr)) for c in rest for y in ast.walk(c)) \
                        and all(any(y is a for y in ast.walk(w)) for a in sets) and not any(y is init[0] for y in ast.walk(w)):
                    loop = (w, nf_[0], rest)
        if loop is None:
            continue
        w, notflag, rest = loop
        # init and the loop in the same block, init first
        ok = False
        for blk in ast.walk(node):
            for fld in ("body", "orelse", "finalbody"):
                sub = getattr(blk, fld, None)
                if isinstance(sub, list) and init[0] in sub and w in sub and sub.index(init[0]) < sub.index(w):
                    ok = True
        if not ok:
            continue
        # no read of the flag outside the loop
        reads_out = [n for n in ast.walk(node) if isinstance(n, ast.Name) and n.id == flag and isinstance(n.ctx, ast.Load) and not any(y is n for y in ast.walk(w))]
        if reads_out:
            continue
        # a break must bind to this loop: the sets are not inside a nested loop of w
        nested = False
        for lp in ast.walk(w):
            if lp is not w and isinstance(lp, (ast.While, ast.For)) and any(y is a for a in sets for y in ast.walk(lp)):
                nested = True
        if nested:
            continue
        try:
            g = CFG(node, "?")
        except Exception:
            continue
        heads = [n for n in g.nodes if n.kind == "join" and n.label == "loop_head"]
        # the head of w: the join from which w's first test is reached
        wtests = [n for n in g.nodes if n.kind == "test" and n.stmt is w]
        whead = [h for h in heads if any(s is t for t in wtests for (s, _) in h.succ)]
        if not whead:
            continue
        inert = True
        for a in sets:
            for an in g.nodes_of(a):
                stack = [s for (s, l) in an.succ if l != "exc"]
                seen = set()
                while stack and inert:
                    x = stack.pop()
                    if x.id in seen or x is whead[0]:
                        continue
                    seen.add(x.id)
                    if x.kind in ("join", "with_exit"):
                        stack.extend(s for (s, l) in x.succ if l != "exc")
                    elif x.kind == "test" and isinstance(x.ast, ast.Name) and x.ast.id == flag:
                        # flag is True here: follow the true outcome only
                        stack.extend(s for (s, l) in x.succ if s.kind == "branch" and s.polarity is True)
                    elif x.kind == "branch" and isinstance(x.ast, ast.Name) and x.ast.id == flag:
                        stack.extend(s for (s, l) in x.succ if l != "exc")
                    else:
                        inert = False
        if not inert:
            continue
        # rewrite
        class R(ast.NodeTransformer):
            def visit_Assign(self, n2):
                if n2 in sets:
                    return ast.copy_location(ast.Break(), n2)
                if n2 is init[0]:
                    return None
                return n2

            def visit_Name(self, n2):
                if n2.id == flag and isinstance(n2.ctx, ast.Load):
                    return ast.copy_location(ast.Constant(value=False), n2)
                return n2

            def visit_FunctionDef(self, n2):
                if n2 is node:
                    self.generic_visit(n2)
                return n2
        w.test = ast.copy_location(ast.Constant(value=True), w.test) if not rest else (rest[0] if len(rest) == 1 else ast.copy_location(ast.BoolOp(op=ast.And(), values=rest), w.test))
        R().visit(node)
        node = _fold_constant_tests(node)
        changed = True
    if not changed:
        return func
    ast.fix_missing_locations(node)
    nf = Func(func.qual, node, func.module, func.cls, func.parent)
    nf.inlined_from = list(getattr(func, "inlined_from", []))
    return nf


def _boolean_ifexp_in_tests(node):
    """In test position (`if` / `while` / the operand of `not`, `and`, `or` there) a conditional expression with a constant
    truth value in one arm is the connective it spells: `False if C else X` -> `not C and X`, `True if C else X` ->
    `C or X`, `X if C else False` -> `C and X`, `X if C else True` -> `not C or X`.  Same sub-expressions, same order of
    evaluation, same truth value (only the truth value is used in a test).  Left behind by ladder helpers expanded as
    expressions (`if a: return False; return b`)."""
    def cb(e):
        return e.value if isinstance(e, ast.Constant) and isinstance(e.value, bool) else None

    def neg(e):
        return ast.copy_location(ast.UnaryOp(op=ast.Not(), operand=e), e)

    def conv(t):
        if isinstance(t, ast.UnaryOp) and isinstance(t.op, ast.Not):
            t.operand = conv(t.operand)
            return t
        if isinstance(t, ast.BoolOp):
            t.values = [conv(v) for v in t.values]
            return t
        if isinstance(t, ast.IfExp):
            b, o = cb(t.body), cb(t.orelse)
            c = conv(t.test)
            if b is False and o is None:
                return ast.copy_location(ast.BoolOp(op=ast.And(), values=[neg(c), conv(t.orelse)]), t)
            if b is True and o is None:
                return ast.copy_location(ast.BoolOp(op=ast.Or(), values=[c, conv(t.orelse)]), t)
            if o is False and b is None:
                return ast.copy_location(ast.BoolOp(op=ast.And(), values=[c, conv(t.body)]), t)
            if o is True and b is None:
                return ast.copy_location(ast.BoolOp(op=ast.Or(), values=[neg(c), conv(t.body)]), t)
        return t
    for n in ast.walk(node):
        if isinstance(n, (ast.If, ast.While)):
            n.test = conv(n.test)
    return node


def _fold_constant_tests(node):
    """if <not False / not True / True / False>: ... -> the arm that runs."""
    def truth(t):
        if isinstance(t, ast.Constant) and isinstance(t.value, bool):
            return t.value
        if isinstance(t, ast.UnaryOp) and isinstance(t.op, ast.Not):
            v = truth(t.operand)
            return None if v is None else (not v)
        return None

    def block(body):
        out = []
        for s in body:
            for fld in ("body", "orelse", "finalbody"):
                sub = getattr(s, fld, None)
                if isinstance(sub, list) and sub and isinstance(sub[0], ast.stmt) and not isinstance(s, (ast.FunctionDef, ast.AsyncFunctionDef, ast.ClassDef)):
                    setattr(s, fld, block(sub))
            if isinstance(s, ast.Try):
                for h in s.handlers:
                    h.body = block(h.body) or [ast.copy_location(ast.Pass(), h)]
            if isinstance(s, ast.If):
                v = truth(s.test)
                if v is True:
                    out.extend(s.body)
                    continue
                if v is False:
                    out.extend(s.orelse)
                    continue
            out.append(s)
        return out
    node.body = block(node.body) or [ast.Pass()]
    for n in ast.walk(node):
        for fld in ("body",):
            sub = getattr(n, fld, None)
            if isinstance(sub, list) and not sub and isinstance(n, (ast.If, ast.For, ast.While, ast.With, ast.Try, ast.ExceptHandler)):
                sub.append(ast.Pass())
    return node
