"""Self-test of the checkers (thorough tier): in-memory variants of /repo's
current sources.  A *mutant* breaks one instance and must add at least one
violation (relative to the verdict on the current tree); a *benign twin*
rewrites a construct equivalently and must leave the verdict unchanged.
A self-test failure is an ANALYSIS-ERROR (the checker is not to be believed),
never a VIOLATION."""
from __future__ import annotations

import multiprocessing
import os


class V:
    def __init__(self, name, kind, patches, expect=None):
        self.name = name
        self.kind = kind  # 'mutant' | 'twin'
        self.patches = patches  # [(path, old, new)] or [(path, old, new, count)]
        self.expect = expect  # substring expected in a new violation's rule/key/msg


def M(name, path, old, new, expect=None):
    return V(name, "mutant", [(path, old, new)], expect)


def T(name, path, old, new):
    return V(name, "twin", [(path, old, new)])


def apply(sources, v):
    out = dict(sources)
    for p in v.patches:
        path, old, new = p[0], p[1], p[2]
        full = path if path in out else "src/waitress/" + path
        if full not in out:
            return None
        if out[full].count(old) != 1:
            return None
        out[full] = out[full].replace(old, new)
    return out


def _run_variant(args):
    prop, sources, vname, kind = args
    from .__main__ import run_property
    from .model import AnalysisError, Program

    try:
        prog = Program(sources)
        code, rep = run_property(prop, prog, "quick", quiet=True, write=False)
    except AnalysisError as e:
        return vname, kind, None, ["load: %s" % e]
    vio = [(v["rule"], v["key"], v["msg"]) for v in rep.violations]
    errs = ["%s: %s" % e for e in rep.errors]
    return vname, kind, vio, errs


def run_selftest(prop, mod, program, rep):
    rid = prop + ".selftest"
    variants = list(mod.selftest)
    rep.rule(rid, "checker self-test: mutants must add a violation, benign twins must not change the verdict")
    base_vio = {(v["rule"], v["key"]) for v in rep.violations}
    jobs = []
    skipped = []
    for v in variants:
        src = apply(program.sources, v)
        if src is None:
            skipped.append(v.name)
            continue
        jobs.append((prop, src, v.name, v.kind))
    byname = {v.name: v for v in variants}
    nproc = min(16, max(1, len(jobs)))
    if jobs:
        with multiprocessing.Pool(nproc) as pool:
            results = pool.map(_run_variant, jobs)
    else:
        results = []
    table = []
    for vname, kind, vio, errs in results:
        v = byname[vname]
        if vio is None:
            rep.error(rid, "variant %s could not be analysed: %s" % (vname, errs))
            continue
        new = [x for x in vio if (x[0], x[1]) not in base_vio]
        if kind == "mutant":
            hit = [x for x in new if v.expect is None or v.expect in (x[0] + " " + x[1] + " " + x[2])]
            if hit:
                rep.ok(rid, "mutant %s detected: %s %s" % (vname, hit[0][0], hit[0][1]))
                table.append({"variant": vname, "kind": kind, "result": "detected", "by": "%s %s" % (hit[0][0], hit[0][1])})
            elif errs and not new:
                rep.ok(rid, "mutant %s refused as unanalysable (exit 2): %s" % (vname, errs[0][:120]))
                table.append({"variant": vname, "kind": kind, "result": "analysis-error", "by": errs[0][:200]})
            else:
                rep.error(rid, "mutant %s NOT detected (new violations: %s)" % (vname, new[:2]))
                table.append({"variant": vname, "kind": kind, "result": "MISSED"})
        else:
            gone = [k for k in base_vio if k not in {(x[0], x[1]) for x in vio}]
            if new or errs or gone:
                rep.error(rid, "benign twin %s changed the verdict: new=%s errors=%s gone=%s" % (vname, new[:2], errs[:1], gone[:1]))
                table.append({"variant": vname, "kind": kind, "result": "FALSE-ALARM"})
            else:
                rep.ok(rid, "benign twin %s leaves the verdict unchanged" % vname)
                table.append({"variant": vname, "kind": kind, "result": "silent"})
    for s in skipped:
        table.append({"variant": s, "kind": byname[s].kind, "result": "skipped (patch anchor not present in current source)"})
    rep.note("selftest", table)
    rep.note("selftest_skipped", skipped)
