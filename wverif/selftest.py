"""Self-test of the checkers (thorough tier): in-memory variants of /repo's
current sources.  A *mutant* breaks one instance and must add at least one
violation (relative to the verdict on the current tree); a *benign twin*
rewrites a construct equivalently and must leave the verdict unchanged.
A self-test failure is an ANALYSIS-ERROR (the checker is not to be believed),
never a VIOLATION."""
from __future__ import annotations

import multiprocessing
import os


class V:
    def __init__(self, name, kind, patches, expect=None):
        self.name = name
        self.kind = kind  # 'mutant' | 'twin'
        self.patches = patches  # [(path, old, new)] or [(path, old, new, count)]
        self.expect = expect  # substring expected in a new violation's rule/key/msg


def M(name, path, old, new, expect=None):
    return V(name, "mutant", [(path, old, new)], expect)


def T(name, path, old, new):
    return V(name, "twin", [(path, old, new)])


def D(name, kind, difftext, expect=None):
    """Variant given as a unified diff (a kept seed or a benign refactoring)."""
    return V(name, kind, [("@diff", difftext, None)], expect)


def apply_diff(sources, text):
    """Apply a unified diff to the in-memory sources; None if a hunk does not fit."""
    import re
    out = dict(sources)
    cur = None
    hunks = {}
    lines = text.splitlines()
    i = 0
    while i < len(lines):
        ln = lines[i]
        if ln.startswith("+++ "):
            path = ln[4:].split("\t")[0].strip()
            if path.startswith("b/"):
                path = path[2:]
            cur = path
            hunks.setdefault(cur, [])
        elif ln.startswith("@@") and cur is not None:
            m = re.match(r"@@ -(\d+)(?:,(\d+))? \+(\d+)(?:,(\d+))? @@", ln)
            if not m:
                return None
            old, new = [], []
            i += 1
            while i < len(lines) and not lines[i].startswith(("@@", "diff --git", "--- ")):
                h = lines[i]
                if h.startswith("\\"):
                    pass
                elif h.startswith("+"):
                    new.append(h[1:])
                elif h.startswith("-"):
                    old.append(h[1:])
                else:
                    old.append(h[1:] if h.startswith(" ") else h)
                    new.append(h[1:] if h.startswith(" ") else h)
                i += 1
            hunks[cur].append((int(m.group(1)), old, new))
            continue
        i += 1
    for path, hs in hunks.items():
        if path == "/dev/null" or not hs:
            continue
        if path not in out and not (path.startswith("src/waitress/") and path.endswith(".py")):
            continue  # tests / packaging files are not part of the analysed program
        if path not in out:
            # new file
            if all(not h[1] for h in hs):
                out[path] = "\n".join(sum((h[2] for h in hs), [])) + "\n"
                continue
            return None
        src = out[path].split("\n")
        delta = 0
        for (start, old, new) in hs:
            pos = start - 1 + delta
            cands = [pos] + [pos + d for k in range(1, 60) for d in (k, -k)]
            hit = None
            for c in cands:
                if 0 <= c <= len(src) - len(old) and src[c:c + len(old)] == old:
                    hit = c
                    break
            if hit is None:
                return None
            src[hit:hit + len(old)] = new
            delta += len(new) - len(old) + (hit - pos)
        out[path] = "\n".join(src)
    return out


def apply(sources, v):
    out = dict(sources)
    for p in v.patches:
        if p[0] == "@diff":
            out = apply_diff(out, p[1])
            if out is None:
                return None
            continue
        path, old, new = p[0], p[1], p[2]
        full = path if path in out else "src/waitress/" + path
        if full not in out:
            return None
        if out[full].count(old) != 1:
            return None
        out[full] = out[full].replace(old, new)
    return out


_EXP = None


def _expectations():
    global _EXP
    if _EXP is None:
        import json
        root = os.path.dirname(os.path.dirname(os.path.abspath(__file__)))
        try:
            with open(os.path.join(root, "benign", "expectations.json"), encoding="utf-8") as fh:
                _EXP = json.load(fh)
        except OSError:
            _EXP = {}
    return _EXP


def corpus_variants(prop):
    """The kept corpora as variants: every confirmed seed of this property
    (/verif/seeded/<prop>-*/patch.diff, must be detected) and every confirmed
    behaviour-preserving refactoring (/verif/benign/*.diff, must stay silent)."""
    root = os.path.dirname(os.path.dirname(os.path.abspath(__file__)))
    out = []
    sd = os.path.join(root, "seeded")
    if os.path.isdir(sd):
        for d in sorted(os.listdir(sd)):
            pth = os.path.join(sd, d, "patch.diff")
            if d.split("-")[0] == prop and os.path.isfile(pth):
                meta = os.path.join(sd, d, "meta.json")
                if os.path.isfile(meta) and '"status": "obsolete' in open(meta, encoding="utf-8").read():
                    continue  # overtaken by a later fix: in meta.json
                with open(pth, encoding="utf-8") as fh:
                    out.append(D("seed:" + d, "mutant", fh.read()))
    bd = os.path.join(root, "benign")
    if os.path.isdir(bd):
        for fn in sorted(os.listdir(bd)):
            if fn.endswith(".diff"):
                with open(os.path.join(bd, fn), encoding="utf-8") as fh:
                    out.append(D("benign:" + fn[:-5], "twin", fh.read()))
    return out


def _run_variant(args):
    prop, sources, vname, kind = args
    from .__main__ import run_property
    from .model import AnalysisError, Program

    try:
        prog = Program(sources)
        code, rep = run_property(prop, prog, "quick", quiet=True, write=False)
    except AnalysisError as e:
        return vname, kind, None, ["load: %s" % e]
    vio = [(v["rule"], v["key"], v["msg"]) for v in rep.violations]
    errs = ["%s: %s" % e for e in rep.errors]
    return vname, kind, vio, errs


def run_selftest(prop, mod, program, rep):
    rid = prop + ".selftest"
    # corpus variants that cannot matter for this property are left out: a patch is relevant when it touches a file in
    # which this property's baseline run discharged (or failed) an obligation
    files = set()
    for o in list(rep.obligations) + list(rep.violations):
        loc = o.get("loc") or ""
        if loc.startswith("src/waitress/"):
            files.add(loc.split(":")[0])
    corpus = corpus_variants(prop)
    if files:
        import re as _re
        kept = []
        for v in corpus:
            touched = set(_re.findall(r"^\+\+\+ b/(\S+)", v.patches[0][1], _re.M))
            if touched & files or v.name.startswith("seed:"):
                kept.append(v)
        rep.note("corpus_variants", {"available": len(corpus), "relevant": len(kept), "files": sorted(files)})
        corpus = kept
    variants = list(mod.selftest) + corpus
    rep.rule(rid, "checker self-test: mutants must add a violation, benign twins must not change the verdict")
    base_vio = {(v["rule"], v["key"]) for v in rep.violations}
    jobs = []
    skipped = []
    for v in variants:
        src = apply(program.sources, v)
        if src is None:
            skipped.append(v.name)
            continue
        jobs.append((prop, src, v.name, v.kind))
    byname = {v.name: v for v in variants}
    nproc = min(16, max(1, len(jobs)))
    if jobs:
        with multiprocessing.Pool(nproc) as pool:
            results = pool.map(_run_variant, jobs)
    else:
        results = []
    table = []
    for vname, kind, vio, errs in results:
        v = byname[vname]
        if vio is None:
            rep.error(rid, "variant %s could not be analysed: %s" % (vname, errs))
            continue
        new = [x for x in vio if (x[0], x[1]) not in base_vio]
        if kind == "mutant":
            hit = [x for x in new if v.expect is None or v.expect in (x[0] + " " + x[1] + " " + x[2])]
            if hit:
                rep.ok(rid, "mutant %s detected: %s %s" % (vname, hit[0][0], hit[0][1]))
                table.append({"variant": vname, "kind": kind, "result": "detected", "by": "%s %s" % (hit[0][0], hit[0][1])})
            elif errs and not new:
                rep.ok(rid, "mutant %s refused as unanalysable (exit 2): %s" % (vname, errs[0][:120]))
                table.append({"variant": vname, "kind": kind, "result": "analysis-error", "by": errs[0][:200]})
            else:
                rep.error(rid, "mutant %s NOT detected (new violations: %s)" % (vname, new[:2]))
                table.append({"variant": vname, "kind": kind, "result": "MISSED"})
        else:
            gone = [k for k in base_vio if k not in {(x[0], x[1]) for x in vio}]
            if vname.startswith("benign:") and errs and not new and not gone and prop in _expectations().get(vname[7:], {}):
                rep.ok(rid, "benign %s: declined as undecidable shape (recorded expectation), no violation" % vname)
                table.append({"variant": vname, "kind": kind, "result": "undecided (expected)", "by": errs[0][:160]})
                continue
            if new or errs or gone:
                rep.error(rid, "benign twin %s changed the verdict: new=%s errors=%s gone=%s" % (vname, new[:2], errs[:1], gone[:1]))
                table.append({"variant": vname, "kind": kind, "result": "FALSE-ALARM"})
            else:
                rep.ok(rid, "benign twin %s leaves the verdict unchanged" % vname)
                table.append({"variant": vname, "kind": kind, "result": "silent"})
    for s in skipped:
        table.append({"variant": s, "kind": byname[s].kind, "result": "skipped (patch anchor not present in current source)"})
    rep.note("selftest", table)
    rep.note("selftest_skipped", skipped)
