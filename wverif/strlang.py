"""Forward abstract interpretation of byte/str values over the domain of
regular languages (E7 applied along E1 paths).

Every client-derived string variable is mapped to the regular language of the
values it can hold at a program point; branch nodes refine (``c in v``,
``v.find(c) >= 0``, ``P.match(v)`` truthiness, ``v.startswith(c)``,
truthiness, ``v != v.upper()``), assignments transform (slices at a ``find``
position, ``strip`` family, latin-1 encode/decode, case maps, concatenation).
str and bytes are identified through latin-1.

Abstract values:
  Str(lang, strips)   a string in `lang`; `strips` records strip-family
                      operations applied since the raw token
  Poison(reason)      value produced by a construct the analysis does not
                      model (never silently treated as "any string")
  IntFind(var, sub)   result of var.find(sub)
  MatchV(lang, var)   result of P.<method>(var): truthy iff var in lang
  ListV(elem) / DictV(val) / TupleV(items) / Other
"""
from __future__ import annotations

import ast

from .cfg import cfg_of
from .model import AnalysisError, NotConst, RePat, dotted, norm
from .relang import FULL, L, Pattern, mask_of, mask_range, no_substring

WS_MASK = mask_of(b" \t\n\r\x0b\x0c")
SIGMA = L.sigma_star().minimized()
EMPTY = L.empty().minimized()
EPS = L.eps().minimized()
NONEMPTY = L.cat(L.chars(FULL), L.sigma_star()).minimized()

_UPPER = list(range(256))
_LOWER = list(range(256))
for _c in range(0x61, 0x7B):
    _UPPER[_c] = _c - 32
for _c in range(0x41, 0x5B):
    _LOWER[_c] = _c + 32
NO_LOWER = L.chars(FULL & ~mask_range(0x61, 0x7A)).star().minimized()
NO_UPPER = L.chars(FULL & ~mask_range(0x41, 0x5A)).star().minimized()


def to_bytes(v):
    if isinstance(v, bytes):
        return v
    if isinstance(v, str):
        try:
            return v.encode("latin-1")
        except UnicodeEncodeError:
            return None
    return None


class AV:
    pass


class Str(AV):
    def __init__(self, lang, strips=(), const=None):
        self.lang = lang.minimized()
        self.strips = tuple(strips)
        self.const = const

    def __repr__(self):
        w = self.lang.witness()
        return "Str(states=%d, eg=%r%s)" % (self.lang.dfa().n_states(), w, ", strips=%d" % len(self.strips) if self.strips else "")


class Poison(AV):
    def __init__(self, reason):
        self.reason = reason

    def __repr__(self):
        return "Poison(%s)" % self.reason


class Other(AV):
    """A non-string value the analysis does not need (ints, bools, objects)."""

    def __init__(self, what="", const=None, has_const=False):
        self.what = what
        self.const = const
        self.has_const = has_const

    def __repr__(self):
        return "Other(%s)" % self.what


class IntFind(AV):
    def __init__(self, var, sub, recv_lang):
        self.var = var
        self.sub = sub
        self.recv_lang = recv_lang


class MatchV(AV):
    def __init__(self, lang, var, pattern, method, node):
        self.lang = lang
        self.var = var
        self.pattern = pattern
        self.method = method
        self.node = node
        self.subject = None  # Str at match time


class ListV(AV):
    def __init__(self, elem):
        self.elem = elem  # Str | Poison | None (empty)

    def __repr__(self):
        return "ListV(%r)" % (self.elem,)


class DictV(AV):
    def __init__(self, val):
        self.val = val

    def __repr__(self):
        return "DictV(%r)" % (self.val,)


class TupleV(AV):
    def __init__(self, items):
        self.items = list(items)


def join(a, b):
    if a is None:
        return b
    if b is None:
        return a
    if isinstance(a, Poison):
        return a
    if isinstance(b, Poison):
        return b
    if isinstance(a, Str) and isinstance(b, Str):
        st = a.strips if a.strips == b.strips else tuple(sorted(set(a.strips) | set(b.strips)))
        return Str(a.lang | b.lang, st)
    if isinstance(a, ListV) and isinstance(b, ListV):
        return ListV(join(a.elem, b.elem))
    if isinstance(a, DictV) and isinstance(b, DictV):
        return DictV(join(a.val, b.val))
    if isinstance(a, TupleV) and isinstance(b, TupleV) and len(a.items) == len(b.items):
        return TupleV([join(x, y) for x, y in zip(a.items, b.items)])
    if isinstance(a, IntFind) and isinstance(b, IntFind) and a.var == b.var and a.sub == b.sub:
        return a
    if isinstance(a, MatchV) and isinstance(b, MatchV) and a.node is b.node:
        return a
    if isinstance(a, Other) and isinstance(b, Other):
        if a.has_const and b.has_const and a.const == b.const:
            return a
        return Other(a.what or b.what)
    # mixed: e.g. Str/None(Other)
    if isinstance(a, Str) and isinstance(b, Other):
        return a if b.has_const and b.const is None else Poison("join of string and %s" % b.what)
    if isinstance(b, Str) and isinstance(a, Other):
        return join(b, a)
    if isinstance(a, (IntFind, MatchV)) or isinstance(b, (IntFind, MatchV)):
        return Other("joined")
    return Poison("join of %s and %s" % (type(a).__name__, type(b).__name__))


def same(a, b):
    if a is b:
        return True
    if type(a) is not type(b):
        return False
    if isinstance(a, Str):
        return a.strips == b.strips and a.lang.same(b.lang)
    if isinstance(a, Poison):
        return True
    if isinstance(a, ListV):
        return (a.elem is None) == (b.elem is None) and (a.elem is None or same(a.elem, b.elem))
    if isinstance(a, DictV):
        return (a.val is None) == (b.val is None) and (a.val is None or same(a.val, b.val))
    if isinstance(a, TupleV):
        return len(a.items) == len(b.items) and all(same(x, y) for x, y in zip(a.items, b.items))
    if isinstance(a, IntFind):
        return a.var == b.var and a.sub == b.sub
    if isinstance(a, MatchV):
        return a.node is b.node
    if isinstance(a, Other):
        return a.has_const == b.has_const and a.const == b.const
    return False


def widen(v):
    if isinstance(v, Str):
        return Str(v.lang.alph_closure(), v.strips)
    if isinstance(v, ListV) and v.elem is not None:
        return ListV(widen(v.elem))
    if isinstance(v, DictV) and v.val is not None:
        return DictV(widen(v.val))
    if isinstance(v, TupleV):
        return TupleV([widen(x) for x in v.items])
    return v


class Analysis:
    """Result of analysing one function in one calling context."""

    def __init__(self, func, params):
        self.func = func
        self.params = params
        self.cfg = cfg_of(func)
        self.inst = {}  # node id -> state (dict) at node entry
        self.outst = {}
        self.ret = None

    def state_at(self, node):
        return self.inst.get(node.id)


class Interp:
    def __init__(self, program, attr_values=None, max_depth=3):
        self.p = program
        self.attr_values = attr_values or {}  # dotted attr -> callable() -> AV
        self.analyses = {}  # (qual, ctxsig) -> Analysis
        self.by_func = {}
        self.max_depth = max_depth
        self.notes = []
        self.langs_by_sig = {}
        self._stack = []

    # ------------------------------------------------------------------
    def analyse(self, func, params=None):
        params = params or {}
        key = (func.qual, tuple(sorted((k, self._sig(v)) for k, v in params.items())))
        if key in self.analyses:
            return self.analyses[key]
        if len(self._stack) >= self.max_depth or func.qual in self._stack:
            return None
        a = Analysis(func, params)
        self.analyses[key] = a
        self.by_func.setdefault(func.qual, []).append(a)
        self._stack.append(func.qual)
        try:
            self._run(a)
        finally:
            self._stack.pop()
        return a

    def _sig(self, v):
        if isinstance(v, Str):
            return ("S", v.lang.sig(), v.strips)
        if isinstance(v, ListV):
            return ("L", self._sig(v.elem) if v.elem is not None else None)
        if isinstance(v, DictV):
            return ("D", self._sig(v.val) if v.val is not None else None)
        if isinstance(v, TupleV):
            return ("T", tuple(self._sig(x) for x in v.items))
        if isinstance(v, Poison):
            return ("P",)
        return (type(v).__name__,)

    def _run(self, a):
        g = a.cfg
        f = a.func
        init = {}
        for p in f.params + f.kwonly:
            if p in a.params:
                init[p] = a.params[p]
            elif p in ("self", "cls"):
                init[p] = Other("self")
            else:
                init[p] = Str(SIGMA)  # unconstrained input
        a.inst[g.entry.id] = init
        work = [g.entry]
        visits = {}
        inwork = {g.entry.id}
        rets = []
        while work:
            n = work.pop(0)
            inwork.discard(n.id)
            st = a.inst.get(n.id)
            if st is None:
                continue
            out = self._transfer(a, n, st)
            a.outst[n.id] = out
            for (s, label) in n.succ:
                if label == "exc":
                    prop = st
                elif n.kind == "iter":
                    prop = self._iter_edge(a, n, out, label)
                else:
                    prop = out
                if prop is None:
                    continue
                old = a.inst.get(s.id)
                if old is None:
                    new = dict(prop)
                else:
                    new = {}
                    for k in old.keys() & prop.keys():
                        new[k] = join(old[k], prop[k])
                    if len(new) == len(old) and all(same(new[k], old[k]) for k in new):
                        continue
                visits[s.id] = visits.get(s.id, 0) + 1
                if visits[s.id] > 4 and (s.kind == "iter" or s.label == "loop_head"):
                    new = {k: widen(v) for k, v in new.items()}
                    if old is not None and len(new) == len(old) and all(same(new[k], old[k]) for k in new):
                        continue
                if visits[s.id] > 60:
                    raise AnalysisError("string analysis does not converge in %s" % f.qual)
                a.inst[s.id] = new
                if s.id not in inwork:
                    inwork.add(s.id)
                    work.append(s)
        # return value
        ret = None
        for n in g.nodes:
            if n.kind == "stmt" and isinstance(n.ast, ast.Return) and n.id in a.inst:
                v = self.eval(a, n.ast.value, a.inst[n.id], n) if n.ast.value is not None else Other("None", None, True)
                ret = join(ret, v)
        a.ret = ret

    # ------------------------------------------------------------------
    def _iter_edge(self, a, n, st, label):
        if label != "loop":
            return st
        st = dict(st)
        it = self.eval(a, n.ast.iter, st, n)
        tgt = n.ast.target
        if isinstance(it, ListV):
            el = it.elem
            if el is None:
                return None  # empty list: body not entered
        elif isinstance(it, Str):
            el = Other("int")
        elif isinstance(it, Poison):
            el = it
        else:
            el = Poison("iteration over %s" % type(it).__name__)
        self._bind(st, tgt, el)
        return st

    def _kill(self, st, name):
        for k, v in list(st.items()):
            if isinstance(v, IntFind) and v.var == name:
                st[k] = Other("int")
            elif isinstance(v, MatchV) and v.var == name:
                m = MatchV(v.lang, None, v.pattern, v.method, v.node)
                m.subject = v.subject
                st[k] = m

    def _bind(self, st, tgt, val):
        if isinstance(tgt, ast.Name):
            self._kill(st, tgt.id)
            st[tgt.id] = val
        elif isinstance(tgt, (ast.Tuple, ast.List)):
            if isinstance(val, TupleV) and len(val.items) == len(tgt.elts):
                for t, v in zip(tgt.elts, val.items):
                    self._bind(st, t, v)
            elif isinstance(val, ListV) and val.elem is not None:
                for t in tgt.elts:
                    self._bind(st, t, val.elem)
            else:
                for t in tgt.elts:
                    self._bind(st, t, val if isinstance(val, Poison) else Poison("unpack of %s" % type(val).__name__))
        # attribute / subscript targets handled by caller

    def _transfer(self, a, n, st):
        if n.kind == "branch":
            return self._refine(a, n, st)
        if n.kind == "handler":
            st = dict(st)
            if n.ast.name:
                st[n.ast.name] = Other("exception")
            return st
        if n.kind != "stmt":
            return st
        s = n.ast
        st = dict(st)
        if isinstance(s, ast.Assign):
            val = self.eval(a, s.value, st, n)
            for t in s.targets:
                self._assign(a, st, t, val, n)
        elif isinstance(s, ast.AnnAssign) and s.value is not None:
            self._assign(a, st, s.target, self.eval(a, s.value, st, n), n)
        elif isinstance(s, ast.AugAssign):
            cur = self.eval(a, s.target, st, n)
            rhs = self.eval(a, s.value, st, n)
            if isinstance(s.op, ast.Add) and isinstance(cur, Str) and isinstance(rhs, Str):
                val = Str(L.cat(cur.lang, rhs.lang))
            elif isinstance(cur, (Other, IntFind)):
                val = Other("int")
            elif isinstance(cur, Poison) or isinstance(rhs, Poison):
                val = cur if isinstance(cur, Poison) else rhs
            else:
                val = Poison("augmented assignment %s" % norm(s))
            self._assign(a, st, s.target, val, n, aug=True)
        elif isinstance(s, ast.Expr):
            self._expr_stmt(a, s.value, st, n)
        elif isinstance(s, (ast.FunctionDef, ast.ClassDef)):
            st[s.name] = Other("def")
        elif isinstance(s, ast.expr):
            # `for` iterable evaluation node
            pass
        return st

    def _assign(self, a, st, t, val, n, aug=False):
        if isinstance(t, ast.Name) or isinstance(t, (ast.Tuple, ast.List)):
            self._bind(st, t, val)
        elif isinstance(t, ast.Subscript):
            base = t.value
            if isinstance(base, ast.Name) and base.id in st:
                cur = st[base.id]
                if isinstance(cur, DictV):
                    st[base.id] = DictV(join(cur.val, val))
                elif isinstance(cur, ListV):
                    st[base.id] = ListV(join(cur.elem, val))
        # attribute stores are not tracked

    def _expr_stmt(self, a, e, st, n):
        if isinstance(e, ast.Call) and isinstance(e.func, ast.Attribute) and isinstance(e.func.value, ast.Name):
            recv = st.get(e.func.value.id)
            if isinstance(recv, ListV) and e.func.attr == "append" and len(e.args) == 1:
                v = self.eval(a, e.args[0], st, n)
                st[e.func.value.id] = ListV(join(recv.elem, v))
                return
            if isinstance(recv, ListV) and e.func.attr == "extend" and len(e.args) == 1:
                v = self.eval(a, e.args[0], st, n)
                if isinstance(v, ListV):
                    st[e.func.value.id] = ListV(join(recv.elem, v.elem))
                else:
                    st[e.func.value.id] = ListV(Poison("extend with %s" % type(v).__name__))
                return
        self.eval(a, e, st, n)

    # ------------------------------------------------------------------
    def _const_arg(self, a, e, st):
        """bytes value of a constant-ish argument, or None."""
        if e is None:
            return None
        if isinstance(e, ast.Constant):
            return to_bytes(e.value)
        v = None
        if isinstance(e, ast.Name) and e.id in st:
            sv = st[e.id]
            if isinstance(sv, Str) and sv.const is not None:
                return sv.const
            return None
        try:
            v = self.p.fold(e, a.func.module)
        except NotConst:
            return None
        return to_bytes(v)

    def _const_args_tuple(self, a, e, st):
        if isinstance(e, ast.Tuple):
            out = [self._const_arg(a, x, st) for x in e.elts]
            return None if any(x is None for x in out) else out
        c = self._const_arg(a, e, st)
        return None if c is None else [c]

    def eval(self, a, e, st, n=None):
        p = self.p
        if e is None:
            return Other("None", None, True)
        if isinstance(e, ast.Constant):
            b = to_bytes(e.value)
            if b is not None:
                return Str(L.lit(b), (), b)
            return Other(type(e.value).__name__, e.value, True)
        if isinstance(e, ast.Name):
            if e.id in st:
                return st[e.id]
            try:
                v = p.fold(e, a.func.module)
            except NotConst:
                return Poison("unbound name %s" % e.id)
            return self._from_const(v)
        if isinstance(e, ast.Attribute):
            d = dotted(e)
            if d in self.attr_values:
                return self.attr_values[d]()
            try:
                v = p.fold(e, a.func.module)
                return self._from_const(v)
            except NotConst:
                pass
            if d and d.startswith("self."):
                return Str(SIGMA)  # instance state: unconstrained
            base = self.eval(a, e.value, st, n)
            if isinstance(base, Poison):
                return base
            return Other("attr")
        if isinstance(e, ast.BinOp):
            l = self.eval(a, e.left, st, n)
            r = self.eval(a, e.right, st, n)
            if isinstance(e.op, ast.Add):
                if isinstance(l, Str) and isinstance(r, Str):
                    return Str(L.cat(l.lang, r.lang))
                if isinstance(l, (Other, IntFind)) and isinstance(r, (Other, IntFind)):
                    return Other("int")
            if isinstance(e.op, ast.Mod) and isinstance(l, Str):
                return Str(SIGMA)  # %-formatting: any text
            if isinstance(l, (Other, IntFind)) and isinstance(r, (Other, IntFind)):
                return Other("int")
            for x in (l, r):
                if isinstance(x, Poison):
                    return x
            return Poison("binary op %s" % norm(e))
        if isinstance(e, ast.JoinedStr):
            return Str(SIGMA)
        if isinstance(e, ast.BoolOp):
            return self._boolop(a, e, st, n)
        if isinstance(e, ast.Compare):
            for sub in ast.iter_child_nodes(e):
                if isinstance(sub, ast.expr):
                    self.eval(a, sub, st, n)
            return Other("bool")
        if isinstance(e, ast.UnaryOp):
            self.eval(a, e.operand, st, n)
            return Other("bool" if isinstance(e.op, ast.Not) else "int")
        if isinstance(e, ast.IfExp):
            return join(self.eval(a, e.body, st, n), self.eval(a, e.orelse, st, n))
        if isinstance(e, ast.Tuple):
            return TupleV([self.eval(a, x, st, n) for x in e.elts])
        if isinstance(e, ast.List):
            el = None
            for x in e.elts:
                el = join(el, self.eval(a, x, st, n))
            return ListV(el)
        if isinstance(e, ast.Dict):
            v = None
            for x in e.values:
                v = join(v, self.eval(a, x, st, n))
            return DictV(v)
        if isinstance(e, ast.Set):
            return Other("set")
        if isinstance(e, (ast.ListComp, ast.GeneratorExp, ast.SetComp)):
            return self._comp(a, e, st, n)
        if isinstance(e, ast.Subscript):
            return self._subscript(a, e, st, n)
        if isinstance(e, ast.Call):
            return self._call(a, e, st, n)
        if isinstance(e, ast.Lambda):
            return Other("lambda")
        return Poison("expression %s" % type(e).__name__)

    def _boolop(self, a, e, st, n):
        """Value semantics of `x or y` / `x and y` (the operand that decides)."""
        vals = [self.eval(a, v, st, n) for v in e.values]
        is_or = isinstance(e.op, ast.Or)
        out = None
        tags = ()
        for i, v in enumerate(vals):
            last = i == len(vals) - 1
            if isinstance(v, Poison):
                return v
            if isinstance(v, Str) and v.lang.witness() is None and not last:
                continue  # no value at all (e.g. lookup in an empty map)
            if isinstance(v, Str):
                decide = v.lang & (NONEMPTY if is_or else EPS)  # values at which evaluation stops here
                cont = v.lang & (EPS if is_or else NONEMPTY)  # values that fall through to the next operand
                if last:
                    out = join(out, Str(v.lang, tags + v.strips))
                    break
                if decide.witness() is not None:
                    out = join(out, Str(decide, v.strips))
                if cont.witness() is None:
                    break
                if is_or:
                    sig = cont.sig()
                    self.langs_by_sig[sig] = cont
                    tags = tags + ((getattr(e, "lineno", 0), "ordefault", sig, norm(e)[:60]),)
                continue
            if isinstance(v, Other) and v.has_const:
                truth = bool(v.const)
                if truth == is_or:
                    out = join(out, v)
                    break
                if last:
                    out = join(out, v)
                continue
            # unknown truthiness: may stop or continue
            out = join(out, v) if not isinstance(v, (IntFind, MatchV)) else join(out, Other("value"))
        return out if out is not None else Other("bool")

    def _from_const(self, v):
        b = to_bytes(v)
        if b is not None:
            return Str(L.lit(b), (), b)
        if isinstance(v, RePat):
            return Other("pattern", v, True)
        if isinstance(v, (frozenset, set, tuple, list)):
            return Other("container", v, True)
        if isinstance(v, dict):
            return Other("dict", v, True)
        return Other(type(v).__name__, v, True)

    def _comp(self, a, e, st, n):
        if len(e.generators) != 1:
            return Poison("nested comprehension")
        g = e.generators[0]
        it = self.eval(a, g.iter, st, n)
        if isinstance(it, ListV):
            el = it.elem
        elif isinstance(it, Poison):
            el = it
        else:
            el = Poison("comprehension over %s" % type(it).__name__)
        if el is None:
            return ListV(None)
        st2 = dict(st)
        self._bind(st2, g.target, el)
        for c in g.ifs:
            if isinstance(c, ast.Name) and isinstance(st2.get(c.id), Str):
                v = st2[c.id]
                st2[c.id] = Str(v.lang & NONEMPTY, v.strips)
        return ListV(self.eval(a, e.elt, st2, n))

    def _subscript(self, a, e, st, n):
        base = self.eval(a, e.value, st, n)
        if isinstance(base, Poison):
            return base
        if isinstance(base, MatchV):
            subj = base.subject
            if isinstance(subj, Str):
                return Str((subj.lang & base.lang).substring_closure())
            return Str(SIGMA)
        if isinstance(base, ListV):
            if isinstance(e.slice, ast.Slice):
                return base
            return base.elem if base.elem is not None else Str(EMPTY)  # index raises: no value
        if isinstance(base, DictV):
            return base.val if base.val is not None else Str(EMPTY)  # lookup raises: no value
        if isinstance(base, TupleV):
            try:
                i = self.p.fold(e.slice, a.func.module)
                return base.items[i]
            except Exception:
                out = None
                for x in base.items:
                    out = join(out, x)
                return out
        if isinstance(base, Other):
            return Other("item")
        if not isinstance(base, Str):
            return Poison("subscript of %s" % type(base).__name__)
        sl = e.slice
        if not isinstance(sl, ast.Slice):
            return Other("int")  # indexing bytes gives an int; str gives a char (unused)
        if sl.step is not None:
            return Poison("extended slice")
        lo, hi = sl.lower, sl.upper
        recv_name = e.value.id if isinstance(e.value, ast.Name) else None

        def find_of(x):
            """(sub, offset) if x is  p  or  p + k  with p an IntFind on this receiver."""
            if x is None:
                return None
            off = 0
            if isinstance(x, ast.BinOp) and isinstance(x.op, ast.Add) and isinstance(x.right, ast.Constant) and isinstance(x.right.value, int):
                off = x.right.value
                x = x.left
            if isinstance(x, ast.Name):
                v = st.get(x.id)
                if isinstance(v, IntFind) and v.var is not None and v.var == recv_name:
                    return v.sub, off
            if isinstance(x, ast.Call) and isinstance(x.func, ast.Attribute) and x.func.attr == "find" \
                    and isinstance(x.func.value, ast.Name) and x.func.value.id == recv_name and len(x.args) == 1:
                c = self._const_arg(a, x.args[0], st)
                if c is not None:
                    return c, off
            return None

        if lo is None and hi is not None:
            fo = find_of(hi)
            if fo and fo[1] == 0:
                # prefix before the first occurrence of sub (position known >= 0
                # on this path, or -1 which cuts the last char: still a prefix)
                return Str(base.lang.prefix_closure() & no_substring(fo[0]), base.strips)
            return Str(base.lang.prefix_closure())
        if lo is not None and hi is None:
            fo = find_of(lo)
            if fo and fo[1] == 0:
                # suffix starting at the first occurrence (when known to be present)
                has = L.cat(L.sigma_star(), L.lit(fo[0]), L.sigma_star()).minimized()
                if base.lang.subset_of(has):
                    return Str(base.lang.suffix_closure() & L.cat(L.lit(fo[0]), L.sigma_star()).minimized())
            return Str(base.lang.suffix_closure())
        if lo is None and hi is None:
            return base
        return Str(base.lang.substring_closure())

    def _resolve_callee(self, a, fn):
        p = self.p
        if isinstance(fn, ast.Name):
            r = p.resolve_global(a.func.module, fn.id)
            if r and r[0] == "func":
                return r[1], False
        if isinstance(fn, ast.Attribute) and isinstance(fn.value, ast.Name) and fn.value.id == "self" and a.func.cls is not None:
            f = a.func.cls.lookup(fn.attr)
            if f is not None:
                return f, True
        return None, False

    def _call(self, a, e, st, n):
        p = self.p
        fn = e.func
        args = e.args
        # builtins ---------------------------------------------------------
        if isinstance(fn, ast.Name) and fn.id not in st:
            if fn.id == "int":
                for x in args:
                    self.eval(a, x, st, n)
                return Other("int")
            if fn.id in ("len", "hex", "ord", "id", "min", "max", "abs"):
                for x in args:
                    self.eval(a, x, st, n)
                return Other("int") if fn.id != "hex" else Str(SIGMA)
            if fn.id in ("isinstance", "hasattr", "bool", "callable", "all", "any"):
                return Other("bool")
            if fn.id == "str":
                if len(args) == 2:
                    c = self._const_arg(a, args[1], st)
                    v = self.eval(a, args[0], st, n)
                    if c is not None and c.lower().replace(b"-", b"").replace(b"_", b"") in (b"latin1", b"iso88591"):
                        return v
                    return Str(SIGMA) if not isinstance(v, Poison) else v
                if len(args) == 1:
                    v = self.eval(a, args[0], st, n)
                    if isinstance(v, Str):
                        return v
                    return Str(SIGMA)
                return Str(EPS)
            if fn.id in ("list", "tuple", "sorted", "reversed"):
                if args:
                    v = self.eval(a, args[0], st, n)
                    if isinstance(v, (ListV, Poison)):
                        return v
                    if isinstance(v, DictV):
                        return ListV(Str(SIGMA))
                    return ListV(Poison("list() of %s" % type(v).__name__))
                return ListV(None)
            if fn.id == "dict":
                if args:
                    v = self.eval(a, args[0], st, n)
                    if isinstance(v, DictV):
                        return v
                    return Other("dict")
                return DictV(None)
            if fn.id == "filter" and len(args) == 2 and isinstance(args[0], ast.Constant) and args[0].value is None:
                # filter(None, xs): the truthy elements of xs - a sub-collection
                v = self.eval(a, args[1], st, n)
                if isinstance(v, ListV) and isinstance(v.elem, Str):
                    return ListV(Str((v.elem.lang & L.cat(L.chars(FULL), L.sigma_star())).minimized(), v.elem.strips))
                if isinstance(v, (ListV, Poison)):
                    return v
            if fn.id in ("set", "frozenset", "range", "enumerate", "zip", "filter", "map", "iter", "next", "getattr", "type", "repr", "print"):
                return Other(fn.id)
        # methods ------------------------------------------------------------
        if isinstance(fn, ast.Attribute):
            recv = self.eval(a, fn.value, st, n)
            m = fn.attr
            recv_name = fn.value.id if isinstance(fn.value, ast.Name) else None
            if isinstance(recv, Other) and recv.has_const and isinstance(recv.const, RePat):
                if m in ("match", "fullmatch", "search") and len(args) >= 1:
                    subj = self.eval(a, args[0], st, n)
                    try:
                        lang = Pattern(recv.const.pattern, recv.const.flags).language(m)
                    except AnalysisError as ex:
                        return Poison(str(ex))
                    # subject may be  x.encode('latin-1')
                    sname = None
                    x = args[0]
                    while isinstance(x, ast.Call) and isinstance(x.func, ast.Attribute) and x.func.attr in ("encode", "decode"):
                        x = x.func.value
                    if isinstance(x, ast.Name):
                        sname = x.id
                    mv = MatchV(lang.minimized(), sname, norm(fn.value), m, e)
                    mv.subject = subj if isinstance(subj, Str) else None
                    return mv
                if m in ("sub", "split", "findall", "finditer"):
                    return Str(SIGMA)
            if isinstance(recv, MatchV):
                if m in ("group", "groups", "groupdict"):
                    subj = recv.subject
                    g = Str((subj.lang & recv.lang).substring_closure()) if isinstance(subj, Str) else Str(SIGMA)
                    if m == "group" and len(args) > 1:
                        return TupleV([g for _ in args])
                    if m == "group":
                        return g
                    return Other("groups")
                if m in ("end", "start", "span"):
                    return Other("int")
            if isinstance(recv, Str):
                return self._str_method(a, recv, recv_name, m, e, st, n)
            if isinstance(recv, DictV):
                if m in ("get", "pop", "setdefault"):
                    dv = self.eval(a, args[1], st, n) if len(args) > 1 else Other("None", None, True)
                    if recv.val is None:
                        return dv
                    return join(recv.val, dv)
                if m in ("items",):
                    return ListV(TupleV([Str(SIGMA), recv.val if recv.val is not None else Str(EMPTY)]))
                if m in ("values",):
                    return ListV(recv.val)
                if m in ("keys",):
                    return ListV(Str(SIGMA))
                return Other("dictop")
            if isinstance(recv, ListV):
                if m == "pop":
                    return recv.elem if recv.elem is not None else Poison("pop from empty list")
                if m in ("index", "count"):
                    return Other("int")
                return Other("listop")
            if isinstance(recv, Poison):
                return recv
            # self.method(...) / module function
        callee, is_method = self._resolve_callee(a, fn)
        if callee is not None:
            params = {}
            names = callee.params[1:] if is_method else callee.params
            for pn, ax in zip(names, args):
                params[pn] = self.eval(a, ax, st, n)
            for kw in e.keywords:
                if kw.arg:
                    params[kw.arg] = self.eval(a, kw.value, st, n)
            for pn in names:
                if pn not in params and pn in callee.defaults:
                    try:
                        params[pn] = self._from_const(p.fold(callee.defaults[pn], callee.module))
                    except NotConst:
                        params[pn] = Other("default")
            sub = self.analyse(callee, params)
            if sub is None:
                return Str(SIGMA) if callee.qual.startswith(("parser.", "receiver.", "utilities.")) else Other("call")
            if sub.ret is None:
                return Other("None", None, True)
            return sub.ret
        for x in args:
            self.eval(a, x, st, n)
        for kw in e.keywords:
            self.eval(a, kw.value, st, n)
        d = dotted(fn)
        if d in ("parse.urlsplit", "urlsplit", "urllib.parse.urlsplit"):
            return TupleV([Str(SIGMA)] * 5)
        if d in ("unquote_to_bytes",):
            return Str(SIGMA)
        return Other("call:%s" % (d or "?"))

    def _str_method(self, a, recv, recv_name, m, e, st, n):
        args = e.args
        if m in ("strip", "lstrip", "rstrip"):
            if args:
                c = self._const_arg(a, args[0], st)
                if c is None:
                    return Poison("strip with non-constant argument")
                mask = mask_of(c)
            else:
                mask = WS_MASK
            left = m in ("strip", "lstrip")
            right = m in ("strip", "rstrip")
            non = L.chars(FULL & ~mask)
            if left and right:
                fixed = L.alt(L.eps(), non, L.cat(non, L.sigma_star(), non))
            elif right:
                fixed = L.alt(L.eps(), L.cat(L.sigma_star(), non))
            else:
                fixed = L.alt(L.eps(), L.cat(non, L.sigma_star()))
            # what remains is a factor of the receiver: a prefix for rstrip, a suffix for lstrip
            rest = recv.lang.substring_closure() if left and right else (recv.lang.prefix_closure() if right else recv.lang.suffix_closure())
            lang = rest & fixed.minimized()
            tag = (getattr(e, "lineno", 0), m, mask, norm(e))
            return Str(lang, recv.strips + (tag,))
        if m in ("encode", "decode"):
            c = self._const_arg(a, args[0], st) if args else b"utf-8"
            if c is not None and c.lower().replace(b"-", b"").replace(b"_", b"") in (b"latin1", b"iso88591"):
                return recv
            return Str(SIGMA)
        if m == "upper":
            return Str(recv.lang.map_bytes(_UPPER), recv.strips)
        if m == "lower":
            return Str(recv.lang.map_bytes(_LOWER), recv.strips)
        if m in ("capitalize", "title", "swapcase", "casefold"):
            return Str(recv.lang.alph_closure().map_bytes(_UPPER) | recv.lang.alph_closure().map_bytes(_LOWER))
        if m == "find" or m == "index" or m == "rfind":
            c = self._const_arg(a, args[0], st) if len(args) == 1 else None
            if c is not None and m == "find":
                return IntFind(recv_name, c, recv.lang)
            return Other("int")
        if m in ("split", "rsplit", "partition", "rpartition", "splitlines"):
            c = self._const_arg(a, args[0], st) if args else None
            sub = recv.lang.substring_closure()
            if c is not None and len(args) == 1 and m in ("split", "rsplit"):
                sub = sub & no_substring(c)
            if m in ("partition", "rpartition") and c is not None and len(args) == 1:
                # head / separator / tail: the separator is c or empty; for partition the head holds no occurrence of c
                # (it ends before the first one, or is the whole string when there is none), the tail is a suffix
                sepv = Str((L.lit(c) | L.eps()).minimized())
                if m == "partition":
                    return TupleV([Str(recv.lang.prefix_closure() & no_substring(c), recv.strips), sepv, Str(recv.lang.suffix_closure())])
                return TupleV([Str(recv.lang.prefix_closure()), sepv, Str(recv.lang.suffix_closure() & no_substring(c))])
            if m in ("partition", "rpartition"):
                return TupleV([Str(sub), Str(sub), Str(sub)])
            return ListV(Str(sub))
        if m in ("removeprefix", "removesuffix"):
            # the string itself, or what is left after cutting the affix off one end
            return Str((recv.lang | (recv.lang.suffix_closure() if m == "removeprefix" else recv.lang.prefix_closure())).minimized())
        if m in ("startswith", "endswith", "isdigit", "isalpha", "isspace"):
            return Other("bool")
        if m == "replace":
            if len(args) == 2:
                c2 = self._const_arg(a, args[1], st)
                if c2 is not None:
                    return Str(L.chars(recv.lang.alphabet() | mask_of(c2)).star())
            return Str(SIGMA)
        if m == "join":
            v = self.eval(a, args[0], st, n) if args else None
            return Str(SIGMA)
        if m == "format":
            return Str(SIGMA)
        if m in ("count", "__len__"):
            return Other("int")
        return Poison("string method %s" % m)

    # ------------------------------------------------------------------
    def _refine(self, a, n, st):
        """Refine state on a branch node (test expr, polarity)."""
        e = n.ast
        pol = n.polarity
        st = dict(st)

        def set_lang(name, f):
            v = st.get(name)
            if isinstance(v, Str):
                st[name] = Str(f(v.lang), v.strips)

        def contains(name, sub, yes):
            c = L.cat(L.sigma_star(), L.lit(sub), L.sigma_star()).minimized()
            set_lang(name, (lambda l: l & c) if yes else (lambda l: l - c))

        if isinstance(e, ast.Name):
            v = st.get(e.id)
            if isinstance(v, Str):
                set_lang(e.id, (lambda l: l & NONEMPTY) if pol else (lambda l: l & EPS))
            elif isinstance(v, MatchV) and v.var is not None:
                set_lang(v.var, (lambda l: l & v.lang) if pol else (lambda l: l - v.lang))
            return st
        if isinstance(e, ast.Call) and isinstance(e.func, ast.Attribute):
            fn = e.func
            # inline  P.match(x)  used directly as a condition
            if fn.attr in ("match", "fullmatch", "search"):
                mv = self.eval(a, e, st, n)
                if isinstance(mv, MatchV) and mv.var is not None:
                    set_lang(mv.var, (lambda l: l & mv.lang) if pol else (lambda l: l - mv.lang))
                return st
            if fn.attr in ("startswith", "endswith") and isinstance(fn.value, ast.Name) and len(e.args) == 1:
                cs = self._const_args_tuple(a, e.args[0], st)
                if cs:
                    if fn.attr == "startswith":
                        lang = L.alt(*[L.cat(L.lit(c), L.sigma_star()) for c in cs]).minimized()
                    else:
                        lang = L.alt(*[L.cat(L.sigma_star(), L.lit(c)) for c in cs]).minimized()
                    set_lang(fn.value.id, (lambda l: l & lang) if pol else (lambda l: l - lang))
                return st
            return st
        if isinstance(e, ast.Compare) and len(e.ops) == 1:
            op = e.ops[0]
            l, r = e.left, e.comparators[0]
            # c in v / c not in v
            if isinstance(op, (ast.In, ast.NotIn)) and isinstance(r, ast.Name):
                c = self._const_arg(a, l, st)
                if c is not None and isinstance(st.get(r.id), Str):
                    yes = pol if isinstance(op, ast.In) else not pol
                    contains(r.id, c, yes)
                return st
            # v[:k] == c  with len(c) == k: v starts with c (written as a slice comparison)
            if isinstance(op, (ast.Eq, ast.NotEq)):
                for a0, b0 in ((l, r), (r, l)):
                    if isinstance(a0, ast.Subscript) and isinstance(a0.value, ast.Name) and isinstance(a0.slice, ast.Slice) and a0.slice.lower is None and a0.slice.step is None \
                            and isinstance(a0.slice.upper, ast.Constant) and isinstance(a0.slice.upper.value, int) and isinstance(st.get(a0.value.id), Str):
                        c = self._const_arg(a, b0, st)
                        if c is not None and len(c) == a0.slice.upper.value and len(c) > 0:
                            lang = L.cat(L.lit(c), L.sigma_star()).minimized()
                            eq = pol if isinstance(op, ast.Eq) else not pol
                            set_lang(a0.value.id, (lambda x: x & lang) if eq else (lambda x: x - lang))
                            return st
            # x != x.upper()
            if isinstance(op, (ast.NotEq, ast.Eq)) and isinstance(l, ast.Name) and isinstance(r, ast.Call) \
                    and isinstance(r.func, ast.Attribute) and r.func.attr in ("upper", "lower") \
                    and isinstance(r.func.value, ast.Name) and r.func.value.id == l.id and not r.args:
                equal = pol if isinstance(op, ast.Eq) else not pol
                fixed = NO_LOWER if r.func.attr == "upper" else NO_UPPER
                set_lang(l.id, (lambda x: x & fixed) if equal else (lambda x: x - fixed))
                return st
            # m is None / m is not None
            if isinstance(op, (ast.Is, ast.IsNot)) and isinstance(l, (ast.Name, ast.Call)) and isinstance(r, ast.Constant) and r.value is None:
                v = st.get(l.id) if isinstance(l, ast.Name) else self.eval(a, l, st, n)
                isnone = pol if isinstance(op, ast.Is) else not pol
                if isinstance(v, MatchV) and v.var is not None:
                    set_lang(v.var, (lambda x: x - v.lang) if isnone else (lambda x: x & v.lang))
                return st
            # p >= 0, p < 0, p == -1, p != -1, p == 0 on find results
            lv = st.get(l.id) if isinstance(l, ast.Name) else None
            if isinstance(lv, IntFind) and lv.var is not None:
                k = None
                if isinstance(r, ast.Constant) and isinstance(r.value, int):
                    k = r.value
                elif isinstance(r, ast.UnaryOp) and isinstance(r.op, ast.USub) and isinstance(r.operand, ast.Constant):
                    k = -r.operand.value
                if k is not None:
                    found = None  # True: substring present, False: absent
                    if isinstance(op, ast.GtE) and k == 0:
                        found = pol
                    elif isinstance(op, ast.Gt) and k == -1:
                        found = pol
                    elif isinstance(op, ast.Lt) and k == 0:
                        found = not pol
                    elif isinstance(op, ast.LtE) and k == -1:
                        found = not pol
                    elif isinstance(op, ast.Eq) and k == -1:
                        found = not pol
                    elif isinstance(op, ast.NotEq) and k == -1:
                        found = pol
                    elif isinstance(op, ast.Eq) and k == 0:
                        if pol:
                            sw = L.cat(L.lit(lv.sub), L.sigma_star()).minimized()
                            set_lang(lv.var, lambda x: x & sw)
                        return st
                    if found is not None:
                        contains(lv.var, lv.sub, found)
                return st
            # v == const
            if isinstance(op, (ast.Eq, ast.NotEq)) and isinstance(l, ast.Name) and isinstance(st.get(l.id), Str):
                c = self._const_arg(a, r, st)
                if c is not None:
                    equal = pol if isinstance(op, ast.Eq) else not pol
                    lit = L.lit(c).minimized()
                    set_lang(l.id, (lambda x: x & lit) if equal else (lambda x: x - lit))
                return st
        return st
