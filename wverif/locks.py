"""E3 lock regions, E4 thread roles (context-sensitive reachability), E5 effects."""
from __future__ import annotations

import ast

from .callgraph import get_callgraph
from .cfg import cfg_of
from .model import AnalysisError, dotted, norm, walk_own, walk_stmt_exprs

_LOCK_CTORS = {"threading.Lock", "threading.RLock", "threading.Condition", "Lock", "RLock", "Condition"}


class LockTable:
    """Lock fields of the package: id 'Class.field'; Conditions built on another
    lock alias it."""

    def __init__(self, program):
        self.p = program
        self.fields = {}  # (classqual, field) -> canonical id
        self.kind = {}  # canonical id -> 'Lock' | 'RLock' | 'Condition'
        self.cond_fields = set()  # (classqual, field) that are Condition objects
        raw = {}
        for f in program.functions.values():
            if f.cls is None:
                continue
            for n in walk_own(f.node):
                if isinstance(n, ast.Assign) and isinstance(n.value, ast.Call):
                    d = dotted(n.value.func)
                    if d in _LOCK_CTORS:
                        for t in n.targets:
                            if isinstance(t, ast.Attribute) and isinstance(t.value, ast.Name) and t.value.id == "self":
                                raw[(f.cls.qual, t.attr)] = (d.split(".")[-1], n.value)
        for (cq, fld), (kind, call) in raw.items():
            cid = "%s.%s" % (cq.split(".")[-1], fld)
            if kind == "Condition":
                self.cond_fields.add((cq, fld))
                if call.args:
                    a = dotted(call.args[0])
                    if a and a.startswith("self.") and (cq, a[5:]) in raw:
                        cid = "%s.%s" % (cq.split(".")[-1], a[5:])
                        self.kind.setdefault(cid, raw[(cq, a[5:])][0])
                    elif isinstance(call.args[0], ast.Call) and dotted(call.args[0].func) in _LOCK_CTORS and dotted(call.args[0].func).split(".")[-1] != "Condition":
                        self.kind[cid] = dotted(call.args[0].func).split(".")[-1]  # Condition(threading.Lock()): a private lock of that kind
                    else:
                        raise AnalysisError("Condition built on an unknown lock: %s" % norm(call))
                else:
                    self.kind[cid] = "RLock"  # Condition() creates an RLock
            else:
                self.kind[cid] = kind
            self.fields[(cq, fld)] = cid

    def resolve(self, func, expr, cg=None):
        """Canonical lock id for expression (self.X / obj.X) or None."""
        if not isinstance(expr, ast.Attribute):
            return None
        fld = expr.attr
        classes = []
        if isinstance(expr.value, ast.Name) and expr.value.id == "self":
            g = func
            while g.parent is not None:
                g = g.parent
            if g.cls is not None:
                classes = [g.cls]
        elif cg is not None:
            classes = list(cg.class_types(func, expr.value))
        for c in classes:
            for k in c.mro + c.all_subclasses():
                if (k.qual, fld) in self.fields:
                    return self.fields[(k.qual, fld)]
        return None


class LockRegions:
    def __init__(self, program):
        self.p = program
        self.cg = get_callgraph(program)
        self.table = LockTable(program)
        self._lex = {}
        self._entry = None

    # lexical regions ----------------------------------------------------
    def lexical(self, func):
        """{id(ast stmt or expr root): frozenset(lock ids)} for statements of func."""
        r = getattr(func, "_lex_tbl", None)
        if r is None:
            r = {}
            self._walk(func, func.node.body, frozenset(), r)
            self._flow(func, r)
            func._lex_tbl = r
        return r

    def _is_call(self, func, e, meth):
        """lock id if e is  <lock>.meth(...)"""
        if isinstance(e, ast.Call) and isinstance(e.func, ast.Attribute) and e.func.attr == meth:
            return self.table.resolve(func, e.func.value, self.cg)
        return None

    def _releases(self, func, finalbody, lid):
        for st in finalbody:
            if isinstance(st, ast.Expr) and self._is_call(func, st.value, "release") == lid:
                return True
        return False

    def _walk(self, func, body, held, out):
        """`with L:` regions are lexical; acquire()/release() calls are handled
        by the flow analysis below (any statement shape)."""
        for st in body:
            out[id(st)] = held
            if isinstance(st, (ast.With, ast.AsyncWith)):
                h = set(held)
                for it in st.items:
                    lid = self.table.resolve(func, it.context_expr, self.cg)
                    if lid:
                        h.add(lid)
                self._walk(func, st.body, frozenset(h), out)
            elif isinstance(st, (ast.FunctionDef, ast.AsyncFunctionDef, ast.ClassDef)):
                continue
            else:
                for fld in ("body", "orelse", "finalbody"):
                    sub = getattr(st, fld, None)
                    if isinstance(sub, list) and sub and isinstance(sub[0], ast.stmt):
                        self._walk(func, sub, held, out)
                if isinstance(st, ast.Try):
                    for h in st.handlers:
                        self._walk(func, h.body, held, out)
        return out

    @staticmethod
    def _blocking(call):
        """acquire() / acquire(True) / acquire(blocking=True): returns only with the lock."""
        if call.keywords:
            return all(k.arg == "blocking" and isinstance(k.value, ast.Constant) and k.value.value is True
                       for k in call.keywords) and not call.args
        if not call.args:
            return True
        return len(call.args) == 1 and isinstance(call.args[0], ast.Constant) and call.args[0].value is True

    def _flow(self, func, out):
        """Must-hold dataflow over the CFG for explicit acquire()/release():
        a lock is held after a blocking `L.acquire()` statement or on the true
        branch of a test `L.acquire(...)`, until `L.release()`; at joins the
        intersection.  Adds the result to the per-statement table `out`."""
        has = False
        for n in ast.walk(func.node):
            if isinstance(n, ast.Call) and isinstance(n.func, ast.Attribute) and n.func.attr == "acquire":
                has = True
                break
        if not has:
            return
        from .cfg import cfg_of
        g = cfg_of(func)
        IN = {g.entry.id: frozenset()}
        work = [g.entry]

        def transfer(n, label):
            h = IN[n.id]
            a = n.ast
            if n.kind == "stmt" and isinstance(a, ast.Expr):
                lid = self._is_call(func, a.value, "acquire")
                if lid and label != "exc" and self._blocking(a.value):
                    h = h | {lid}
                lid = self._is_call(func, a.value, "release")
                if lid:
                    h = h - {lid}
            elif n.kind == "branch" and n.polarity is True:
                lid = self._is_call(func, a, "acquire")
                if lid:
                    h = h | {lid}
            return frozenset(h)

        while work:
            n = work.pop()
            for (s, label) in n.succ:
                h = transfer(n, label)
                old = IN.get(s.id)
                new = h if old is None else (old & h)
                if new != old:
                    IN[s.id] = new
                    work.append(s)
        per = {}
        for n in g.nodes:
            if n.id not in IN or n.kind in ("entry", "exit", "raise_exit", "join", "dispatch", "handler"):
                continue
            st = n.stmt if getattr(n, "stmt", None) is not None else n.ast
            if not isinstance(st, ast.stmt):
                continue
            per[id(st)] = IN[n.id] if id(st) not in per else (per[id(st)] & IN[n.id])
        for k, h in per.items():
            if h:
                out[k] = frozenset(out.get(k, frozenset()) | h)

    def leaks(self, func):
        """[(lock id, exit kind, acquiring cfg node)] for locks taken with an explicit
        acquire() in func that may still be held when func is left (may-hold dataflow:
        union at joins, exceptional edges included).  `with L:` cannot leak."""
        if not any(isinstance(n, ast.Call) and isinstance(n.func, ast.Attribute) and n.func.attr == "acquire" for n in ast.walk(func.node)):
            return []
        from .cfg import cfg_of
        g = cfg_of(func)
        IN = {g.entry.id: frozenset()}
        work = [g.entry]

        def transfer(n, label):
            h = set(IN[n.id])
            a = n.ast
            if n.kind == "stmt" and isinstance(a, ast.Expr):
                lid = self._is_call(func, a.value, "acquire")
                if lid and label != "exc":
                    h.add((lid, n.id))
                lid = self._is_call(func, a.value, "release")
                if lid:
                    h = {x for x in h if x[0] != lid}
            elif n.kind == "branch" and n.polarity is True:
                lid = self._is_call(func, a, "acquire")
                if lid:
                    h.add((lid, n.id))
            return frozenset(h)
        while work:
            n = work.pop()
            for (sx, label) in n.succ:
                h = transfer(n, label)
                old = IN.get(sx.id)
                new = h if old is None else (old | h)
                if new != old:
                    IN[sx.id] = new
                    work.append(sx)
        out = []
        for ex, kind in ((g.exit, "return"), (g.raise_exit, "exception")):
            for (lid, nid) in sorted(IN.get(ex.id, ())):
                out.append((lid, kind, g.nodes[nid]))
        return out

    def held_lex(self, func, stmt):
        return self.lexical(func).get(id(stmt), frozenset())

    def stmt_of_node(self, func, cfgnode):
        a = cfgnode.ast
        if cfgnode.kind in ("test", "branch") or (cfgnode.kind == "stmt" and isinstance(a, ast.expr)):
            return cfgnode.stmt
        if cfgnode.kind in ("iter", "with_enter", "with_exit"):
            return a
        return a

    def held_at(self, func, cfgnode):
        """Locks held (lexically + on entry) when cfgnode executes."""
        st = self.stmt_of_node(func, cfgnode)
        lex = self.held_lex(func, st) if st is not None else frozenset()
        if cfgnode.kind in ("test", "branch") and isinstance(st, (ast.With,)):
            pass
        return frozenset(lex | self.entry_locks().get(func.qual, frozenset()))

    def held_at_stmt(self, func, stmt):
        return frozenset(self.held_lex(func, stmt) | self.entry_locks().get(func.qual, frozenset()))

    # interprocedural must-hold-on-entry -----------------------------------
    def _stmt_index(self, func):
        idx = getattr(func, "_stmt_index", None)
        if idx is None:
            idx = {}

            def rec(body):
                for st in body:
                    for fld in ("body", "orelse", "finalbody"):
                        sub = getattr(st, fld, None)
                        if isinstance(sub, list) and sub and isinstance(sub[0], ast.stmt):
                            if not isinstance(st, (ast.FunctionDef, ast.AsyncFunctionDef, ast.ClassDef)):
                                rec(sub)
                    if isinstance(st, ast.Try):
                        for h in st.handlers:
                            rec(h.body)
                    for n in walk_stmt_exprs(st):
                        idx.setdefault(id(n), st)

            rec(func.node.body)
            func._stmt_index = idx
        return idx

    def held_at_call(self, site):
        st = self._stmt_index(site.func).get(id(site.node))
        if st is None:
            return frozenset()
        return self.held_lex(site.func, st)

    def entry_locks(self):
        if self._entry is not None:
            return self._entry
        cg = self.cg
        allocks = frozenset(self.table.kind)
        entry = {}
        for f in self.p.functions.values():
            entry[f.qual] = allocks if cg.callers.get(f.qual) else frozenset()
        # thread entry points and escaping callbacks hold nothing
        for (s, t) in cg.thread_targets:
            if t[0] in ("bound", "func"):
                entry[t[1].qual] = frozenset()
        changed = True
        while changed:
            changed = False
            for f in self.p.functions.values():
                callers = cg.callers.get(f.qual)
                if not callers:
                    continue
                new = None
                for s in callers:
                    h = self.held_at_call(s) | entry.get(s.func.qual, frozenset())
                    new = h if new is None else (new & h)
                new = frozenset(new or ())
                if f.qual in {t[1].qual for (_, t) in cg.thread_targets if t[0] in ("bound", "func")}:
                    new = frozenset()
                if new != entry[f.qual]:
                    entry[f.qual] = new
                    changed = True
        self._entry = entry
        return entry


def reacquisitions(program):
    """[(lock id, func, stmt, how)] : blocking acquisitions of a NON-reentrant lock (threading.Lock, or a Condition built on
    one) at a point where the same thread may already hold it - lexically in the same function, or along some call chain
    (may-hold on entry: union over the call sites).  Such a thread blocks on itself for ever."""
    lk = get_locks(program)
    cg = lk.cg
    plain = {lid for lid, k in lk.table.kind.items() if k == "Lock"}
    if not plain:
        return [], 0
    may = {f.qual: frozenset() for f in program.functions.values()}
    via = {}
    changed = True
    while changed:
        changed = False
        for f in program.functions.values():
            acc = set(may[f.qual])
            for s in cg.callers.get(f.qual, ()):
                h = (lk.held_at_call(s) | may.get(s.func.qual, frozenset())) & plain
                for lid in h - acc:
                    via[(f.qual, lid)] = s
                acc |= h
            if acc != may[f.qual]:
                may[f.qual] = frozenset(acc)
                changed = True
    out = []
    nsites = 0
    for f in sorted(program.functions.values(), key=lambda f: f.qual):
        tbl = lk.lexical(f)
        for st in ast.walk(f.node):
            lids = []
            if isinstance(st, (ast.With, ast.AsyncWith)):
                lids = [lk.table.resolve(f, it.context_expr, cg) for it in st.items]
            elif isinstance(st, ast.Expr) and isinstance(st.value, ast.Call) and lk._is_call(f, st.value, "acquire") and lk._blocking(st.value):
                lids = [lk._is_call(f, st.value, "acquire")]
            for lid in lids:
                if lid not in plain:
                    continue
                nsites += 1
                if id(st) not in tbl:
                    continue
                if lid in tbl[id(st)]:
                    out.append((lid, f, st, "already held in %s itself" % f.qual))
                elif lid in may[f.qual]:
                    chain = []
                    q = f.qual
                    seen = set()
                    while (q, lid) in via and q not in seen:
                        seen.add(q)
                        s = via[(q, lid)]
                        chain.append("%s (%s)" % (s.func.qual, s.func.loc(s.node)))
                        if lid in lk.held_at_call(s):
                            break
                        q = s.func.qual
                    out.append((lid, f, st, "held by the caller chain " + " <- ".join(chain)))
    return out, nsites


def get_locks(program):
    l = getattr(program, "_locks", None)
    if l is None:
        l = LockRegions(program)
        program._locks = l
    return l


# ----------------------------------------------------------------------
# E4: context-sensitive reachability with constant propagation of bool/None parameters

def _const_of(expr):
    if isinstance(expr, ast.Constant) and (isinstance(expr.value, bool) or expr.value is None):
        return True, expr.value
    return False, None


class RoleReach:
    """Reachability from role roots. State = (func, receiver class, const ctx).
    Branches on parameters whose value is a known constant are pruned."""

    def __init__(self, program, roots):
        self.p = program
        self.cg = get_callgraph(program)
        self.states = {}  # key -> (via site, parent key)
        self.funcs = {}  # qual -> first key
        self.live_nodes = {}  # key -> set of cfg node ids
        self.locks = get_locks(program)
        st = []
        for r in roots:
            f, c = (r if isinstance(r, tuple) else (r, None))
            st.append((f, c, frozenset(), frozenset(), None, None))
        while st:
            f, c, ctx, held, via, parent = st.pop()
            key = (f.qual, c.qual if c is not None else None, ctx, held)
            if key in self.states:
                continue
            self.states[key] = (via, parent)
            self.funcs.setdefault(f.qual, key)
            g = cfg_of(f)
            live = self._live(g, dict(ctx))
            self.live_nodes[key] = live
            ctxd = dict(ctx)
            for n in g.nodes:
                if n.id not in live or n.ast is None or n.kind == "branch":
                    continue
                roots_ = [n.ast] if n.kind != "iter" else [n.ast.target]
                if n.kind == "with_enter":
                    roots_ = [i.context_expr for i in n.ast.items]
                for root in roots_:
                    for sub in walk_stmt_exprs(root):
                        s = self.cg.sites.get(id(sub))
                        if s is None:
                            continue
                        for (t, rc) in self.cg.site_edges(s, c):
                            nctx = self._callee_ctx(s, t, ctxd)
                            nheld = frozenset(held | self.locks.held_at_call(s))
                            st.append((t, rc, nctx, nheld, s, key))

    def _live(self, g, ctx):
        seen = {g.entry.id}
        stack = [g.entry]
        while stack:
            n = stack.pop()
            for (s, l) in n.succ:
                if s.kind == "branch" and isinstance(s.ast, ast.Name) and s.ast.id in ctx:
                    if bool(ctx[s.ast.id]) != s.polarity:
                        continue
                if s.id not in seen:
                    seen.add(s.id)
                    stack.append(s)
        return seen

    def _callee_ctx(self, site, callee, ctx):
        out = {}
        b = site.bindings.get(callee.qual, {})
        for pn in callee.params + callee.kwonly:
            a = b.get(pn)
            if a is None:
                d = callee.defaults.get(pn)
                if d is not None:
                    ok, v = _const_of(d)
                    if ok:
                        out[pn] = v
                continue
            if isinstance(a, tuple):
                continue
            ok, v = _const_of(a)
            if ok:
                out[pn] = v
            elif isinstance(a, ast.Name) and a.id in ctx:
                out[pn] = ctx[a.id]
        return frozenset(out.items())

    def reaches(self, qual):
        return [k for k in self.states if k[0] == qual]

    def chain(self, key):
        out = []
        guard = 0
        while key is not None and guard < 60:
            via, parent = self.states[key]
            ctx = ",".join("%s=%r" % kv for kv in sorted(key[2]))
            label = key[0] + ("[%s]" % ctx if ctx else "")
            if key[3]:
                label += " {holding %s}" % ",".join(sorted(key[3]))
            if via is not None:
                label += " (called at %s)" % via.loc
            out.append(label)
            key = parent
            guard += 1
        return list(reversed(out))

    def node_live(self, qual, node):
        """Is cfg node live in some reachable state of function qual?"""
        for k in self.reaches(qual):
            if node.id in self.live_nodes[k]:
                return True
        return False


def thread_roles(program):
    """{'IO': RoleReach, 'WORKER': RoleReach, 'SHUTDOWN': RoleReach}."""
    r = getattr(program, "_roles", None)
    if r is not None:
        return r
    cg = get_callgraph(program)
    p = program
    workers = []
    for (s, t) in cg.thread_targets:
        if t[0] == "bound":
            workers.append((t[1], t[2][1] if t[2][0] == "inst" else None))
        elif t[0] == "func":
            workers.append((t[1], None))
    if not workers:
        raise AnalysisError("no threading.Thread(target=...) found: worker role has no root")
    io_root = p.func("wasyncore.loop")
    shutdown = []
    for q in ("task.ThreadedTaskDispatcher.shutdown", "server.BaseWSGIServer.close", "server.MultiSocketServer.close", "wasyncore.close_all"):
        if q in p.functions:
            f = p.functions[q]
            shutdown.append((f, f.cls))
    # application callbacks (run on the worker thread): values escaping into the WSGI application call
    r = {
        "IO": RoleReach(p, [io_root]),
        "WORKER": RoleReach(p, workers),
        "SHUTDOWN": RoleReach(p, shutdown),
    }
    program._roles = r
    return r


# ----------------------------------------------------------------------
# E5 effects

class Access:
    __slots__ = ("func", "node", "stmt", "attr", "kind", "classes", "recv")

    def __init__(self, func, node, stmt, attr, kind, classes, recv):
        self.func = func
        self.node = node
        self.stmt = stmt
        self.attr = attr
        self.kind = kind  # 'read' | 'write' | 'mutate' | 'del'
        self.classes = classes
        self.recv = recv

    @property
    def loc(self):
        return self.func.loc(self.node)


_MUTATORS = {"append", "pop", "popleft", "appendleft", "extend", "clear", "remove", "discard", "add", "insert", "update", "setdefault", "popitem", "sort", "reverse"}


def accesses(program, attr, classes=None):
    """All syntactic accesses to `<x>.attr` whose receiver may be an instance of
    one of `classes` (Class objects; None = any)."""
    cg = get_callgraph(program)
    locks = get_locks(program)
    out = []
    want = None
    if classes is not None:
        want = set()
        for c in classes:
            want.add(c)
            want.update(c.all_subclasses())
            want.update(c.mro)
    for f in program.functions.values():
        idx = locks._stmt_index(f)
        parents = {}
        for n in walk_own(f.node):
            for ch in ast.iter_child_nodes(n):
                parents[id(ch)] = n
        for n in walk_own(f.node):
            if not (isinstance(n, ast.Attribute) and n.attr == attr):
                continue
            rc = cg.class_types(f, n.value)
            if want is not None and rc and not (rc & want):
                continue
            if want is not None and not rc:
                # receiver of unknown type: keep only for 'self'-like names
                if not (isinstance(n.value, ast.Name)):
                    continue
            kind = "read"
            par = parents.get(id(n))
            if isinstance(n.ctx, ast.Store):
                kind = "write"
            elif isinstance(n.ctx, ast.Del):
                kind = "del"
            elif isinstance(par, ast.AugAssign) and par.target is n:
                kind = "write"
            elif isinstance(par, ast.Attribute) and par.value is n and par.attr in _MUTATORS:
                gp = parents.get(id(par))
                if isinstance(gp, ast.Call) and gp.func is par:
                    kind = "mutate"
            elif isinstance(par, ast.Subscript) and par.value is n and isinstance(par.ctx, (ast.Store, ast.Del)):
                kind = "mutate"
            out.append(Access(f, n, idx.get(id(n)), attr, kind, rc, n.value))
    return out
