"""E7 — regular languages over bytes: regex -> NFA -> DFA, boolean ops,
equivalence with shortest witness.  Character sets are 256-bit int masks.
"""
from __future__ import annotations

import re._constants as sc
import re._parser as sp

from .model import AnalysisError

FULL = (1 << 256) - 1


def mask_of(chars):
    m = 0
    for c in chars:
        m |= 1 << (c if isinstance(c, int) else ord(c))
    return m


def mask_range(lo, hi):
    return ((1 << (hi + 1)) - 1) & ~((1 << lo) - 1)


def mask_bytes(m):
    return [i for i in range(256) if (m >> i) & 1]


def _pick(m):
    """Representative byte of a mask, preferring printable ASCII."""
    for lo, hi in ((0x30, 0x39), (0x41, 0x5A), (0x61, 0x7A), (0x21, 0x7E), (0, 255)):
        r = m & mask_range(lo, hi)
        if r:
            return (r & -r).bit_length() - 1
    raise ValueError("empty mask")


class NFA:
    """eps-NFA with one start and one accept state."""

    def __init__(self):
        self.n = 0
        self.trans = []  # per state: list of (mask, dst)
        self.eps = []  # per state: list of dst
        self.start = self.new()
        self.accept = self.new()

    def new(self):
        self.trans.append([])
        self.eps.append([])
        self.n += 1
        return self.n - 1

    def copy_into(self, other):
        """Copy self's states into `other`; returns (start, accept) there."""
        off = other.n
        for _ in range(self.n):
            other.new()
        for s in range(self.n):
            for (m, d) in self.trans[s]:
                other.trans[off + s].append((m, off + d))
            for d in self.eps[s]:
                other.eps[off + s].append(off + d)
        return off + self.start, off + self.accept


class L:
    """A regular language (immutable)."""

    def __init__(self, nfa):
        self.nfa = nfa
        self._dfa = None

    # constructors -----------------------------------------------------
    @staticmethod
    def empty():
        return L(NFA())

    @staticmethod
    def eps():
        n = NFA()
        n.eps[n.start].append(n.accept)
        return L(n)

    @staticmethod
    def chars(mask):
        n = NFA()
        if mask:
            n.trans[n.start].append((mask, n.accept))
        return L(n)

    @staticmethod
    def lit(b):
        return L.cat(*[L.chars(1 << c) for c in b]) if b else L.eps()

    @staticmethod
    def sigma_star():
        return L.chars(FULL).star()

    @staticmethod
    def cat(*ls):
        n = NFA()
        cur = n.start
        for l in ls:
            s, a = l.nfa.copy_into(n)
            n.eps[cur].append(s)
            cur = a
        n.eps[cur].append(n.accept)
        return L(n)

    @staticmethod
    def alt(*ls):
        n = NFA()
        for l in ls:
            s, a = l.nfa.copy_into(n)
            n.eps[n.start].append(s)
            n.eps[a].append(n.accept)
        return L(n)

    def star(self):
        n = NFA()
        s, a = self.nfa.copy_into(n)
        n.eps[n.start].append(s)
        n.eps[n.start].append(n.accept)
        n.eps[a].append(s)
        n.eps[a].append(n.accept)
        return L(n)

    def plus(self):
        return L.cat(self, self.star())

    def opt(self):
        return L.alt(self, L.eps())

    def repeat(self, lo, hi):
        parts = [self] * lo
        if hi is None:
            parts.append(self.star())
        else:
            parts.extend([self.opt()] * (hi - lo))
        return L.cat(*parts) if parts else L.eps()

    # determinisation -----------------------------------------------------
    def dfa(self):
        if self._dfa is None:
            self._dfa = DFA.from_nfa(self.nfa)
        return self._dfa

    def __and__(self, o):
        return L(self.dfa().product(o.dfa(), lambda a, b: a and b).to_nfa()).minimized()

    def __or__(self, o):
        return L.alt(self, o).minimized()

    def __invert__(self):
        return L(self.dfa().complement().to_nfa()).minimized()

    def __sub__(self, o):
        return L(self.dfa().product(o.dfa(), lambda a, b: a and not b).to_nfa()).minimized()

    def subset_of(self, o):
        return (self - o).witness() is None

    def same(self, o):
        return self.sig() == o.sig()

    def is_empty(self):
        return self.dfa().witness() is None

    def witness(self):
        return self.dfa().witness()

    def witnesses(self, maxlen, limit=50):
        return self.dfa().witnesses(maxlen, limit)

    def contains(self, b):
        return self.dfa().accepts(b)

    # closures ---------------------------------------------------------
    def minimized(self):
        if getattr(self, "_min", None) is None:
            d = self.dfa().minimize()
            m = L(d.to_nfa())
            m._dfa = d
            m._min = m
            m._sig = d.signature()
            self._min = m
        return self._min

    def sig(self):
        return self.minimized()._sig

    def prefix_closure(self):
        d = self.dfa()
        live = d.live_states()
        n = DFA()
        n.trans = [list(r) for r in d.trans]
        n.start = d.start
        n.accept = set(live)
        return L(n.to_nfa()).minimized()

    def suffix_closure(self):
        d = self.dfa()
        reach = d.reachable_states()
        nfa = d.to_nfa()
        # to_nfa lays DFA states at offset 2
        for s in reach:
            nfa.eps[nfa.start].append(2 + s)
        return L(nfa).minimized()

    def substring_closure(self):
        return self.prefix_closure().suffix_closure()

    def alphabet(self):
        d = self.dfa()
        live = d.live_states()
        m = 0
        for s in d.reachable_states():
            if s in live:
                for (mk, t) in d.trans[s]:
                    if t in live:
                        m |= mk
        return m

    def alph_closure(self):
        return L.chars(self.alphabet()).star().minimized()

    def map_bytes(self, table):
        """Image under a byte->byte map (table: list of 256 ints)."""
        def mm(mask):
            out = 0
            while mask:
                low = mask & -mask
                out |= 1 << table[low.bit_length() - 1]
                mask ^= low
            return out
        n = NFA()
        s, a = self.nfa.copy_into(n)
        n.eps[n.start].append(s)
        n.eps[a].append(n.accept)
        for st in range(n.n):
            n.trans[st] = [(mm(m), d) for (m, d) in n.trans[st]]
        return L(n).minimized()

    def prefix_free(self):
        """No word of the language is a proper prefix of another word."""
        d = self.dfa()
        live = d.live_states()
        for a in d.accept:
            # from an accepting state, can another accepting state be reached with >=1 step?
            seen = set()
            st = [t for (_, t) in d.trans[a] if t in live]
            while st:
                s = st.pop()
                if s in seen:
                    continue
                seen.add(s)
                if s in d.accept:
                    return False
                st.extend(t for (_, t) in d.trans[s] if t in live)
        return True


def compare(a, b):
    """None if L(a) == L(b); else dict(side='over'|'under', witness=bytes):
    'over' = a accepts a word b does not."""
    w = (a - b).witness()
    if w is not None:
        return {"side": "over", "witness": w}
    w = (b - a).witness()
    if w is not None:
        return {"side": "under", "witness": w}
    return None


class DFA:
    def __init__(self):
        self.trans = []  # per state: list of (mask, dst), masks disjoint, covering FULL
        self.accept = set()
        self.start = 0

    @staticmethod
    def from_nfa(nfa):
        def closure(states):
            seen = set(states)
            st = list(states)
            while st:
                s = st.pop()
                for d in nfa.eps[s]:
                    if d not in seen:
                        seen.add(d)
                        st.append(d)
            return frozenset(seen)

        d = DFA()
        start = closure([nfa.start])
        ids = {start: 0}
        d.trans.append(None)
        work = [start]
        while work:
            S = work.pop()
            sid = ids[S]
            outs = []
            for s in S:
                outs.extend(nfa.trans[s])
            atoms = [FULL]
            for (m, _) in outs:
                nxt = []
                for a in atoms:
                    x = a & m
                    y = a & ~m
                    if x:
                        nxt.append(x)
                    if y:
                        nxt.append(y)
                atoms = nxt
            merged = {}
            for a in atoms:
                tgt = closure([dst for (m, dst) in outs if m & a])
                merged[tgt] = merged.get(tgt, 0) | a
            row = []
            for tgt, m in merged.items():
                if tgt not in ids:
                    ids[tgt] = len(d.trans)
                    d.trans.append(None)
                    work.append(tgt)
                row.append((m, ids[tgt]))
            d.trans[sid] = row
            if nfa.accept in S:
                d.accept.add(sid)
        return d

    def to_nfa(self):
        n = NFA()
        off = n.n
        for _ in self.trans:
            n.new()
        n.eps[n.start].append(off + self.start)
        for s, row in enumerate(self.trans):
            for (m, t) in row:
                n.trans[off + s].append((m, off + t))
            if s in self.accept:
                n.eps[off + s].append(n.accept)
        return n

    def complement(self):
        d = DFA()
        d.trans = [list(r) for r in self.trans]
        d.accept = set(range(len(self.trans))) - self.accept
        d.start = self.start
        return d

    def product(self, o, acc):
        d = DFA()
        ids = {(self.start, o.start): 0}
        d.trans.append(None)
        work = [(self.start, o.start)]
        while work:
            (a, b) = work.pop()
            sid = ids[(a, b)]
            row = []
            for (m1, t1) in self.trans[a]:
                for (m2, t2) in o.trans[b]:
                    m = m1 & m2
                    if m:
                        k = (t1, t2)
                        if k not in ids:
                            ids[k] = len(d.trans)
                            d.trans.append(None)
                            work.append(k)
                        row.append((m, ids[k]))
            d.trans[sid] = row
            if acc(a in self.accept, b in o.accept):
                d.accept.add(sid)
        return d

    def accepts(self, b):
        s = self.start
        for c in b:
            for (m, t) in self.trans[s]:
                if (m >> c) & 1:
                    s = t
                    break
        return s in self.accept

    def live_states(self):
        rev = {}
        for s, row in enumerate(self.trans):
            for (_, t) in row:
                rev.setdefault(t, set()).add(s)
        live = set(self.accept)
        st = list(self.accept)
        while st:
            s = st.pop()
            for p in rev.get(s, ()):
                if p not in live:
                    live.add(p)
                    st.append(p)
        return live

    def witness(self):
        """Shortest accepted word (bytes) or None."""
        if self.start in self.accept:
            return b""
        prev = {self.start: None}
        q = [self.start]
        while q:
            nq = []
            for s in q:
                for (m, t) in sorted(self.trans[s], key=lambda x: _pick(x[0])):
                    if t not in prev:
                        prev[t] = (s, _pick(m))
                        if t in self.accept:
                            out = []
                            cur = t
                            while prev[cur] is not None:
                                p, c = prev[cur]
                                out.append(c)
                                cur = p
                            return bytes(reversed(out))
                        nq.append(t)
            q = nq
        return None

    def witnesses(self, maxlen, limit=50):
        """Up to `limit` accepted words of length <= maxlen, one representative
        per (state path, mask) choice."""
        live = self.live_states()
        out = []
        stack = [(self.start, b"")]
        while stack and len(out) < limit:
            s, w = stack.pop()
            if s in self.accept:
                out.append(w)
            if len(w) >= maxlen:
                continue
            for (m, t) in self.trans[s]:
                if t in live:
                    stack.append((t, w + bytes([_pick(m)])))
        return out

    def n_states(self):
        return len(self.trans)

    def reachable_states(self):
        seen = {self.start}
        st = [self.start]
        while st:
            s = st.pop()
            for (_, t) in self.trans[s]:
                if t not in seen:
                    seen.add(t)
                    st.append(t)
        return seen

    def minimize(self):
        """Moore partition refinement on the reachable part; canonical numbering."""
        reach = sorted(self.reachable_states())
        part = {s: (1 if s in self.accept else 0) for s in reach}
        while True:
            sigs = {}
            newpart = {}
            for s in reach:
                tg = {}
                for (m, t) in self.trans[s]:
                    tg[part[t]] = tg.get(part[t], 0) | m
                key = (part[s], tuple(sorted(tg.items())))
                if key not in sigs:
                    sigs[key] = len(sigs)
                newpart[s] = sigs[key]
            if len(sigs) == len(set(part.values())):
                part = newpart
                break
            part = newpart
        # canonical BFS numbering from start
        order = {}
        q = [part[self.start]]
        order[part[self.start]] = 0
        rep = {}
        for s in reach:
            rep.setdefault(part[s], s)
        i = 0
        while i < len(q):
            b = q[i]
            i += 1
            tg = {}
            for (m, t) in self.trans[rep[b]]:
                tg[part[t]] = tg.get(part[t], 0) | m
            for tb, m in sorted(tg.items(), key=lambda kv: (kv[1] & -kv[1]).bit_length()):
                if tb not in order:
                    order[tb] = len(order)
                    q.append(tb)
        d = DFA()
        d.trans = [None] * len(order)
        for b, idx in order.items():
            tg = {}
            for (m, t) in self.trans[rep[b]]:
                tg[order[part[t]]] = tg.get(order[part[t]], 0) | m
            d.trans[idx] = sorted(((m, t) for t, m in tg.items()), key=lambda x: x[1])
            if rep[b] in self.accept:
                d.accept.add(idx)
        d.start = 0
        return d

    def signature(self):
        return (tuple(tuple(r) for r in self.trans), tuple(sorted(self.accept)))


# ----------------------------------------------------------------------
# regex -> language

_CATEGORY = {
    sc.CATEGORY_DIGIT: mask_range(0x30, 0x39),
    sc.CATEGORY_SPACE: mask_of(b" \t\n\r\x0b\x0c"),
    sc.CATEGORY_WORD: mask_range(0x30, 0x39) | mask_range(0x41, 0x5A) | mask_range(0x61, 0x7A) | mask_of(b"_"),
}
_CATEGORY[sc.CATEGORY_NOT_DIGIT] = FULL & ~_CATEGORY[sc.CATEGORY_DIGIT]
_CATEGORY[sc.CATEGORY_NOT_SPACE] = FULL & ~_CATEGORY[sc.CATEGORY_SPACE]
_CATEGORY[sc.CATEGORY_NOT_WORD] = FULL & ~_CATEGORY[sc.CATEGORY_WORD]


def _in_mask(items):
    m = 0
    neg = False
    for op, av in items:
        if op is sc.NEGATE:
            neg = True
        elif op is sc.LITERAL:
            m |= 1 << av
        elif op is sc.RANGE:
            m |= mask_range(av[0], av[1])
        elif op is sc.CATEGORY:
            if av not in _CATEGORY:
                raise AnalysisError("unsupported regex category %s" % av)
            m |= _CATEGORY[av]
        else:
            raise AnalysisError("unsupported regex class item %s" % op)
    return (FULL & ~m) if neg else m


def _seq(items, is_str, dotall=False):
    parts = []
    for op, av in items:
        if op is sc.LITERAL:
            if av > 255:
                raise AnalysisError("non-latin-1 literal in pattern")
            parts.append(L.chars(1 << av))
        elif op is sc.NOT_LITERAL:
            parts.append(L.chars(FULL & ~(1 << av)))
        elif op is sc.ANY:
            parts.append(L.chars(FULL if dotall else FULL & ~(1 << 10)))
        elif op is sc.IN:
            parts.append(L.chars(_in_mask(av)))
        elif op is sc.BRANCH:
            parts.append(L.alt(*[_seq(b, is_str, dotall) for b in av[1]]))
        elif op is sc.SUBPATTERN:
            # (group, add_flags, del_flags, pattern)
            if av[1] or av[2]:
                raise AnalysisError("inline regex flags unsupported")
            parts.append(_seq(av[3], is_str, dotall))
        elif op in (sc.MAX_REPEAT, sc.MIN_REPEAT):
            lo, hi, sub = av
            inner = _seq(sub, is_str, dotall)
            parts.append(inner.repeat(lo, None if hi == sc.MAXREPEAT else hi))
        elif op is sc.AT:
            raise AnalysisError("anchor %s in unsupported position" % av)
        else:
            raise AnalysisError("unsupported regex construct %s" % op)
    return L.cat(*parts) if parts else L.eps()


def _case_close(lang):
    def cc(mask):
        out = mask
        for c in range(0x41, 0x5B):
            if (mask >> c) & 1:
                out |= 1 << (c + 32)
            if (mask >> (c + 32)) & 1:
                out |= 1 << c
        return out
    n = NFA()
    s, a = lang.nfa.copy_into(n)
    n.eps[n.start].append(s)
    n.eps[a].append(n.accept)
    for st in range(n.n):
        n.trans[st] = [(cc(m), d) for (m, d) in n.trans[st]]
    return L(n)


class Pattern:
    """Parsed pattern: body language + anchors at the two ends."""

    def __init__(self, pattern, flags=0):
        self.pattern = pattern
        self.flags = flags
        is_str = isinstance(pattern, str)
        import re as _re
        flags = int(flags)
        if isinstance(pattern, bytes):
            flags &= ~int(_re.ASCII)
        else:
            flags &= ~int(_re.UNICODE)
        if flags & ~int(_re.I | _re.M | _re.S | _re.X):
            raise AnalysisError("regex compiled with unsupported flags %r" % (flags,))
        self.icase = bool(flags & _re.I)
        self.multiline = bool(flags & _re.M)
        self.dotall = bool(flags & _re.S)
        if is_str:
            try:
                pattern.encode("latin-1")
            except UnicodeEncodeError:
                raise AnalysisError("non latin-1 str pattern")
        try:
            tree = sp.parse(pattern, flags)
        except Exception as e:
            raise AnalysisError("cannot parse pattern %r: %s" % (pattern, e))
        items = list(tree)
        if is_str and any(op is sc.CATEGORY for op, av in _walk_items(items)):
            raise AnalysisError("\\d/\\s/\\w on a str pattern are Unicode-wide; unsupported")
        self.begin = False
        self.end = None  # None | '$' | '\\Z'
        if items and items[0][0] is sc.AT and items[0][1] in (sc.AT_BEGINNING, sc.AT_BEGINNING_STRING):
            self.begin = True
            items = items[1:]
        if items and items[-1][0] is sc.AT and items[-1][1] in (sc.AT_END, sc.AT_END_STRING):
            self.end = "$" if items[-1][1] is sc.AT_END else "\\Z"
            items = items[:-1]
        self.body = _seq(items, is_str, self.dotall)
        if self.icase:
            self.body = _case_close(self.body)
        self.nfa_items = items

    def tail(self):
        if self.end == "$":
            if self.multiline:
                return L.alt(L.eps(), L.cat(L.lit(b"\n"), L.sigma_star()))
            return L.alt(L.eps(), L.lit(b"\n"))
        if self.end == "\\Z":
            return L.eps()
        return L.sigma_star()

    def language(self, method):
        """Set of subject strings for which `pattern.<method>(s)` succeeds."""
        if method == "fullmatch":
            return self.body
        if method == "match":
            return L.cat(self.body, self.tail())
        if method == "search":
            if self.begin and self.multiline:
                raise AnalysisError("search with ^ under re.M unsupported")
            if self.begin:
                return L.cat(self.body, self.tail())
            return L.cat(L.sigma_star(), self.body, self.tail())
        if method == "match_end_eq_len":
            # m = p.match(s); m and m.end() == len(s): the accepted strings are
            # a subset of L(body); equal when L(body) is prefix-free.
            if self.end == "$":
                # '$' asserts before a final newline without consuming it, so end()==len fails there
                pass
            return self.body
        raise AnalysisError("unknown gate method %s" % method)


def _walk_items(items):
    for op, av in items:
        yield op, av
        if op is sc.IN:
            for x in av:
                yield x
        elif op is sc.BRANCH:
            for b in av[1]:
                yield from _walk_items(b)
        elif op is sc.SUBPATTERN:
            yield from _walk_items(av[3])
        elif op in (sc.MAX_REPEAT, sc.MIN_REPEAT):
            yield from _walk_items(av[2])


# ----------------------------------------------------------------------
# handy languages for contexts and oracles

def no_bytes(chars):
    return L.chars(FULL & ~mask_of(chars)).star()


def no_substring(sub):
    return ~L.cat(L.sigma_star(), L.lit(sub), L.sigma_star())


def stripped_by(lang, strip_mask, left=False, right=True):
    """{ w : strip(w) in lang } where strip removes bytes of strip_mask on the
    chosen sides (semantics of bytes.strip/lstrip/rstrip)."""
    ws = L.chars(strip_mask).star()
    non = L.chars(FULL & ~strip_mask)
    # words that are fixed points of the strip
    core = L.eps()
    if left and right:
        fixed = L.alt(L.eps(), non, L.cat(non, L.sigma_star(), non))
    elif right:
        fixed = L.alt(L.eps(), L.cat(L.sigma_star(), non))
    elif left:
        fixed = L.alt(L.eps(), L.cat(non, L.sigma_star()))
    else:
        return lang
    core = lang & fixed
    parts = []
    if left:
        parts.append(ws)
    parts.append(core)
    if right:
        parts.append(ws)
    return L.cat(*parts)


# ----------------------------------------------------------------------
# ambiguity: exponential degree of ambiguity (EDA) on the Glushkov automaton

class _Glushkov:
    """Position automaton of a parsed pattern (bounded repeats are unrolled)."""

    def __init__(self, items, dotall=False, icase=False):
        self.masks = []  # position -> mask
        self.follow = []  # position -> set(position)
        self.dotall = dotall
        nullable, first, last = self._seq(items)
        self.nullable, self.first, self.last = nullable, first, last

    def _pos(self, mask):
        self.masks.append(mask)
        self.follow.append(set())
        return len(self.masks) - 1

    def _link(self, lasts, firsts):
        for p in lasts:
            self.follow[p] |= firsts

    def _seq(self, items):
        nullable, first, last = True, set(), set()
        for it in items:
            n2, f2, l2 = self._item(it)
            self._link(last, f2)
            if nullable:
                first |= f2
            if n2:
                last = last | l2
            else:
                last = set(l2)
            nullable = nullable and n2
        return nullable, first, last

    def _item(self, it):
        op, av = it
        if op is sc.LITERAL:
            p = self._pos(1 << av)
            return False, {p}, {p}
        if op is sc.NOT_LITERAL:
            p = self._pos(FULL & ~(1 << av))
            return False, {p}, {p}
        if op is sc.ANY:
            p = self._pos(FULL if self.dotall else FULL & ~(1 << 10))
            return False, {p}, {p}
        if op is sc.IN:
            p = self._pos(_in_mask(av))
            return False, {p}, {p}
        if op is sc.BRANCH:
            nullable, first, last = False, set(), set()
            for b in av[1]:
                n2, f2, l2 = self._seq(b)
                nullable = nullable or n2
                first |= f2
                last |= l2
            return nullable, first, last
        if op is sc.SUBPATTERN:
            return self._seq(av[3])
        if op in (sc.MAX_REPEAT, sc.MIN_REPEAT):
            lo, hi, sub = av
            if hi == sc.MAXREPEAT:
                # lo copies followed by a starred copy
                nullable, first, last = True, set(), set()
                for _ in range(lo):
                    n2, f2, l2 = self._seq(sub)
                    self._link(last, f2)
                    if nullable:
                        first |= f2
                    last = (last | l2) if n2 else set(l2)
                    nullable = nullable and n2
                n2, f2, l2 = self._seq(sub)
                self._link(l2, f2)  # the loop
                self._link(last, f2)
                if nullable:
                    first |= f2
                last = last | l2
                return nullable, first, last
            nullable, first, last = True, set(), set()
            opt_lasts = set()
            for i in range(hi):
                n2, f2, l2 = self._seq(sub)
                self._link(last, f2)
                if nullable:
                    first |= f2
                if i >= lo:
                    opt_lasts |= last
                last = (last | l2) if n2 else set(l2)
                nullable = nullable and (n2 or i >= lo)
            last = last | opt_lasts
            if lo == 0:
                nullable = True
            return nullable, first, last
        if op is sc.AT:
            return True, set(), set()
        raise AnalysisError("unsupported regex construct %s for ambiguity analysis" % op)


def has_exponential_ambiguity(pattern, flags=0):
    """True iff the pattern's position automaton has EDA (two distinct loops on one state
    reading the same word) - the source of exponential backtracking. Returns (bool, witness-ish)."""
    tree = sp.parse(pattern, int(flags))
    g = _Glushkov(list(tree))
    n = len(g.masks)
    # product graph over pairs (p, q)
    idx = {}
    succ = {}
    for p in range(n):
        for q in range(n):
            outs = []
            for p2 in g.follow[p]:
                for q2 in g.follow[q]:
                    if g.masks[p2] & g.masks[q2]:
                        outs.append((p2, q2))
            succ[(p, q)] = outs
    # Tarjan SCC (iterative)
    index = {}
    low = {}
    onstack = set()
    stack = []
    sccs = []
    counter = [0]
    for root in succ:
        if root in index:
            continue
        work = [(root, iter(succ[root]))]
        index[root] = low[root] = counter[0]
        counter[0] += 1
        stack.append(root)
        onstack.add(root)
        while work:
            v, it = work[-1]
            advanced = False
            for w in it:
                if w not in index:
                    index[w] = low[w] = counter[0]
                    counter[0] += 1
                    stack.append(w)
                    onstack.add(w)
                    work.append((w, iter(succ[w])))
                    advanced = True
                    break
                elif w in onstack:
                    low[v] = min(low[v], index[w])
            if advanced:
                continue
            work.pop()
            if work:
                u = work[-1][0]
                low[u] = min(low[u], low[v])
            if low[v] == index[v]:
                comp = []
                while True:
                    w = stack.pop()
                    onstack.discard(w)
                    comp.append(w)
                    if w == v:
                        break
                sccs.append(comp)
    for comp in sccs:
        if len(comp) == 1 and comp[0] not in succ[comp[0]]:
            continue
        diag = [c for c in comp if c[0] == c[1]]
        off = [c for c in comp if c[0] != c[1]]
        if diag and off:
            return True, {"positions": n, "state": diag[0][0], "other": off[0]}
    return False, {"positions": n}


def polynomial_ambiguity(pattern, flags=0):
    """Infinite degree of ambiguity (IDA, Weber & Seidl) on the position automaton: two different positions p, q and a
    word v with p -v-> p, p -v-> q and q -v-> q.  A backtracking matcher that fails after x v^k tries every one of the k
    places where the run can move from p to q: super-linear (at least quadratic) time.  Returns None, or a dict with a
    witness (prefix, pump, the two positions)."""
    tree = sp.parse(pattern, int(flags))
    g = _Glushkov(list(tree))
    n = len(g.masks)
    follow = [sorted(f) for f in g.follow]
    # reachability between positions
    reach = []
    for p in range(n):
        seen = set()
        work = list(follow[p])
        while work:
            x = work.pop()
            if x in seen:
                continue
            seen.add(x)
            work.extend(follow[x])
        reach.append(seen)
    cyc = [p for p in range(n) if p in reach[p]]
    for p in cyc:
        for q in cyc:
            if p == q or q not in reach[p]:
                continue
            # BFS over triples from (p, p, q) to (p, q, q); first component stays in p's loop, third in q's loop
            okA = {x for x in range(n) if (x == p or (x in reach[p] and p in reach[x]))}
            okC = {x for x in range(n) if (x == q or (x in reach[q] and q in reach[x]))}
            okB = {x for x in range(n) if (x == p or x in reach[p]) and (x == q or q in reach[x])}
            start = (p, p, q)
            goal = (p, q, q)
            prev = {start: None}
            work = [start]
            found = False
            while work and not found:
                nxt = []
                for (a, b, c) in work:
                    for a2 in follow[a]:
                        if a2 not in okA:
                            continue
                        ma = g.masks[a2]
                        for b2 in follow[b]:
                            if b2 not in okB:
                                continue
                            mab = ma & g.masks[b2]
                            if not mab:
                                continue
                            for c2 in follow[c]:
                                if c2 not in okC:
                                    continue
                                m = mab & g.masks[c2]
                                if not m:
                                    continue
                                t = (a2, b2, c2)
                                if t in prev:
                                    continue
                                prev[t] = ((a, b, c), m)
                                if t == goal:
                                    found = True
                                    break
                                nxt.append(t)
                            if found:
                                break
                        if found:
                            break
                    if found:
                        break
                work = nxt
            if not found:
                continue
            pump = []
            t = goal
            while prev[t] is not None:
                t0, m = prev[t]
                pump.append(_pick(m))
                t = t0
            pump.reverse()
            # a prefix that reaches p from the start
            prevp = {}
            work = [(x, None) for x in sorted(g.first)]
            for x, _ in work:
                prevp[x] = None
            i = 0
            order = [x for x, _ in work]
            while i < len(order) and p not in prevp:
                x = order[i]
                i += 1
                for y in follow[x]:
                    if y not in prevp:
                        prevp[y] = x
                        order.append(y)
            prefix = []
            if p in prevp:
                x = p
                while x is not None:
                    prefix.append(_pick(g.masks[x]))
                    x = prevp[x]
                prefix.reverse()
            return {"positions": n, "p": p, "q": q, "prefix": bytes(prefix), "pump": bytes(pump)}
    return None
