"""C16 — trusted proxy headers: only trusted kinds, only trusted hops, never a crash."""
from __future__ import annotations

import ast

from .. import grammar as G
from ..callgraph import get_callgraph
from ..cfg import cfg_of
from ..excflow import _truthy_guard, enclosing_handlers, handler_catches, primitive_sites, raise_arity, raised_class, route_in_scope
from ..model import AnalysisError, NotConst, dotted, norm, walk_own
from ..relang import Pattern, compare
from .common import cmp_fact, find_calls, guards_of, key_of, leads_only_to_raise, mentions, resolve_locals, str_template, template_text

EXPLANATION = (
    "Containment, guard and shape analysis of proxy_headers.py. (R1) Every explicit raise and every raising primitive "
    "(constant subscripts on possibly empty strings/lists, split-unpacks, int/codec conversions) in parse_proxy_headers, "
    "undquote and strip_brackets is routed through enclosing handlers and call sites and must end as "
    "MalformedProxyHeader caught by the middleware, which answers 400 without calling the application; a guard may sit "
    "at the call site (argument dominated by a truthiness test). (R2) Every read of HTTP_<KIND> and every removal of "
    "<KIND> from the untrusted set is control-dependent on the membership test of the matching kind. (R3) The three "
    "list-valued kinds cut both the parsed list and the raw list by the same suffix slice [-trusted_proxy_count:] and "
    "select element 0 of the suffix (Forwarded: reverse walk with or-fill). (R4) The refusals the property lists exist "
    "and raise. (R5) undquote accepts exactly RFC 9110 quoted-string (language equality on automata; the "
    "match+end()==len idiom is exact because the language is prefix-free). (R6) Forwarded and X-Forwarded-* exclude "
    "each other. The correctness of the selected values for every header text is not decided."
)

ROOT = "proxy_headers.proxy_headers_middleware.translate_proxy_headers"
SCOPE_FUNCS = ("proxy_headers.parse_proxy_headers", "proxy_headers.strip_brackets", "utilities.undquote",
               "proxy_headers.parse_proxy_headers.raise_for_multiple_values", ROOT)
KINDS = {"X_FORWARDED_FOR": "x-forwarded-for", "X_FORWARDED_HOST": "x-forwarded-host", "X_FORWARDED_PROTO": "x-forwarded-proto",
         "X_FORWARDED_PORT": "x-forwarded-port", "X_FORWARDED_BY": "x-forwarded-by", "FORWARDED": "forwarded"}


def _arg_guarded_at_callsites(p, f, param, scope):
    """Every in-scope call of f passes an argument for `param` that is dominated by a truthiness guard."""
    cg = get_callgraph(p)
    sites = [s for s in cg.callers.get(f.qual, []) if s.func.qual in scope]
    if not sites:
        return False
    idx = f.params.index(param)
    for s in sites:
        c = s.node
        if not isinstance(c, ast.Call) or len(c.args) <= idx:
            return False
        a = c.args[idx]
        # unwrap .strip() etc.
        g = cfg_of(s.func)
        from ..excflow import _node_of_call
        n = _node_of_call(g, c)
        if n is None or not _truthy_guard(g, n, a):
            return False
    return True


def rule_r1(ctx):
    rid = "C16.R1"
    ctx.r.rule(rid, "exception containment: everything that can raise on header text in parse_proxy_headers / undquote / strip_brackets ends as MalformedProxyHeader caught by the middleware (400)")
    p = ctx.p
    scope = set(q for q in SCOPE_FUNCS if q in p.functions)
    arity = raise_arity(p)
    n = 0
    for q in sorted(scope - {ROOT}):
        f = p.functions[q]
        g = cfg_of(f)
        reach = g.reachable_nodes()
        sites = []
        for node in g.nodes:
            if node.id in reach and node.kind == "stmt" and isinstance(node.ast, ast.Raise) and node.ast.exc is not None:
                sites.append((node, raised_class(p, f, node, "BaseException"), "raise %s" % norm(node.ast.exc)[:40], {"kind": "raise"}))
        sites += primitive_sites(p, f)
        for (node, exc, desc, info) in sites:
            if info["kind"] == "key":
                e = info["expr"]
                # environ["HTTP_..."] reads: safe under a membership guard; inside a handler they are only reached
                # after the try body raised on that very header's value (hence it is present)
                if isinstance(e.slice, ast.Constant) and str(e.slice.value).startswith(("HTTP_", "REMOTE_", "wsgi.")):
                    def _member_guard(nd, key):
                        return any(pol and isinstance(t, ast.Compare) and isinstance(t.ops[0], ast.In) and norm(t.left) == key for (t, pol) in guards_of(g, nd))
                    in_handler = False
                    for tr in ast.walk(f.node):
                        if not isinstance(tr, ast.Try):
                            continue
                        for h in tr.handlers:
                            if any(x is e for x in ast.walk(h)):
                                # ... unless the body itself can fail on the key being absent: then the handler's read fails too
                                body_reads = [m for m in g.nodes if m.ast is not None and m.kind in ("stmt", "test", "iter") and any(m.ast is y or (m.kind == "test" and getattr(m, "stmt", None) is y) for b in tr.body for y in ast.walk(b))
                                              and any(isinstance(y, ast.Subscript) and isinstance(y.ctx, ast.Load) and norm(y) == norm(e) for y in ast.walk(m.ast.iter if m.kind == "iter" else m.ast))]
                                in_handler = all(_member_guard(m, norm(e.slice)) for m in body_reads)
                    guarded = _member_guard(node, norm(e.slice))
                    set_before = any(isinstance(m.ast, ast.Assign) and any(isinstance(t, ast.Subscript) and norm(t) == norm(e) for t in m.ast.targets) and g.dominates(m, node)
                                     for m in g.nodes if m.kind == "stmt")
                    if in_handler or guarded or set_before or str(e.slice.value) in ("REMOTE_ADDR", "wsgi.url_scheme"):
                        continue
            if info["kind"] == "index" and isinstance(info["expr"].value, ast.Name) and info["expr"].value.id in f.params:
                if _arg_guarded_at_callsites(p, f, info["expr"].value.id, scope):
                    n += 1
                    ctx.r.ok(rid, "%s in %s: every caller passes a value tested non-empty" % (desc, f.name), f.loc(node.ast))
                    continue
            if info["kind"] == "exc-args":
                continue
            n += 1
            res = route_in_scope(p, scope, ROOT, f, node, exc)
            esc = [r for r in res if r[0] == "escape"]
            caught_root = [r for r in res if r[0] == "caught" and r[1].qual == ROOT]
            if esc:
                ctx.r.violation(rid, key_of(f, None, "uncontained::%s::%s" % (exc.split(".")[-1], desc[:40])),
                                "%s (%s) in %s is not converted to MalformedProxyHeader: the middleware lets it escape, i.e. a 500 instead of a 400" % (desc, exc.split(".")[-1], f.qual),
                                f.loc(node.ast), {"path": esc[0][3]})
            elif caught_root or res:
                ctx.r.ok(rid, "%s in %s ends as a handled MalformedProxyHeader / is handled locally" % (desc, f.name), f.loc(node.ast))
    ctx.r.floor(rid, n, 12, "raise sites and raising primitives in the proxy-header code")
    # the middleware's handler answers 400 and does not call the app
    f = p.functions[ROOT]
    hs = [h for h in ast.walk(f.node) if isinstance(h, ast.ExceptHandler) and h.type is not None and "MalformedProxyHeader" in norm(h.type)]
    if not hs:
        ctx.r.violation(rid, key_of(f, None, "no-malformed-handler"), "the middleware does not catch MalformedProxyHeader", f.loc())
    for h in hs:
        bad = any(isinstance(c, ast.Call) and dotted(c.func) == "app" for c in ast.walk(h))
        resp = [c for c in ast.walk(h) if isinstance(c, ast.Call) and dotted(c.func) == "BadRequest"]
        ret = any(isinstance(x, ast.Return) for x in ast.walk(h))
        if resp and ret and not bad:
            ctx.r.ok(rid, "MalformedProxyHeader -> BadRequest (400) response, application not called", f.loc(h))
        else:
            ctx.r.violation(rid, key_of(f, None, "malformed-handler"), "the MalformedProxyHeader handler does not return a 400 response (BadRequest=%s return=%s calls app=%s)" % (bool(resp), ret, bad), f.loc(h))


def rule_r2(ctx):
    rid = "C16.R2"
    ctx.r.rule(rid, "per-kind trust: every read of HTTP_<KIND> and every removal of <KIND> from the untrusted set is control-dependent on the membership test of the matching kind")
    p = ctx.p
    f = p.func("proxy_headers.parse_proxy_headers")
    g = cfg_of(f)
    env = f.params[0]
    n = 0
    for node in g.nodes:
        if node.ast is None or node.kind not in ("stmt", "test"):
            continue
        for x in ast.walk(node.ast):
            kind = None
            what = None
            if isinstance(x, ast.Subscript) and dotted(x.value) == env and isinstance(x.ctx, ast.Load) and isinstance(x.slice, ast.Constant) and str(x.slice.value).startswith("HTTP_") and x.slice.value[5:] in KINDS:
                kind, what = x.slice.value[5:], "read of " + norm(x)
            if isinstance(x, ast.Call) and isinstance(x.func, ast.Attribute) and dotted(x.func.value) == env and x.func.attr == "get" and x.args and isinstance(x.args[0], ast.Constant) \
                    and str(x.args[0].value).startswith("HTTP_") and x.args[0].value[5:] in KINDS:
                kind, what = x.args[0].value[5:], "read of " + norm(x)[:40]
            if isinstance(x, ast.Call) and isinstance(x.func, ast.Attribute) and x.func.attr in ("remove", "discard") and x.args and isinstance(x.args[0], ast.Constant) and x.args[0].value in KINDS:
                kind, what = x.args[0].value, norm(x)
            if isinstance(x, ast.BinOp) and isinstance(x.op, ast.Sub) and norm(x.left) == "PROXY_HEADERS":
                try:
                    removed = p.fold(x.right, f.module)
                except NotConst:
                    removed = None
                if removed and len(removed) == 1 and list(removed)[0] in KINDS:
                    kind, what = list(removed)[0], norm(x)
            if kind is None:
                continue
            n += 1
            want = KINDS[kind]
            ok = any(pol and isinstance(t, ast.Compare) and isinstance(t.ops[0], ast.In) and isinstance(t.left, ast.Constant) and t.left.value == want
                     and dotted(t.comparators[0]) == f.params[2] for (t, pol) in guards_of(g, node))
            # the Forwarded re-write happens under `if forwarded:` whose only definition sits under the right guard
            if not ok and kind == "FORWARDED":
                fw = [m for m in g.nodes if m.kind == "stmt" and isinstance(m.ast, ast.Assign) and any(dotted(t) == "forwarded" for t in m.ast.targets)
                      and not (isinstance(m.ast.value, ast.Constant))]
                ok = bool(fw) and all(any(pol and isinstance(t, ast.Compare) and isinstance(t.left, ast.Constant) and t.left.value == "forwarded" for (t, pol) in guards_of(g, m)) for m in fw) \
                    and any(pol and dotted(t) == "forwarded" for (t, pol) in guards_of(g, node))
            if ok:
                ctx.r.ok(rid, "%s only when '%s' is trusted" % (what[:50], want), f.loc(node.ast))
            else:
                ctx.r.violation(rid, key_of(f, None, "kind-guard::%s::%s" % (kind, what[:30])), "%s is not control-dependent on \"%s\" in trusted_proxy_headers" % (what[:60], want), f.loc(node.ast))
    ctx.r.floor(rid, n, 14, "reads/removals of proxy header kinds")
    # untrusted_headers starts as the full set
    init = [m for m in g.nodes if m.kind == "stmt" and isinstance(m.ast, ast.Assign) and any(dotted(t) == "untrusted_headers" for t in m.ast.targets)]
    if init and norm(init[0].ast.value) in ("set(PROXY_HEADERS)", "PROXY_HEADERS"):
        ctx.r.ok(rid, "the untrusted set starts as all six kinds", f.loc(init[0].ast))
    else:
        ctx.r.violation(rid, key_of(f, None, "untrusted-init"), "the untrusted set does not start as PROXY_HEADERS", f.loc())
    rets = [m for m in g.nodes if m.kind == "stmt" and isinstance(m.ast, ast.Return)]
    if rets and all(dotted(m.ast.value) == "untrusted_headers" for m in rets):
        ctx.r.ok(rid, "the computed untrusted set is returned to the middleware for clearing", f.loc(rets[0].ast))
    else:
        ctx.r.violation(rid, key_of(f, None, "untrusted-return"), "parse_proxy_headers does not return the untrusted set", f.loc())


def _suffix_slice(e, count):
    """e is  X[-count:]"""
    return (isinstance(e, ast.Subscript) and isinstance(e.slice, ast.Slice) and e.slice.upper is None and e.slice.step is None
            and isinstance(e.slice.lower, ast.UnaryOp) and isinstance(e.slice.lower.op, ast.USub) and dotted(e.slice.lower.operand) == count)


def rule_r3(ctx):
    rid = "C16.R3"
    ctx.r.rule(rid, "hop selection: parsed and raw lists are cut by the same suffix slice [-trusted_proxy_count:]; the selected hop is element 0 of the suffix (Forwarded: reverse walk with or-fill)")
    p = ctx.p
    f = p.func("proxy_headers.parse_proxy_headers")
    count = f.params[1]
    slices = []
    for n in walk_own(f.node):
        if isinstance(n, ast.Subscript) and isinstance(n.slice, ast.Slice) and isinstance(n.ctx, ast.Load) and n.slice.step is None:
            if any(isinstance(x, ast.Name) and x.id == count for x in ast.walk(n.slice)) or dotted(n.value) in ("forwarded_for", "forwarded_host_multiple", "proxies", "raw_forwarded_for", "raw_forwarded_host", "raw_forwarded"):
                slices.append(n)
    ctx.r.floor(rid, len(slices), 6, "hop-list slices")
    for s in slices:
        if _suffix_slice(s, count):
            ctx.r.ok(rid, "%s keeps the last trusted_proxy_count hops" % norm(s), f.loc(s))
        else:
            ctx.r.violation(rid, key_of(f, None, "hop-slice::" + norm(s)[:40]), "%s is not the suffix slice [-trusted_proxy_count:]: untrusted (client-supplied) hops are kept or trusted ones dropped" % norm(s), f.loc(s))
    # selection: element 0 of the sliced list
    sel = {}
    for n in walk_own(f.node):
        if isinstance(n, ast.Assign) and isinstance(n.value, ast.Subscript) and not isinstance(n.value.slice, ast.Slice) and isinstance(n.targets[0], ast.Name) \
                and dotted(n.value.value) in ("forwarded_for", "forwarded_host_multiple"):
            sel[n.targets[0].id] = n
    for var in ("client_addr", "forwarded_host"):
        n = sel.get(var)
        if n is None:
            ctx.r.violation(rid, key_of(f, None, "no-selection::" + var), "%s is not selected from the trusted suffix" % var, f.loc())
            continue
        if isinstance(n.value.slice, ast.Constant) and n.value.slice.value == 0:
            # dominated by the slicing re-assignment of the same list
            lst = dotted(n.value.value)
            pre = [m for m in walk_own(f.node) if isinstance(m, ast.Assign) and dotted(m.targets[0]) == lst and _suffix_slice(m.value, count) and dotted(m.value.value) == lst and m.lineno < n.lineno]
            if pre:
                ctx.r.ok(rid, "%s = element 0 of the trusted suffix of %s" % (var, lst), f.loc(n))
            else:
                ctx.r.violation(rid, key_of(f, None, "select-before-slice::" + var), "%s is taken before the list was cut to the trusted suffix" % var, f.loc(n))
        else:
            ctx.r.violation(rid, key_of(f, None, "select-index::" + var), "%s = %s: not the leftmost trusted hop" % (var, norm(n.value)), f.loc(n))
    # the parsed list is index-aligned with the raw list: every iteration over the raw elements appends exactly one entry
    # (or raises); an element that is skipped shifts the window [-trusted_proxy_count:] of one list against the other
    gcf = cfg_of(f)
    for it in [x for x in gcf.nodes if x.kind == "iter" and dotted(x.ast.iter) in ("raw_forwarded",)]:
        apps = [x for x, c in find_calls(gcf, lambda c: dotted(c.func) == "proxies.append") if any(y is x.ast for y in ast.walk(it.ast))]
        body_start = [s for (s, l) in it.succ if l == "loop"]
        if apps and body_start and gcf.path(body_start[0], it, avoid=apps, follow_exc=False) is None:
            ctx.r.ok(rid, "every Forwarded element yields exactly one parsed entry", f.loc(it.ast))
        else:
            ctx.r.violation(rid, key_of(f, None, "forwarded-element-skipped"), "an iteration over the raw Forwarded elements can finish without appending to the parsed list: the parsed and the raw list are cut by the same count but no longer line up (a client-supplied hop is selected)", f.loc(it.ast))
    # every element of the header is parsed (and so validated), the ones left of the trusted window included: the loop
    # runs over the whole split, the cut to the trusted suffix comes afterwards
    for it in [x for x in gcf.nodes if x.kind == "iter" and dotted(x.ast.iter) in ("raw_forwarded",)]:
        src = resolve_locals(f, x.ast.iter) if False else resolve_locals(f, it.ast.iter)
        if isinstance(src, ast.Call) and isinstance(src.func, ast.Attribute) and src.func.attr == "split":
            ctx.r.ok(rid, "all Forwarded elements are parsed before the list is cut to the trusted hops", f.loc(it.ast))
        else:
            ctx.r.violation(rid, key_of(f, None, "forwarded-parse-window"), "the Forwarded elements that are parsed are `%s`, not the whole header: a malformed element outside the trusted window is never looked at and the request is served instead of being answered with 400" % (norm(src)[:60] if src is not None else "?"), f.loc(it.ast))
    # host[:port] / addr[:port] splitting: an IPv6 literal is recognised by its *last* character (`[v6]` has no port,
    # `[v6]:port` has one) - every rsplit(':', 1) of a hop value is guarded by `':' in x` and by x not ending in ']'
    def _conj(t, pol, out):
        """(test, polarity) pairs implied by `t` having truth value `pol`, in the canonical polarity of the flow graph"""
        if isinstance(t, ast.UnaryOp) and isinstance(t.op, ast.Not):
            _conj(t.operand, not pol, out)
        elif isinstance(t, ast.BoolOp) and ((isinstance(t.op, ast.And) and pol) or (isinstance(t.op, ast.Or) and not pol)):
            for v in t.values:
                _conj(v, pol, out)
        elif isinstance(t, ast.Compare) and len(t.ops) == 1 and isinstance(t.ops[0], (ast.NotIn, ast.NotEq)):
            pos = ast.Compare(left=t.left, ops=[ast.In() if isinstance(t.ops[0], ast.NotIn) else ast.Eq()], comparators=t.comparators)
            out.append((pos, not pol))
        elif isinstance(t, ast.Compare) and len(t.ops) == 1 and isinstance(t.ops[0], ast.Eq) and isinstance(t.left, ast.Constant) and not isinstance(t.comparators[0], ast.Constant):
            out.append((ast.Compare(left=t.comparators[0], ops=[ast.Eq()], comparators=[t.left]), pol))
        else:
            out.append((t, pol))

    def _expr_guards(root, e):
        """the tests of the conditional expressions of `root` that enclose `e`"""
        out = []
        def rec(x, acc):
            if x is e:
                out.extend(acc)
                return True
            if isinstance(x, (ast.FunctionDef, ast.AsyncFunctionDef, ast.Lambda)):
                return False
            if isinstance(x, ast.IfExp):
                if rec(x.test, acc):
                    return True
                a = []
                _conj(x.test, True, a)
                if rec(x.body, acc + a):
                    return True
                b = []
                _conj(x.test, False, b)
                return rec(x.orelse, acc + b)
            return any(rec(c, acc) for c in ast.iter_child_nodes(x))
        rec(root, [])
        return out

    def _walk_no_defs(x):
        yield x
        for c in ast.iter_child_nodes(x):
            if isinstance(c, (ast.FunctionDef, ast.AsyncFunctionDef, ast.Lambda)):
                continue
            yield from _walk_no_defs(c)

    nsplit = 0
    for nd, c in find_calls(gcf, lambda c: isinstance(c.func, ast.Attribute) and c.func.attr in ("rsplit", "rpartition") and c.args and isinstance(c.args[0], ast.Constant) and c.args[0].value == ":"):
        x = norm(c.func.value)
        nsplit += 1
        gs = list(guards_of(gcf, nd)) + _expr_guards(nd.ast, c)

        def last_not_bracket(t, pol, x=x):
            if isinstance(t, ast.Compare) and len(t.ops) == 1 and isinstance(t.ops[0], ast.Eq) and norm(t.left) == x + "[-1]" and isinstance(t.comparators[0], ast.Constant) and t.comparators[0].value == "]":
                return not pol
            if isinstance(t, ast.Call) and isinstance(t.func, ast.Attribute) and t.func.attr == "endswith" and norm(t.func.value) == x and t.args and isinstance(t.args[0], ast.Constant) and t.args[0].value == "]":
                return not pol
            return False
        if any(last_not_bracket(t, pol) for (t, pol) in gs):
            ctx.r.ok(rid, "%s is split at its last ':' only when it does not end in ']'" % x, f.loc(nd.ast))
        else:
            ctx.r.violation(rid, key_of(f, None, "ipv6-port-test::" + x), "%s is split into host and port without the test that it does not *end* in ']' (guards: %s): `[v6]:port` keeps its port in the host name, or a bare `[v6]` literal is cut at a colon inside the address" % (x, [norm(t)[:30] for (t, _p) in gs][-3:]), f.loc(nd.ast))
    ctx.r.floor(rid, nsplit, 2, "host:port / addr:port splits")
    # a bare IPv6 address in X-Forwarded-For gets its brackets - and only that: the hop is wrapped when it holds a ':' and no
    # '.' and does not already end in ']' (an `a.b.c.d:port` hop wrapped as well keeps its port inside the address)
    nwrap = 0
    wraps = []
    for nd in gcf.nodes:
        if nd.ast is None or nd.kind not in ("stmt", "branch", "test") or isinstance(nd.ast, (ast.FunctionDef, ast.AsyncFunctionDef, ast.ClassDef)):
            continue
        for e in _walk_no_defs(nd.ast):
            if isinstance(e, (ast.JoinedStr, ast.BinOp, ast.Call)):
                tpl = str_template(e)
                if tpl is not None and template_text(tpl, names=False) == "[{}]":
                    wraps.append((nd, [q for q in tpl if not isinstance(q, str)][0][1], _expr_guards(nd.ast, e)))
    for nd, x, inner in wraps:
        nwrap += 1
        gs = list(guards_of(gcf, nd)) + list(inner)

        def has(ch, want, x=x):
            for (t, pol) in gs:
                if isinstance(t, ast.Compare) and len(t.ops) == 1 and isinstance(t.ops[0], ast.In) and isinstance(t.left, ast.Constant) and t.left.value == ch and norm(t.comparators[0]) == x and pol == want:
                    return True
            return False

        def endb(x=x):
            for (t, pol) in gs:
                if isinstance(t, ast.Compare) and len(t.ops) == 1 and isinstance(t.ops[0], ast.Eq) and norm(t.left) == x + "[-1]" and isinstance(t.comparators[0], ast.Constant) and t.comparators[0].value == "]" and not pol:
                    return True
                if isinstance(t, ast.Call) and isinstance(t.func, ast.Attribute) and t.func.attr == "endswith" and norm(t.func.value) == x and t.args and isinstance(t.args[0], ast.Constant) and t.args[0].value == "]" and not pol:
                    return True
            return False
        for what, okk in (("holds no '.'", has(".", False)), ("holds a ':'", has(":", True)), ("does not end in ']'", endb())):
            if okk:
                ctx.r.ok(rid, "%s is wrapped in brackets only when it %s" % (x, what), f.loc(nd.ast))
            else:
                ctx.r.violation(rid, key_of(f, None, "bare-ipv6-wrap::" + what), "%s is wrapped in brackets without the test that it %s: an IPv4 `addr:port` hop becomes `[addr:port]`, the port is never split off and REMOTE_ADDR is not the address of the hop" % (x, what), f.loc(nd.ast))
    ctx.r.floor(rid, nwrap, 1, "bracket wrapping of bare IPv6 hops")
    # Forwarded: reverse walk with or-fill
    loops = [n for n in walk_own(f.node) if isinstance(n, ast.For) and "proxies" in norm(n.iter)]
    ok = False
    for lp in loops:
        if norm(lp.iter).replace(" ", "") in ("proxies[::-1]", "reversed(proxies)"):
            fills = [x for x in lp.body if isinstance(x, ast.Assign) and isinstance(x.value, ast.BoolOp) and isinstance(x.value.op, ast.Or)]
            good = [x for x in fills if len(x.value.values) == 2 and dotted(x.value.values[1]) == dotted(x.targets[0]) and isinstance(x.value.values[0], ast.Attribute)]
            # the same override spelled as a statement: `if elem.x: var = elem.x`
            good += [x for x in lp.body if isinstance(x, ast.If) and not x.orelse and len(x.body) == 1 and isinstance(x.test, ast.Attribute) and isinstance(x.body[0], ast.Assign)
                     and len(x.body[0].targets) == 1 and isinstance(x.body[0].targets[0], ast.Name) and norm(x.body[0].value) == norm(x.test)]
            if len(good) >= 3:
                ok = True
                ctx.r.ok(rid, "Forwarded: suffix walked right-to-left, each element overriding when it carries the value (leftmost trusted wins)", f.loc(lp))
    if not ok:
        ctx.r.violation(rid, key_of(f, None, "forwarded-walk"), "the Forwarded elements are not walked in reverse with `x = elem.x or x`", f.loc())


def _ne(b):
    """branch node: the outcome `left != right`"""
    c = cmp_fact(b.ast, b.polarity)
    return c is not None and c[0] == "==" and c[3] is False


def rule_r4(ctx):
    rid = "C16.R4"
    ctx.r.rule(rid, "the refusals exist and raise: pair without '=', padded token, padded value, several values for proto and port, scheme outside {http, https}")
    p = ctx.p
    f = p.func("proxy_headers.parse_proxy_headers")
    g = cfg_of(f)

    def has(pred, what, key):
        for b in g.nodes:
            if b.kind == "branch" and pred(b) and leads_only_to_raise(g, b):
                ctx.r.ok(rid, what + " is refused", f.loc(b.ast))
                return
        ctx.r.violation(rid, key_of(f, None, "missing-refusal::" + key), what + " is not refused", f.loc())

    # the padding tests are meaningful only on the text as received: inside the Forwarded element loop nothing strips
    # a pair / token / value except the operands of those tests themselves
    def _has_padding_test(node):
        for c in ast.walk(node):
            if isinstance(c, ast.Compare) and len(c.ops) == 1 and isinstance(c.ops[0], (ast.NotEq, ast.Eq)):
                l, r = norm(c.left), norm(c.comparators[0])
                if l == r + ".strip()" or r == l + ".strip()":
                    return True
        return False
    loops = [x for x in ast.walk(f.node) if isinstance(x, ast.For) and _has_padding_test(x)]
    # the innermost loop(s) holding the padding tests: the loop over the pairs of one forwarded-element
    inner = [x for x in loops if not any(y is not x and any(z is y for z in ast.walk(x)) for y in loops)]
    for lp in inner:
        cmp_operands = set()
        for c in ast.walk(lp):
            if isinstance(c, ast.Compare):
                for o in [c.left] + list(c.comparators):
                    for y in ast.walk(o):
                        cmp_operands.add(id(y))
        for c in ast.walk(lp):
            if isinstance(c, ast.Call) and isinstance(c.func, ast.Attribute) and c.func.attr in ("strip", "lstrip", "rstrip") and not c.args and id(c) not in cmp_operands:
                # strips applied to the whole header value before it is split into elements are outside this loop's body
                if any(c is y for st in lp.body for y in ast.walk(st)):
                    ctx.r.violation(rid, key_of(f, None, "pre-stripped::" + norm(c.func.value)[:30]), "%s removes padding before the padding tests run: a padded forwarded-pair is accepted instead of refused" % norm(c)[:50], f.loc(c))
    # names that are plain copies of one another stand for the same text (`token = token__helper2` left by an expanded helper)
    import re as _re
    par = {}

    def find(x):
        while par.get(x, x) != x:
            x = par[x]
        return x
    for st in ast.walk(f.node):
        if isinstance(st, ast.Assign) and len(st.targets) == 1 and isinstance(st.targets[0], ast.Name) and isinstance(st.value, ast.Name):
            a, b2 = find(st.targets[0].id), find(st.value.id)
            if a != b2:
                keep, drop = (a, b2) if "__" not in a else (b2, a)
                par[drop] = keep

    def canon(txt):
        return _re.sub(r"[A-Za-z_][A-Za-z_0-9]*", lambda m: find(m.group(0)), txt)

    def sides(b):
        c = cmp_fact(b.ast)
        return {canon(c[1]), canon(c[2])}

    def no_equals(b):
        if _ne(b) and "equals" in norm(b.ast) and "'='" in norm(b.ast):
            return True
        # the same refusal spelled as a membership test: `'=' not in pair`
        return isinstance(b.ast, ast.Compare) and len(b.ast.ops) == 1 and isinstance(b.ast.ops[0], ast.In) and isinstance(b.ast.left, ast.Constant) and b.ast.left.value == "=" and b.polarity is False
    has(no_equals, "a forwarded-pair without '='", "pair-without-equals")
    has(lambda b: _ne(b) and sides(b) == {"token.strip()", "token"}, "a padded token", "padded-token")
    has(lambda b: _ne(b) and sides(b) == {"value.strip()", "value"}, "a padded value", "padded-value")
    for var, nm in (("forwarded_proto", "proto"), ("forwarded_port", "port")):
        ok = False
        for b in g.nodes:
            if b.kind == "branch" and b.polarity and isinstance(b.ast, ast.Compare) and isinstance(b.ast.ops[0], ast.In) and isinstance(b.ast.left, ast.Constant) and b.ast.left.value == "," \
                    and dotted(b.ast.comparators[0]) == var:
                # the branch calls the raising helper / raises, inside the try that converts
                rn = [m for m in g.nodes if m.kind == "stmt" and g.dominates(b, m) and (isinstance(m.ast, ast.Raise) or any(isinstance(c, ast.Call) and dotted(c.func) == "raise_for_multiple_values" for c in ast.walk(m.ast)))]
                if rn:
                    ok = True
                    ctx.r.ok(rid, "several values for %s are refused" % nm, f.loc(b.ast))
        if not ok:
            ctx.r.violation(rid, key_of(f, None, "missing-refusal::multi-" + nm), "several comma-separated values for %s are not refused" % nm, f.loc())
    helper = p.functions.get("proxy_headers.parse_proxy_headers.raise_for_multiple_values")
    if helper is not None and any(isinstance(x, ast.Raise) for x in ast.walk(helper.node)):
        ctx.r.ok(rid, "raise_for_multiple_values raises", helper.loc())
    elif helper is not None:
        ctx.r.violation(rid, key_of(helper, None, "helper-not-raising"), "raise_for_multiple_values does not raise", helper.loc())
    # scheme
    ok = False
    for b in g.nodes:
        if b.kind == "branch" and (cmp_fact(b.ast, b.polarity) or ("", "", "", None))[0] == "in" and cmp_fact(b.ast, b.polarity)[3] is False and dotted(b.ast.left) == "forwarded_proto":
            try:
                v = p.fold(b.ast.comparators[0], f.module)
            except NotConst:
                v = None
            if v is not None and set(v) == {"http", "https"} and leads_only_to_raise(g, b):
                ok = True
                ctx.r.ok(rid, "schemes outside {http, https} raise MalformedProxyHeader", f.loc(b.ast))
            elif v is not None:
                ctx.r.violation(rid, key_of(f, None, "scheme-set::" + ",".join(sorted(map(str, v)))), "accepted schemes are %s" % sorted(v), f.loc(b.ast))
                ok = True
    if not ok:
        ctx.r.violation(rid, key_of(f, None, "missing-refusal::scheme"), "an unsupported scheme is not refused", f.loc())
    # the scheme is lower-cased before the test and stored only after it
    st = [m for m in g.nodes if m.kind == "stmt" and isinstance(m.ast, ast.Assign) and any(isinstance(t, ast.Subscript) and isinstance(t.slice, ast.Constant) and t.slice.value == "wsgi.url_scheme" for t in m.ast.targets)]
    for m in st:
        if any((cmp_fact(t, pol) or ("", "", "", None))[0] == "in" and cmp_fact(t, pol)[3] is True and dotted(t.left) == "forwarded_proto" for (t, pol) in guards_of(g, m)):
            ctx.r.ok(rid, "wsgi.url_scheme set only after the scheme test", f.loc(m.ast))
        else:
            ctx.r.violation(rid, key_of(f, None, "scheme-stored-unchecked"), "wsgi.url_scheme is set without the scheme having been tested", f.loc(m.ast))


def rule_r5(ctx):
    rid = "C16.R5"
    ctx.r.rule(rid, "quoted-string validation: undquote accepts exactly RFC 9110 quoted-string (automata), one-sided quotes raise")
    p = ctx.p
    f = p.func("utilities.undquote")
    g = cfg_of(f)
    calls = find_calls(g, lambda c: isinstance(c.func, ast.Attribute) and c.func.attr in ("match", "fullmatch", "search"))
    if not calls:
        ctx.r.violation(rid, key_of(f, None, "no-validation"), "undquote does not validate quoted strings", f.loc())
        return
    for n, c in calls:
        try:
            v = p.fold(c.func.value, f.module)
        except NotConst:
            ctx.r.error(rid, "cannot fold the pattern %s" % norm(c.func.value))
            continue
        pat = Pattern(v.pattern, v.flags)
        meth = c.func.attr
        # whole-string idiom
        mvar = n.ast.targets[0].id if isinstance(n.ast, ast.Assign) and isinstance(n.ast.targets[0], ast.Name) else None
        whole = meth == "fullmatch"
        if not whole and mvar is not None:
            for b in g.nodes:
                if b.kind == "branch" and b.polarity and isinstance(b.ast, ast.Compare) and isinstance(b.ast.ops[0], ast.Eq) and "%s.end()" % mvar in norm(b.ast) and "len(" in norm(b.ast):
                    whole = True
        if whole:
            lang = pat.body
            if meth != "fullmatch" and not lang.prefix_free():
                # accepted strings are a subset of L(body); candidates are confirmed on CPython's re (the regex
                # engine, not waitress, is run on one witness)
                import re as _re
                cre = _re.compile(v.pattern, int(v.flags))
                w = (lang - G.quoted_string).witness()
                subj = w.decode("latin-1") if (w is not None and isinstance(v.pattern, str)) else w
                m = cre.match(subj) if w is not None else None
                if w is not None and m and m.end() == len(subj):
                    ctx.r.violation(rid, key_of(f, None, "quoted-string::over"), "undquote's validation over-accepts: %r is accepted though not a quoted-string" % (w,), f.loc(n.ast), {"witness": repr(w)})
                    continue
                w2 = (G.quoted_string - lang).witness()
                if w2 is not None:
                    ctx.r.violation(rid, key_of(f, None, "quoted-string::under"), "undquote's validation under-accepts: %r is refused though a quoted-string" % (w2,), f.loc(n.ast), {"witness": repr(w2)})
                    continue
                ctx.r.error(rid, "match + end()==len on a language that is not prefix-free: priority semantics not modelled")
                continue
        else:
            lang = pat.language(meth)
        d = compare(lang, G.quoted_string)
        if d is None:
            ctx.r.ok(rid, "%s.%s with the whole-string test accepts exactly quoted-string" % (norm(c.func.value), meth), f.loc(n.ast))
        else:
            ctx.r.violation(rid, key_of(f, None, "quoted-string::" + d["side"]), "undquote's validation %s-accepts: %r (%s)" % (d["side"], d["witness"], "accepted though not a quoted-string" if d["side"] == "over" else "refused though a quoted-string"), f.loc(n.ast),
                            {"witness": repr(d["witness"])})
        # the unquoting is guarded by the match
        unq = [m for m in g.nodes if m.kind in ("stmt",) and m.ast is not None and any(isinstance(x, ast.Subscript) and isinstance(x.ctx, ast.Load) and norm(x.slice) == "1:-1" for x in ast.walk(m.ast))]
        for m in unq:
            if mvar and any(pol and dotted(t) == mvar for (t, pol) in guards_of(g, m)):
                ctx.r.ok(rid, "quotes removed only after validation", f.loc(m.ast))
            else:
                ctx.r.violation(rid, key_of(f, None, "unquote-unvalidated"), "the DQUOTEs are removed without the validation having succeeded", f.loc(m.ast))
    # every normal end of undquote is either the unchanged value (no DQUOTE at either end) or the validated, unquoted
    # value; everything else (one-sided quotes, failed validation) leaves by raising
    mvars = {n.ast.targets[0].id for n, c in calls if isinstance(n.ast, ast.Assign) and isinstance(n.ast.targets[0], ast.Name)}
    allrets = [m for m in g.nodes if m.kind == "stmt" and isinstance(m.ast, ast.Return)]
    stray = []
    for m in allrets:
        gs = guards_of(g, m)
        is_plain = dotted(m.ast.value) == f.params[0] and any((not pol) and isinstance(t, ast.Call) and isinstance(t.func, ast.Attribute) and t.func.attr == "startswith" for (t, pol) in gs) \
            and any((not pol) and isinstance(t, ast.Call) and isinstance(t.func, ast.Attribute) and t.func.attr == "endswith" for (t, pol) in gs)
        is_validated = any(pol and dotted(t) in mvars for (t, pol) in gs)
        if not (is_plain or is_validated):
            stray.append(m)
    falls_off = g.path(g.entry, g.exit, avoid=allrets, follow_exc=False) is not None
    if not stray and not falls_off:
        ctx.r.ok(rid, "anything else (one-sided quotes, failed validation) raises ValueError", f.loc())
    else:
        ctx.r.violation(rid, key_of(f, None, "no-fallthrough-raise"), "undquote does not raise for one-sided quotes / failed validation", f.loc(stray[0].ast) if stray else f.loc())
    rets = [m for m in g.nodes if m.kind == "stmt" and isinstance(m.ast, ast.Return) and dotted(m.ast.value) == f.params[0]]
    plain = [m for m in rets if any((not pol) and isinstance(t, ast.Call) and isinstance(t.func, ast.Attribute) and t.func.attr == "startswith" for (t, pol) in guards_of(g, m))
             and any((not pol) and isinstance(t, ast.Call) and isinstance(t.func, ast.Attribute) and t.func.attr == "endswith" for (t, pol) in guards_of(g, m))]
    if plain:
        ctx.r.ok(rid, "unquoted values are returned unchanged only if they neither start nor end with a DQUOTE", f.loc(plain[0].ast))
    else:
        ctx.r.violation(rid, key_of(f, None, "plain-return-guard"), "a value with a one-sided DQUOTE can be returned as is", f.loc())


def rule_r6(ctx):
    rid = "C16.R6"
    ctx.r.rule(rid, "Forwarded and X-Forwarded-*: with a trusted Forwarded the X-Forwarded kinds are untrusted; the Forwarded values take priority")
    p = ctx.p
    f = p.func("proxy_headers.parse_proxy_headers")
    g = cfg_of(f)
    # the assignment that shrinks the untrusted set once Forwarded is trusted: any spelling, compared by value
    allh = p.const("proxy_headers", "PROXY_HEADERS")
    st = [m for m in g.nodes if m.kind == "stmt" and isinstance(m.ast, ast.Assign) and any(dotted(t) == "untrusted_headers" for t in m.ast.targets)
          and "PROXY_HEADERS" in norm(m.ast.value) and norm(m.ast.value) not in ("PROXY_HEADERS", "set(PROXY_HEADERS)", "frozenset(PROXY_HEADERS)")]
    ok = False
    for m in st:
        try:
            val = p.fold(m.ast.value, f.module)
        except NotConst:
            val = None
        if val is not None and isinstance(allh, (set, frozenset)) and set(val) == set(allh) - {"FORWARDED"}:
            ok = True
            ctx.r.ok(rid, "with Forwarded trusted the untrusted set is PROXY_HEADERS - {FORWARDED}", f.loc(m.ast))
        else:
            ctx.r.violation(rid, key_of(f, None, "forwarded-untrusted-set"), "with Forwarded trusted the untrusted set is %s" % norm(m.ast.value), f.loc(m.ast))
    if not ok and not st:
        ctx.r.violation(rid, key_of(f, None, "forwarded-keeps-x"), "a trusted Forwarded header does not mark the X-Forwarded-* kinds untrusted", f.loc())
    # inside the Forwarded block the per-element variables are reset
    # every value that goes into the parsed entry of an element is (re)defined in that iteration before it is used: a
    # definition inside the loop body dominates the append, and so do the definitions of what it is computed from
    from .common import def_nodes
    its = [x for x in g.nodes if x.kind == "iter" and dotted(x.ast.iter) == "raw_forwarded"]
    apps = [(x, c) for x, c in find_calls(g, lambda c: dotted(c.func) == "proxies.append") if its and any(y is x.ast for y in ast.walk(its[0].ast))]
    if not its or not apps:
        ctx.r.violation(rid, key_of(f, None, "forwarded-no-reset"), "values of one Forwarded element leak into the next (no per-element reset)", f.loc())
    else:
        loop_ast = its[0].ast
        an, ac = apps[0]

        def fresh(name, at, depth=0):
            if depth > 4:
                return False
            ds = [d for d in def_nodes(g, name) if d.ast is not None and any(y is (d.ast if d.kind != "iter" else d.ast) for y in ast.walk(loop_ast)) and g.dominates(d, at) and d is not its[0]]
            if name in [y.id for y in ast.walk(loop_ast.target) if isinstance(y, ast.Name)]:
                return True
            for d in ds:
                val = d.ast.value if isinstance(d.ast, ast.Assign) else None
                if val is None:
                    continue
                free = [y.id for y in ast.walk(val) if isinstance(y, ast.Name) and isinstance(y.ctx, ast.Load)]
                locs = [y for y in free if def_nodes(g, y)]
                if all(fresh(y, d, depth + 1) for y in locs):
                    return True
            return False
        stale = []
        for a in ast.walk(ac):
            if isinstance(a, ast.Name) and isinstance(a.ctx, ast.Load) and def_nodes(g, a.id) and a.id not in ("proxies",) and not fresh(a.id, an):
                stale.append(a.id)
        if not stale:
            ctx.r.ok(rid, "per-element values are reset for every Forwarded element", f.loc(loop_ast))
        else:
            ctx.r.violation(rid, key_of(f, None, "forwarded-no-reset"), "values of one Forwarded element leak into the next (no per-element reset of %s)" % sorted(set(stale)), f.loc(loop_ast))


def rule_r7(ctx):
    """Shared with C20.R4: the configured trusted_proxy_headers are stored lower-cased (the parser looks the kinds up by
    lower-case literals); unknown kinds and Forwarded together with X-Forwarded-* are refused."""
    from . import c20
    c20.rule_r4(ctx, rid="C16.R7")


def _raw_uses(g, var, raw_def, cleans):
    """Forward may-dataflow for one local: which Load uses of `var` can see a value that is still the text as received
    (bound by a cfg node satisfying raw_def, possibly re-bound from itself by strip()/lower()), i.e. not yet re-bound
    from a call satisfying `cleans`.  Returns [(cfg node, Name node)]."""
    def binds(n):
        a = n.ast
        if n.kind == "iter":
            return any(isinstance(x, ast.Name) and x.id == var for x in ast.walk(a.target))
        if n.kind == "stmt" and isinstance(a, ast.Assign):
            return any(isinstance(x, ast.Name) and x.id == var for t in a.targets for x in ast.walk(t))
        return False

    def transfer(n, st):
        if not binds(n):
            return st
        a = n.ast
        if raw_def(n):
            return "raw"
        if n.kind == "stmt" and isinstance(a, ast.Assign):
            v = a.value
            if isinstance(v, ast.Call) and cleans(v):
                return "clean"
            if isinstance(v, ast.Call) and isinstance(v.func, ast.Attribute) and v.func.attr in ("strip", "lstrip", "rstrip", "lower") and dotted(v.func.value) == var:
                return st  # same text, trimmed / case-folded
            return "clean" if not any(isinstance(x, ast.Name) and x.id == var for x in ast.walk(v)) else st
        return "clean"
    IN = {g.entry.id: frozenset({"clean"})}
    work = [g.entry]
    while work:
        n = work.pop()
        out = frozenset(transfer(n, x) for x in IN[n.id])
        for (sx, _l) in n.succ:
            old = IN.get(sx.id)
            new = out if old is None else (old | out)
            if new != old:
                IN[sx.id] = new
                work.append(sx)
    uses = []
    for n in g.nodes:
        if n.id not in IN or "raw" not in IN[n.id] or n.ast is None or n.kind not in ("stmt", "test", "iter"):
            continue
        root = n.ast.iter if n.kind == "iter" else n.ast
        if n.kind == "stmt" and isinstance(root, (ast.FunctionDef, ast.AsyncFunctionDef, ast.ClassDef)):
            continue
        for x in ast.walk(root):
            if isinstance(x, ast.Name) and x.id == var and isinstance(x.ctx, ast.Load):
                uses.append((n, x, root))
    return uses


def _is_member_split(e, txt):
    """e is `<the X-Forwarded-For / -Host header text>.split(",")` itself (not something computed from it)"""
    return isinstance(e, ast.Call) and isinstance(e.func, ast.Attribute) and e.func.attr == "split" and len(e.args) == 1 and isinstance(e.args[0], ast.Constant) and e.args[0].value == "," \
        and ("HTTP_X_FORWARDED_FOR" in txt or "HTTP_X_FORWARDED_HOST" in txt)


def rule_r8(ctx, rid="C16.R8"):
    ctx.r.rule(rid, "every parameter value of a Forwarded element and every X-Forwarded-For/-Host list member is used only after undquote() validated its quoting: while a local still holds the text as received it appears only in comparisons, as the operand of strip()/lower(), or as the argument of undquote (whose failure becomes the 400)")
    from ..callgraph import get_callgraph
    p = ctx.p
    cg = get_callgraph(p)
    f = p.func("proxy_headers.parse_proxy_headers")
    g = cfg_of(f)

    def cleans(c):
        return any(t.qual == "utilities.undquote" for t in cg.callees(c)) or dotted(c.func) == "undquote"
    sources = []
    for n in g.nodes:
        a = n.ast
        if n.kind == "stmt" and isinstance(a, ast.Assign) and isinstance(a.value, ast.Call) and isinstance(a.value.func, ast.Attribute) and a.value.func.attr == "partition" \
                and isinstance(a.targets[0], ast.Tuple) and len(a.targets[0].elts) == 3 and isinstance(a.targets[0].elts[2], ast.Name):
            sources.append((a.targets[0].elts[2].id, n, "the value of a forwarded-pair"))
        if n.kind == "iter" and isinstance(a.target, ast.Name):
            it = a.iter
            src = resolve_locals(f, it) if isinstance(it, ast.Name) else it
            txt = norm(src) if src is not None else ""
            if _is_member_split(src, txt):
                sources.append((a.target.id, n, "a member of %s" % ("X-Forwarded-For" if "FOR" in txt else "X-Forwarded-Host")))
    def use_ok(x, par, var):
        """x: an expression holding the text as received.  Fine when it is compared, handed to undquote, or trimmed /
        case-folded and the result used in one of these ways (or stored back into the same local)."""
        pn = par.get(id(x))
        if isinstance(pn, ast.Compare):
            return True
        if isinstance(pn, ast.Call) and cleans(pn) and pn.args and pn.args[0] is x:
            return True
        if isinstance(pn, ast.Attribute) and pn.attr in ("strip", "lstrip", "rstrip", "lower") and isinstance(par.get(id(pn)), ast.Call) and par[id(pn)].func is pn:
            return use_ok(par[id(pn)], par, var)
        if isinstance(pn, ast.Assign) and pn.value is x and all(isinstance(t, ast.Name) and t.id == var for t in pn.targets):
            return True
        return False
    msg = "%s (`%s`) is used as received in `%s`: its quoting was never validated, a badly quoted value is accepted instead of being answered with 400"
    # comprehensions over the list members: the member is bound for the extent of the comprehension only
    ncomp = 0
    for n in g.nodes:
        if n.ast is None or n.kind not in ("stmt", "test", "iter"):
            continue
        root = n.ast.iter if n.kind == "iter" else n.ast
        if isinstance(root, (ast.FunctionDef, ast.AsyncFunctionDef, ast.ClassDef)):
            continue
        for comp in ast.walk(root):
            if not isinstance(comp, (ast.ListComp, ast.SetComp, ast.GeneratorExp)):
                continue
            for gen in comp.generators:
                if not isinstance(gen.target, ast.Name):
                    continue
                it = gen.iter
                srcx = resolve_locals(f, it) if isinstance(it, ast.Name) else it
                txt = norm(srcx) if srcx is not None else ""
                if not _is_member_split(srcx, txt):
                    continue
                what = "a member of %s" % ("X-Forwarded-For" if "FOR" in txt else "X-Forwarded-Host")
                ncomp += 1
                par = {id(c): pn for pn in ast.walk(comp) for c in ast.iter_child_nodes(pn)}
                bad = [x for x in ast.walk(comp) if isinstance(x, ast.Name) and x.id == gen.target.id and isinstance(x.ctx, ast.Load) and not use_ok(x, par, gen.target.id)]
                if bad:
                    ctx.r.violation(rid, key_of(f, None, "unvalidated-use::%s::%s" % (gen.target.id, norm(comp)[:40])), msg % (what, gen.target.id, norm(comp)[:70]), f.loc(comp))
                else:
                    ctx.r.ok(rid, "%s (`%s`) is used only through undquote()" % (what, gen.target.id), f.loc(comp))
    ctx.r.floor(rid, len(sources) + ncomp, 3, "places where header text enters a local (pair value, X-Forwarded-For member, X-Forwarded-Host member)")
    # every recognised parameter of a forwarded-pair is validated, used or not: from the branch that recognises a token
    # the end of the iteration is reached only through undquote(value)
    for var, src, what in sources:
        if src.kind != "stmt":
            continue
        loops = [x for x in g.nodes if x.kind == "iter" and any(y is src.ast for y in ast.walk(x.ast))]
        if not loops:
            continue
        lp = min(loops, key=lambda x: sum(1 for _ in ast.walk(x.ast)))
        tokv = src.ast.targets[0].elts[0].id if isinstance(src.ast.targets[0].elts[0], ast.Name) else None
        cl = [x for x, c in find_calls(g, lambda c: cleans(c) and c.args and dotted(c.args[0]) == var)]
        for b in g.nodes:
            if b.kind != "branch" or not b.polarity:
                continue
            cf = cmp_fact(b.ast, True)
            if not (cf and cf[0] == "==" and tokv in (cf[1], cf[2]) and isinstance(b.ast, ast.Compare) and any(isinstance(o, ast.Constant) and isinstance(o.value, str) and o.value.isalpha() for o in [b.ast.left] + b.ast.comparators)):
                continue
            if g.path(b, lp, avoid=cl, follow_exc=False) is None:
                ctx.r.ok(rid, "the value of a recognised `%s` parameter always goes through undquote()" % norm(b.ast), f.loc(b.ast))
            else:
                ctx.r.violation(rid, key_of(f, None, "recognised-unvalidated::" + norm(b.ast)[:30]), "a forwarded-pair recognised by `%s` can be taken without undquote(%s): its quoting is never validated, a badly quoted parameter is accepted instead of being answered with 400" % (norm(b.ast), var), f.loc(b.ast))
    for var, src, what in sources:
        bad = []
        for (n, x, root) in _raw_uses(g, var, lambda m, src=src: m is src, cleans):
            par = {id(c): pn for pn in ast.walk(root) for c in ast.iter_child_nodes(pn)}
            if not use_ok(x, par, var):
                bad.append((n, x, root))
        if not bad:
            ctx.r.ok(rid, "%s (`%s`) is used only through undquote()" % (what, var), f.loc(src.ast))
        for (n, x, root) in bad[:1]:
            ctx.r.violation(rid, key_of(f, None, "unvalidated-use::%s::%s" % (var, norm(root)[:40])), msg % (what, var, norm(root)[:70]), f.loc(root))


RULES = [rule_r1, rule_r2, rule_r3, rule_r4, rule_r5, rule_r6, rule_r7, rule_r8]

from ..selftest import M, T, V  # noqa: E402

selftest = [
    M("by-not-validated", "proxy_headers.py", "                        forwarded_by = undquote(value)", "                        forwarded_by = value", "R8"),
    T("by-validated-unused", "proxy_headers.py", "                        forwarded_by = undquote(value)", "                        undquote(value)"),
    M("empty-addr-unguarded", "proxy_headers.py", "        addr = addr.strip()\n        if not addr:\n            raise MalformedProxyHeader(\n                \"Forwarded\" if forwarded else \"X-Forwarded-For\",\n                \"empty client address\",\n                client_addr,\n            )\n", "        addr = addr.strip()\n", "R1"),
    M("index-outside-try", "proxy_headers.py", "            forwarded_host_multiple = forwarded_host_multiple[-trusted_proxy_count:]\n            forwarded_host = forwarded_host_multiple[0]\n\n            untrusted_headers.remove(\"X_FORWARDED_HOST\")", "            forwarded_host_multiple = forwarded_host_multiple[-trusted_proxy_count:]\n\n            untrusted_headers.remove(\"X_FORWARDED_HOST\")", None),
    M("handler-narrowed", "proxy_headers.py", "            untrusted_headers.remove(\"X_FORWARDED_PROTO\")\n        except Exception as ex:", "            untrusted_headers.remove(\"X_FORWARDED_PROTO\")\n        except KeyError as ex:", "R1"),
    M("port-int-unprotected", "proxy_headers.py", "    if forwarded_port:\n        environ[\"SERVER_PORT\"] = str(forwarded_port)", "    if forwarded_port:\n        environ[\"SERVER_PORT\"] = str(int(forwarded_port))", "R1"),
    M("prefix-slice", "proxy_headers.py", "            forwarded_for = forwarded_for[-trusted_proxy_count:]", "            forwarded_for = forwarded_for[:trusted_proxy_count]", "R3"),
    M("raw-slice-differs", "proxy_headers.py", "                raw_forwarded_for[-trusted_proxy_count:]", "                raw_forwarded_for[-trusted_proxy_count - 1:]", "R3"),
    M("select-last", "proxy_headers.py", "            client_addr = forwarded_for[0]", "            client_addr = forwarded_for[-1]", "R3"),
    M("forwarded-forward-walk", "proxy_headers.py", "        for proxy in proxies[::-1]:", "        for proxy in proxies:", "R3"),
    M("host-under-for-guard", "proxy_headers.py", "    if (\n        \"x-forwarded-host\" in trusted_proxy_headers\n        and \"HTTP_X_FORWARDED_HOST\" in environ\n    ):", "    if (\n        \"x-forwarded-for\" in trusted_proxy_headers\n        and \"HTTP_X_FORWARDED_HOST\" in environ\n    ):", "R2"),
    M("by-always-trusted", "proxy_headers.py", "    if \"x-forwarded-by\" in trusted_proxy_headers:\n        # Waitress itself", "    if True:\n        # Waitress itself", "R2"),
    M("ftp-scheme", "proxy_headers.py", "if forwarded_proto not in {\"http\", \"https\"}:", "if forwarded_proto not in {\"http\", \"https\", \"ftp\"}:", "R4"),
    M("no-equals-check", "proxy_headers.py", "                    if equals != \"=\":\n                        raise ValueError('Invalid forwarded-pair missing \"=\"')\n", "", "R4"),
    M("multi-proto-ok", "proxy_headers.py", "            if \",\" in forwarded_proto:\n                raise_for_multiple_values()\n", "", "R4"),
    M("undquote-no-end-check", "utilities.py", "        if matches and matches.end() == len(value):", "        if matches:", "R5"),
    M("qdtext-allows-dquote", "rfc7230.py", 'QDTEXT = "[\\t \\x21\\x23-\\x5b\\\\\\x5d-\\x7e" + OBS_TEXT + "]"', 'QDTEXT = "[\\t \\x21-\\x5b\\\\\\x5d-\\x7e" + OBS_TEXT + "]"', "R5"),
    M("forwarded-keeps-x", "proxy_headers.py", "        untrusted_headers = PROXY_HEADERS - {\"FORWARDED\"}", "        untrusted_headers = untrusted_headers - {\"FORWARDED\"}", "R6"),
    T("count-local", "proxy_headers.py", "    if trusted_proxy_headers is None:\n        trusted_proxy_headers = set()\n", "    if trusted_proxy_headers is None:\n        trusted_proxy_headers = set()\n    hops = trusted_proxy_count\n"),
    T("merge-try", "proxy_headers.py", "        except Exception as ex:\n            raise MalformedProxyHeader(\n                \"X-Forwarded-Port\", str(ex), environ[\"HTTP_X_FORWARDED_PORT\"]\n            )", "        except (Exception,) as ex:\n            raise MalformedProxyHeader(\n                \"X-Forwarded-Port\", str(ex), environ[\"HTTP_X_FORWARDED_PORT\"]\n            )"),
]
