"""C17 — buffers are faithful byte queues across representation changes
(representation invariant, method by method)."""
from __future__ import annotations

import ast

from ..affine import AFile, Bytes, Exec, Lin, State
from ..callgraph import get_callgraph
from ..cfg import cfg_of
from ..model import AnalysisError, dotted, norm, walk_own
from .common import find_calls, guards_of, key_of, resolve_locals

EXPLANATION = (
    "Affine symbolic execution of every method of FileBasedBuffer (and subclasses) over an abstract file (pos, end) and "
    "the remain counter, all paths, linear forms decided by normal form: if end - pos == remain holds on entry it holds "
    "on exit; non-consuming operations leave pos unchanged; consuming ones advance pos and reduce remain by the same "
    "amount; append grows end and remain by len(s) and restores pos; the migrating constructor copies the whole source "
    "from offset 0 to EOF, restores the source position and positions the copy at the source's read position with "
    "remain = end - pos; the read-only buffer's prepare() never sets remain beyond end - pos and restores pos; skip "
    "refuses to pass the end. OverflowableBuffer: every use of the delegate is dominated by a not-None test or by "
    "_create_buffer(), the bytes stage is moved (appended then cleared), each migration passes the old delegate as copy "
    "source and closes it. This is the induction step of a FIFO proof, not FIFO equality over histories; prune() is "
    "outside the property."
)

F = "F"  # the buffer's own file
S = "SRC"  # the source file of a migration


def _base_state(with_src=False):
    st = State()
    st.files[F] = AFile("file")
    st.attrs["self.remain"] = Lin.sym("remain0")
    if with_src:
        st.files[S] = AFile("src")
    return st


def _inv(st, fid=F):
    f = st.files[fid]
    return (f.E - f.P), st.attrs.get("self.remain")


def _subst_inv(lin):
    """Assume the invariant on entry: remain0 = file.end0 - file.pos0."""
    return lin.subst("remain0", Lin.sym("file.end0") - Lin.sym("file.pos0"))


def _run(func, st, file_exprs):
    ex = Exec(func, st, file_exprs)
    return ex.run()


def _check_inv(ctx, rid, func, finals, label):
    ok = True
    for st in finals:
        if st.raised:
            continue
        lhs, rem = _inv(st)
        if not isinstance(rem, Lin):
            ctx.r.error(rid, "%s: remain is not affine on a path" % label)
            return False
        if not (_subst_inv(lhs) == _subst_inv(rem)):
            ok = False
            ctx.r.violation(rid, key_of(func, None, "invariant-broken"),
                            "%s breaks the representation invariant end - pos == remain: on the path assuming %s, end - pos = %s but remain = %s"
                            % (label, _fmt_assume(st), _subst_inv(lhs), _subst_inv(rem)), func.loc())
    return ok


def _fmt_assume(st):
    return "{" + ", ".join("%s=%s" % kv for kv in sorted(st.assume.items())) + "}" if st.assume else "{}"


def rule_r1(ctx, rid="C17.R1"):
    ctx.r.rule(rid, "FileBasedBuffer: every method preserves end - pos == remain on every path; non-consuming operations restore pos; consuming ones move pos and remain together")
    p = ctx.p
    fe = {"self.file": F}
    P0, E0, R0 = Lin.sym("file.pos0"), Lin.sym("file.end0"), Lin.sym("remain0")
    n_paths = 0
    # append
    f = p.func("buffers.FileBasedBuffer.append")
    finals = _run(f, _base_state(), fe)
    n_paths += len(finals)
    if _check_inv(ctx, rid, f, finals, "append"):
        s = Lin.sym("len(%s)" % f.params[1])
        good = all(st.files[F].P == P0 and st.files[F].E == E0 + s and st.attrs["self.remain"] == R0 + s for st in finals)
        if good:
            ctx.r.ok(rid, "append: pos restored, end += len(s), remain += len(s) on %d path(s)" % len(finals), f.loc())
        else:
            st = finals[0]
            ctx.r.violation(rid, key_of(f, None, "append-deltas"), "append: pos=%s end=%s remain=%s (expected pos0, end0+len(s), remain0+len(s))" % (st.files[F].P, st.files[F].E, st.attrs["self.remain"]), f.loc())
    # get
    f = p.func("buffers.FileBasedBuffer.get")
    finals = _run(f, _base_state(), fe)
    n_paths += len(finals)
    if _check_inv(ctx, rid, f, finals, "get"):
        skipname = f.params[2]
        for st in finals:
            res = st.result[1] if st.result else None
            if not isinstance(res, Bytes):
                ctx.r.violation(rid, key_of(f, None, "get-result"), "get does not return the bytes read on path %s" % _fmt_assume(st), f.loc())
                continue
            if st.assume.get(skipname) is True:
                ok = st.files[F].P == P0 + res.len and st.attrs["self.remain"] == R0 - res.len and st.files[F].E == E0
                what = "get(skip=True): pos += len(res), remain -= len(res)"
            else:
                ok = st.files[F].P == P0 and st.attrs["self.remain"] == R0 and st.files[F].E == E0
                what = "get(skip=False): pos and remain unchanged"
            if ok:
                ctx.r.ok(rid, "%s on path %s" % (what, _fmt_assume(st)), f.loc())
            else:
                ctx.r.violation(rid, key_of(f, None, "get-deltas::skip=%s" % st.assume.get(skipname)),
                                "%s violated: pos=%s remain=%s on path %s" % (what, st.files[F].P, st.attrs["self.remain"], _fmt_assume(st)), f.loc())
    # skip
    f = p.func("buffers.FileBasedBuffer.skip")
    finals = _run(f, _base_state(), fe)
    n_paths += len(finals)
    if _check_inv(ctx, rid, f, finals, "skip"):
        N = Lin.sym("len(%s)" % f.params[1])
        for st in finals:
            if st.raised:
                continue
            nb = st.loc.get(f.params[1])
            # numbytes is a parameter: its symbolic value
            moved = st.files[F].P - P0
            if st.attrs["self.remain"] == R0 - moved and st.files[F].E == E0:
                ctx.r.ok(rid, "skip: pos and remain move together (%s)" % moved, f.loc())
            else:
                ctx.r.violation(rid, key_of(f, None, "skip-deltas"), "skip: pos moves by %s but remain becomes %s" % (moved, st.attrs["self.remain"]), f.loc())
    # __len__
    f = p.func("buffers.FileBasedBuffer.__len__")
    rets = [n for n in ast.walk(f.node) if isinstance(n, ast.Return)]
    if len(rets) == 1 and dotted(rets[0].value) == "self.remain":
        ctx.r.ok(rid, "__len__ returns remain", f.loc())
    else:
        ctx.r.violation(rid, key_of(f, None, "len"), "__len__ does not return remain", f.loc())
    # getfile
    f = p.func("buffers.FileBasedBuffer.getfile")
    rets = [n for n in ast.walk(f.node) if isinstance(n, ast.Return)]
    if len(rets) == 1 and dotted(rets[0].value) == "self.file" and len(f.node.body) <= 2:
        ctx.r.ok(rid, "getfile returns the file without moving it", f.loc())
    else:
        ctx.r.violation(rid, key_of(f, None, "getfile"), "getfile does more than returning self.file", f.loc())
    # migrating constructor
    f = p.func("buffers.FileBasedBuffer.__init__")
    st0 = State()
    st0.files[F] = AFile("new")
    st0.files[F].P = Lin.k(0)
    st0.files[F].E = Lin.k(0)  # a freshly created file (checked below)
    st0.files[S] = AFile("src")
    st0.attrs["self.remain"] = Lin.k(0)  # class default
    fe2 = {"self.file": F, f.params[1]: F, "getfile(%s)" % f.params[2]: S}
    st0.alias[f.params[1]] = F
    finals = _run(f, st0, fe2)
    n_paths += len(finals)
    sp, se = Lin.sym("src.pos0"), Lin.sym("src.end0")
    for st in finals:
        frm = st.assume.get("%s is not None" % f.params[2])
        if frm is None and ("%s is None" % f.params[2]) in st.assume:
            frm = not st.assume["%s is None" % f.params[2]]
        if frm is False:
            ok = st.files[F].E - st.files[F].P == st.attrs["self.remain"]
            if ok:
                ctx.r.ok(rid, "__init__ without source: empty file, remain 0", f.loc())
            else:
                ctx.r.violation(rid, key_of(f, None, "init-empty"), "__init__ without source breaks the invariant", f.loc())
            continue
        d, s = st.files[F], st.files[S]
        rem = st.attrs["self.remain"]
        probs = []
        if not (d.E == se):
            probs.append("the copy holds %s bytes, the source %s (whole source must be copied from offset 0)" % (d.E, se))
        if not (d.P == sp):
            probs.append("copy positioned at %s, source read position is %s" % (d.P, sp))
        if not (rem == se - sp):
            probs.append("remain = %s, source had %s unread" % (rem, se - sp))
        if not (s.P == sp):
            probs.append("source position left at %s instead of being restored to %s" % (s.P, sp))
        if probs:
            ctx.r.violation(rid, key_of(f, None, "migration"), "migrating constructor: " + "; ".join(probs), f.loc())
        else:
            ctx.r.ok(rid, "migrating constructor copies the whole source, restores it, positions the copy at the read position, remain = end - pos", f.loc())
    # fresh-file justification: callers pass BytesIO() / self.newfile()
    cg = get_callgraph(p)
    for s in cg.callers.get(f.qual, []):
        c = s.node
        if not isinstance(c, ast.Call):
            continue
        args = list(c.args)
        filearg = None
        if dotted(c.func) and dotted(c.func).endswith("__init__") and len(args) >= 2:
            filearg = args[1]
        elif args:
            filearg = args[0]
        if filearg is None:
            continue
        if isinstance(filearg, ast.Name):
            filearg = resolve_locals(s.func, filearg) or filearg  # file = BytesIO(); ...__init__(self, file, ...)
        txt = norm(filearg)
        if s.func.cls is not None and s.func.cls.name == "ReadOnlyFileBasedBuffer":
            continue
        if txt in ("BytesIO()", "self.newfile()"):
            ctx.r.ok(rid, "constructor called with a freshly created file (%s)" % txt, s.loc)
        else:
            ctx.r.violation(rid, key_of(s.func, None, "init-nonfresh-file"), "FileBasedBuffer.__init__ receives %s, not a freshly created file" % txt, s.loc)
    # the constructors of the concrete representations hand their source on to the migrating constructor: a migration
    # (bytes -> BytesIO -> temp file) that builds the new representation without it starts empty and drops what was queued
    base_init = f
    src_name = base_init.params[2]
    nsub = 0
    for k in sorted(p.classes.values(), key=lambda k: k.qual):
        if k.qual == "buffers.FileBasedBuffer" or base_init.cls not in k.mro or k.name == "ReadOnlyFileBasedBuffer":
            continue
        ki = k.methods.get("__init__")
        if ki is None or len(ki.params) < 2:
            continue
        nsub += 1
        src = ki.params[1]
        gk = cfg_of(ki)
        inits = []
        for nd, c in find_calls(gk, lambda c: isinstance(c.func, ast.Attribute) and c.func.attr == "__init__"):
            via_super = isinstance(c.func.value, ast.Call) and dotted(c.func.value.func) == "super"
            pos = list(c.args) if via_super else list(c.args[1:])
            bound = pos[1] if len(pos) >= 2 else None
            for kw in c.keywords:
                if kw.arg == src_name:
                    bound = kw.value
            inits.append((nd, c, bound))
        bad = [(nd, c, b) for (nd, c, b) in inits if not (isinstance(b, ast.Name) and b.id == src)]
        nones = [x for x in gk.nodes if x.kind == "branch" and isinstance(x.ast, ast.Compare) and dotted(x.ast.left) == src and isinstance(x.ast.comparators[0], ast.Constant) and x.ast.comparators[0].value is None
                 and ((isinstance(x.ast.ops[0], ast.Is) and x.polarity) or (isinstance(x.ast.ops[0], ast.IsNot) and not x.polarity))]
        nones += [x for x in gk.nodes if x.kind == "branch" and dotted(x.ast) == src and x.polarity is False]
        if bad:
            nd, c, b = bad[0]
            ctx.r.violation(rid, key_of(ki, None, "source-not-forwarded"), "%s calls the migrating constructor as %s: its source `%s` is not handed on, a migration to this representation drops every queued byte" % (ki.qual, norm(c)[:70], src), ki.loc(nd.ast))
        elif not inits or gk.path(gk.entry, gk.exit, avoid=[nd for nd, _c, _b in inits] + nones, follow_exc=False) is not None:
            ctx.r.violation(rid, key_of(ki, None, "source-not-forwarded"), "%s can finish without handing its source `%s` to the migrating constructor: a migration to this representation drops every queued byte" % (ki.qual, src), ki.loc())
        else:
            ctx.r.ok(rid, "%s hands `%s` on to the migrating constructor (skipped only when it is None)" % (ki.qual, src), ki.loc())
    ctx.r.floor(rid, nsub, 2, "constructors of concrete file-based representations")
    # a peek / consume asks the file for exactly what the caller asked for: get(n) reads n bytes (or everything for n < 0),
    # not a capped or rounded amount - "at least as many bytes as requested, or everything queued"
    fg = p.func("buffers.FileBasedBuffer.get")
    nb = fg.params[1]
    reads = [c for c in ast.walk(fg.node) if isinstance(c, ast.Call) and isinstance(c.func, ast.Attribute) and c.func.attr == "read"]
    ctx.r.floor(rid, len(reads), 2, "read calls in FileBasedBuffer.get")
    for c in reads:
        if not c.args or (len(c.args) == 1 and isinstance(c.args[0], ast.Name) and c.args[0].id == nb and not c.keywords):
            ctx.r.ok(rid, "get() reads %s" % ("everything" if not c.args else "exactly the requested number of bytes"), fg.loc(c))
        else:
            ctx.r.violation(rid, key_of(fg, None, "get-read-amount"), "FileBasedBuffer.get reads `%s` instead of the %s bytes asked for: a peek can return fewer bytes than requested although more are queued" % (norm(c)[:50], nb), fg.loc(c))
    ctx.r.note("c17_paths", n_paths)
    ctx.r.floor(rid, n_paths, 6, "symbolic paths through FileBasedBuffer methods")


def rule_r2(ctx, rid="C17.R2"):
    ctx.r.rule(rid, "ReadOnlyFileBasedBuffer: prepare() sets remain <= end - pos and restores pos; get() preserves the invariant direction and bounds reads (C03.R6)")
    p = ctx.p
    f = p.func("buffers.ReadOnlyFileBasedBuffer.prepare")
    # strip the seekable test: analyse the body of the `if _is_seekable(...)` branch
    fe = {"self.file": F}
    finals = _run(f, _base_state(), fe)
    P0, E0 = Lin.sym("file.pos0"), Lin.sym("file.end0")
    seen = 0
    for st in finals:
        if not any(k.startswith("_is_seekable") and v for k, v in st.assume.items()):
            continue
        seen += 1
        rem = st.attrs.get("self.remain")
        if not (st.files[F].P == P0 and st.files[F].E == E0):
            ctx.r.violation(rid, key_of(f, None, "prepare-moves-file"), "prepare() leaves the wrapped file at %s (entry position %s)" % (st.files[F].P, P0), f.loc())
            continue
        avail = E0 - P0
        ok = isinstance(rem, Lin) and (rem == avail or any(k == "le" and a == rem and b == avail for (k, a, b) in st.facts))
        if ok:
            ctx.r.ok(rid, "prepare(): pos restored and remain <= end - pos on path %s" % _fmt_assume(st), f.loc())
        else:
            ctx.r.violation(rid, key_of(f, None, "prepare-remain"), "prepare() sets remain = %s, not bounded by the bytes available (%s)" % (rem, avail), f.loc())
        # ... and never more than the size asked for: unless the path established `size is None`, remain <= size
        sz = f.params[1] if len(f.params) > 1 else None
        if sz is not None and isinstance(rem, Lin):
            no_size = st.assume.get("%s is None" % sz) is True or st.assume.get("%s is not None" % sz) is False \
                or st.assume.get("%s == None" % sz) is True or st.assume.get("%s != None" % sz) is False
            S = Lin.sym(sz)
            bounded = rem == S or any(k == "le" and a == rem and b == S for (k, a, b) in st.facts)
            if no_size or bounded:
                ctx.r.ok(rid, "prepare(): remain <= requested size (or no size requested) on path %s" % _fmt_assume(st), f.loc())
            else:
                ctx.r.violation(rid, key_of(f, None, "prepare-exceeds-size"),
                                "prepare(%s) can set remain = %s on a path that has not established `%s is None` (%s): a requested size of 0 prepares the whole file" % (sz, rem, sz, _fmt_assume(st)), f.loc())
    if seen == 0:
        ctx.r.error(rid, "no seekable path found in prepare()")
    from .c03 import rule_r6
    before = len(ctx.r.violations)
    rule_r6(ctx, rid=rid)
    # keep only the read-only buffer part of the shared rule
    ctx.r.violations[before:] = [v for v in ctx.r.violations[before:] if "ReadOnlyFileBasedBuffer" in v["key"]]
    g = p.func("buffers.ReadOnlyFileBasedBuffer.get")
    finals = _run(g, _base_state(), fe)
    R0 = Lin.sym("remain0")
    for st in finals:
        res = st.result[1] if st.result else None
        if not isinstance(res, Bytes):
            ctx.r.violation(rid, key_of(g, None, "ro-get-result"), "read-only get does not return the bytes read", g.loc())
            continue
        if st.assume.get(g.params[2]) is True:
            ok = st.files[F].P == P0 + res.len and st.attrs["self.remain"] == R0 - res.len
        else:
            ok = st.files[F].P == P0 and st.attrs["self.remain"] == R0
        if ok:
            ctx.r.ok(rid, "read-only get: position/remain accounting on path %s" % _fmt_assume(st), g.loc())
        else:
            ctx.r.violation(rid, key_of(g, None, "ro-get-deltas"), "read-only get: pos=%s remain=%s on path %s" % (st.files[F].P, st.attrs["self.remain"], _fmt_assume(st)), g.loc())


def rule_r3(ctx, rid="C17.R3"):
    ctx.r.rule(rid, "OverflowableBuffer: delegate uses are dominated by a not-None test or _create_buffer(); the bytes stage is moved, not duplicated or lost; migrations copy from and close the old delegate")
    p = ctx.p
    cls = p.cls("buffers.OverflowableBuffer")
    n = 0
    # the file view is the delegate's file as it stands - at the read position: handing it out is not an occasion to
    # move it (a rewind makes the consumer read again what was consumed and desynchronises position and count)
    gf = cls.methods.get("getfile")
    if gf is None:
        raise AnalysisError("anchor vanished: OverflowableBuffer.getfile")
    moved = [c for c in ast.walk(gf.node) if isinstance(c, ast.Call) and isinstance(c.func, ast.Attribute) and c.func.attr in ("seek", "read", "readline", "readlines", "write", "truncate", "close", "flush")]
    if moved:
        ctx.r.violation(rid, key_of(gf, None, "getfile-moves-the-file"), "OverflowableBuffer.getfile calls %s on the file it hands out: the view no longer starts at the read position - consumed bytes are delivered again and the unread tail is cut off by the count" % norm(moved[0])[:40], gf.loc(moved[0]))
    else:
        ctx.r.ok(rid, "getfile hands out the delegate's file without touching it", gf.loc())
    for name, f in sorted(cls.methods.items()):
        if name in ("__init__", "prune"):
            continue
        g = cfg_of(f)
        # locals holding the delegate
        for node in g.nodes:
            if node.kind not in ("stmt", "test") or node.ast is None:
                continue
            for c in ast.walk(node.ast):
                if isinstance(c, ast.Call) and isinstance(c.func, ast.Attribute) and isinstance(c.func.value, ast.Call) and dotted(c.func.value.func) == "self._create_buffer":
                    # a call on the freshly created delegate
                    n += 1
                    ctx.r.ok(rid, "%s: %s on the delegate just created" % (name, norm(c)[:40]), f.loc(node.ast))
                    continue
                if isinstance(c, ast.Call) and isinstance(c.func, ast.Attribute) and dotted(c.func.value) in ("buf", "self.buf"):
                    n += 1
                    # buf must be known non-None here
                    safe = False
                    for (t, pol, b) in g.guards(node):
                        if isinstance(t, ast.Compare) and dotted(t.left) in ("buf", "self.buf") and isinstance(t.comparators[0], ast.Constant) and t.comparators[0].value is None:
                            if (isinstance(t.ops[0], ast.IsNot) and pol) or (isinstance(t.ops[0], ast.Is) and not pol):
                                safe = True
                    if not safe:
                        # every path from `buf is None`==True to here passes buf = self._create_buffer()
                        nones = [x for x in g.nodes if x.kind == "branch" and isinstance(x.ast, ast.Compare) and dotted(x.ast.left) in ("buf", "self.buf")
                                 and ((isinstance(x.ast.ops[0], ast.Is) and x.polarity) or (isinstance(x.ast.ops[0], ast.IsNot) and not x.polarity))]
                        creates = [x for x in g.nodes if x.kind == "stmt" and isinstance(x.ast, ast.Assign) and dotted(x.ast.targets[0]) == "buf"
                                   and isinstance(x.ast.value, ast.Call) and dotted(x.ast.value.func) == "self._create_buffer"]
                        defs = [x for x in g.nodes if x.kind == "stmt" and isinstance(x.ast, ast.Assign) and dotted(x.ast.targets[0]) == "buf" and dotted(x.ast.value) == "self.buf"]
                        # a later test of the same local cannot come out "not None" on such a path (the local is only re-bound by the creation)
                        notnones = [x for x in g.nodes if x.kind == "branch" and isinstance(x.ast, ast.Compare) and dotted(x.ast.left) in ("buf", "self.buf")
                                    and isinstance(x.ast.comparators[0], ast.Constant) and x.ast.comparators[0].value is None
                                    and ((isinstance(x.ast.ops[0], ast.Is) and not x.polarity) or (isinstance(x.ast.ops[0], ast.IsNot) and x.polarity))]
                        if nones and all(g.path(x, node, avoid=creates + notnones, follow_exc=False) is None for x in nones) and defs:
                            safe = True
                        elif dotted(c.func.value) == "buf" and not defs and creates and any(g.dominates(cn, node) for cn in creates):
                            # the local is only ever the freshly created delegate
                            safe = True
                        elif f.name == "_create_buffer":
                            # buf = self.buf after _set_*_buffer()
                            sets = [x for x in g.nodes if x.kind == "stmt" and any(isinstance(cc, ast.Call) and dotted(cc.func) in ("self._set_large_buffer", "self._set_small_buffer") for cc in ast.walk(x.ast))]
                            if sets and g.path(g.entry, node, avoid=sets, follow_exc=False) is None:
                                safe = True
                    if safe:
                        ctx.r.ok(rid, "%s: %s on a delegate known to exist" % (name, norm(c)[:40]), f.loc(node.ast))
                    else:
                        ctx.r.violation(rid, key_of(f, None, "delegate-maybe-none::" + norm(c)[:30]), "%s uses the delegate buffer (%s) where it may still be None" % (f.qual, norm(c)[:40]), f.loc(node.ast))
    ctx.r.floor(rid, n, 8, "delegate uses")
    # _create_buffer moves strbuf
    f = p.func("buffers.OverflowableBuffer._create_buffer")
    g = cfg_of(f)
    app = [x for x, c in find_calls(g, lambda c: dotted(c.func) == "buf.append")]
    clr = [x for x in g.nodes if x.kind == "stmt" and isinstance(x.ast, ast.Assign) and dotted(x.ast.targets[0]) == "self.strbuf" and isinstance(x.ast.value, ast.Constant) and x.ast.value.value == b""]
    if app and clr and all(g.dominates(a, c) for a in app for c in clr) and all(norm(c.args[0]) in ("self.strbuf", "strbuf") for x in app for c in [cc for cc in ast.walk(x.ast) if isinstance(cc, ast.Call) and dotted(cc.func) == "buf.append"]):
        # and on every path where strbuf is non-empty both happen
        ctx.r.ok(rid, "_create_buffer appends the bytes stage to the new delegate, then clears it", f.loc())
    else:
        ctx.r.violation(rid, key_of(f, None, "strbuf-move"), "_create_buffer does not move the bytes stage (append to the delegate, then clear): bytes are lost or duplicated", f.loc())
    for a in app:
        gs = guards_of(g, a)
        if all(dotted(t) in ("strbuf", "self.strbuf") and pol for (t, pol) in gs):
            ctx.r.ok(rid, "the move is only skipped for an empty bytes stage", f.loc(a.ast))
        else:
            ctx.r.violation(rid, key_of(f, None, "strbuf-move-guard"), "the move of the bytes stage is guarded by %s" % [(norm(t), pol) for (t, pol) in gs], f.loc(a.ast))
    # migrations
    for mname, target in (("_set_small_buffer", "BytesIOBasedBuffer"), ("_set_large_buffer", "TempfileBasedBuffer")):
        f = p.func("buffers.OverflowableBuffer." + mname)
        g = cfg_of(f)
        old = [x for x in g.nodes if x.kind == "stmt" and isinstance(x.ast, ast.Assign) and isinstance(x.ast.targets[0], ast.Name) and dotted(x.ast.value) == "self.buf"]
        new = [x for x in g.nodes if x.kind == "stmt" and isinstance(x.ast, ast.Assign) and dotted(x.ast.targets[0]) == "self.buf" and isinstance(x.ast.value, ast.Call)]
        if not old or not new:
            ctx.r.violation(rid, key_of(f, None, "migration-shape"), "%s does not capture the old delegate and install a new one" % mname, f.loc())
            continue
        ov = old[0].ast.targets[0].id
        c = new[0].ast.value
        if dotted(c.func) == target and c.args and dotted(c.args[0]) == ov and g.dominates(old[0], new[0]):
            ctx.r.ok(rid, "%s: new %s copies from the old delegate" % (mname, target), f.loc(new[0].ast))
        else:
            ctx.r.violation(rid, key_of(f, None, "migration-source"), "%s builds %s instead of %s(<old delegate>): queued bytes are dropped" % (mname, norm(c), target), f.loc(new[0].ast))
        cl = [x for x, cc in find_calls(g, lambda cc: dotted(cc.func) == ov + ".close")]
        if cl and all(g.dominates(new[0], x) for x in cl):
            ctx.r.ok(rid, "%s closes the old delegate after the copy" % mname, f.loc(cl[0].ast))
        else:
            ctx.r.violation(rid, key_of(f, None, "old-not-closed"), "%s does not close the old delegate after copying (or closes it before)" % mname, f.loc())
    # bytes-stage accounting
    f = p.func("buffers.OverflowableBuffer.__len__")
    txt = norm(f.node)
    if "buf.__len__()" in txt and "self.strbuf.__len__()" in txt or "len(self.strbuf)" in txt:
        ctx.r.ok(rid, "__len__ = delegate length, or length of the bytes stage", f.loc())
    else:
        ctx.r.violation(rid, key_of(f, None, "ofb-len"), "OverflowableBuffer.__len__ does not report delegate / bytes-stage length", f.loc())
    f = p.func("buffers.OverflowableBuffer.append")
    g = cfg_of(f)
    cat = [x for x in g.nodes if x.kind == "stmt" and isinstance(x.ast, ast.Assign) and dotted(x.ast.targets[0]) == "self.strbuf"]
    if cat and all(norm(x.ast.value) in ("strbuf + s", "self.strbuf + s") for x in cat):
        ctx.r.ok(rid, "bytes-stage append concatenates at the end", f.loc(cat[0].ast))
    else:
        ctx.r.violation(rid, key_of(f, None, "strbuf-append"), "bytes-stage append is %s" % [norm(x.ast.value) for x in cat], f.loc())
    da = [x for x, cc in find_calls(g, lambda cc: dotted(cc.func) == "buf.append")]
    if da and all(norm([cc for cc in ast.walk(x.ast) if isinstance(cc, ast.Call)][0].args[0]) == f.params[1] for x in da) and g.path(g.entry, g.exit, avoid=da + [x for x in g.nodes if x.kind == "stmt" and isinstance(x.ast, ast.Return)], follow_exc=False) is None:
        ctx.r.ok(rid, "delegate append forwards exactly s on every path that does not stay in the bytes stage", f.loc(da[0].ast))
    else:
        ctx.r.violation(rid, key_of(f, None, "delegate-append"), "OverflowableBuffer.append can return without storing s", f.loc())
    f = p.func("buffers.OverflowableBuffer.get")
    g = cfg_of(f)
    fw = [x for x in g.nodes if x.kind == "stmt" and isinstance(x.ast, ast.Return) and isinstance(x.ast.value, ast.Call) and dotted(x.ast.value.func) == "buf.get"]
    def _bound(c, names):
        """argument texts of call c in the order of the delegate's parameter names (positional or by keyword)"""
        out = [norm(a) for a in c.args]
        kws = {k.arg: norm(k.value) for k in c.keywords}
        for nm in names[len(out):]:
            if nm in kws:
                out.append(kws[nm])
        return out
    if fw and _bound(fw[0].ast.value, ["numbytes", "skip"]) == [f.params[1], f.params[2]]:
        ctx.r.ok(rid, "get forwards (numbytes, skip) to the delegate", f.loc(fw[0].ast))
    else:
        ctx.r.violation(rid, key_of(f, None, "get-forward"), "OverflowableBuffer.get does not forward (numbytes, skip) unchanged", f.loc())
    rs = [x for x in g.nodes if x.kind == "stmt" and isinstance(x.ast, ast.Return) and dotted(x.ast.value) in ("strbuf", "self.strbuf")]
    if rs and all(any((not pol) and dotted(t) == f.params[2] for (t, pol) in guards_of(g, x)) for x in rs):
        ctx.r.ok(rid, "bytes-stage peek returns the whole stage only when not consuming", f.loc(rs[0].ast))
    else:
        ctx.r.violation(rid, key_of(f, None, "strbuf-peek"), "the bytes stage is returned by a consuming get without being removed", f.loc())
    f = p.func("buffers.OverflowableBuffer.skip")
    g = cfg_of(f)
    cl2 = [x for x in g.nodes if x.kind == "stmt" and isinstance(x.ast, ast.Assign) and dotted(x.ast.targets[0]) == "self.strbuf"]
    for x in cl2:
        if any(pol and isinstance(t, ast.Compare) and isinstance(t.ops[0], ast.Eq) and "len(self.strbuf)" in norm(t) and f.params[1] in norm(t) for (t, pol) in guards_of(g, x)):
            ctx.r.ok(rid, "bytes-stage skip only clears when numbytes == len(strbuf)", f.loc(x.ast))
        else:
            ctx.r.violation(rid, key_of(f, None, "strbuf-skip"), "the bytes stage is cleared by skip() without numbytes == len(strbuf)", f.loc(x.ast))
    # every normal path through skip() consumes: it clears the bytes stage or reaches the delegate's skip
    dsk = [x for x, c in find_calls(g, lambda c: isinstance(c.func, ast.Attribute) and c.func.attr == "skip" and dotted(c.func.value) in ("buf", "self.buf"))]
    pth = g.path(g.entry, g.exit, avoid=cl2 + dsk, follow_exc=False)
    if pth is None and (cl2 or dsk):
        ctx.r.ok(rid, "every normal path of skip() clears the bytes stage or skips in the delegate", f.loc())
    else:
        ctx.r.violation(rid, key_of(f, None, "skip-consumes-nothing"), "OverflowableBuffer.skip can return without consuming anything (%s): the bytes just sent are sent again" % (g.describe_path(pth) if pth else "no consuming statement"), f.loc())
    fw = [x for x, cc in find_calls(g, lambda cc: dotted(cc.func) == "buf.skip")]
    if fw and norm([cc for cc in ast.walk(fw[0].ast) if isinstance(cc, ast.Call)][0].args[0]) == f.params[1]:
        ctx.r.ok(rid, "skip forwards numbytes to the delegate", f.loc(fw[0].ast))
    else:
        ctx.r.violation(rid, key_of(f, None, "skip-forward"), "OverflowableBuffer.skip does not forward numbytes", f.loc())


def rule_r4(ctx, rid="C17.R4"):
    ctx.r.rule(rid, "skip refuses to move past the end: the seek is dominated by `remain < numbytes -> raise`")
    p = ctx.p
    f = p.func("buffers.FileBasedBuffer.skip")
    g = cfg_of(f)
    seeks = [n for n, c in find_calls(g, lambda c: dotted(c.func) == "self.file.seek")]
    if not seeks:
        raise AnalysisError("skip no longer seeks")
    nb = f.params[1]
    for s in seeks:
        ok = any((not pol) and isinstance(t, ast.Compare) and norm(t).replace(" ", "") in ("self.remain<%s" % nb, "%s>self.remain" % nb) for (t, pol) in guards_of(g, s)) or \
            any(pol and isinstance(t, ast.Compare) and norm(t).replace(" ", "") in ("self.remain>=%s" % nb, "%s<=self.remain" % nb) for (t, pol) in guards_of(g, s))
        if ok:
            ctx.r.ok(rid, "seek only when numbytes <= remain", f.loc(s.ast))
        else:
            ctx.r.violation(rid, key_of(f, None, "skip-past-end"), "skip() can move the read position past the queued bytes", f.loc(s.ast))


def rule_r5(ctx, rid="C17.R5"):
    ctx.r.rule(rid, "prune() is not part of the server's buffer protocol: it replaces the file by a copy positioned at its end (position and remain no longer agree until the next seek) and may switch representation; no operation the server issues (append / get / skip / len / getfile / close) reaches it")
    from ..callgraph import get_callgraph
    p = ctx.p
    cg = get_callgraph(p)
    prunes = [f for q, f in p.functions.items() if f.name == "prune" and f.module.name == "buffers"]
    ctx.r.floor(rid, len(prunes), 2, "prune methods")
    for f in prunes:
        callers = [s for s in cg.callers.get(f.qual, []) if s.func.name != "prune"]
        if not callers:
            ctx.r.ok(rid, "%s is only called by another prune()" % f.qual, f.loc())
        for s in callers:
            ctx.r.violation(rid, key_of(s.func, None, "prune-on-server-path::" + f.qual), "%s calls %s: after it the buffer's file is positioned at its end while remain still counts the unread bytes - get() returns nothing although len() > 0 (or the bytes are dropped when the representation switches back)" % (s.func.qual, f.qual), s.loc)


RULES = [rule_r1, rule_r2, rule_r3, rule_r4, rule_r5]

from ..selftest import M, T, V  # noqa: E402

selftest = [
    M("tempfile-ctor-drops-source", "buffers.py", "        FileBasedBuffer.__init__(self, self.newfile(), from_buffer)", "        super().__init__(self.newfile())", "R1"),
    T("tempfile-ctor-super", "buffers.py", "        FileBasedBuffer.__init__(self, self.newfile(), from_buffer)", "        super().__init__(self.newfile(), from_buffer)"),
    M("append-no-restore", "buffers.py", "        file.seek(0, 2)\n        file.write(s)\n        file.seek(read_pos)\n        self.remain = self.remain + len(s)", "        file.seek(0, 2)\n        file.write(s)\n        self.remain = self.remain + len(s)", "R1"),
    M("append-off-by-one", "buffers.py", "        self.remain = self.remain + len(s)\n", "        self.remain = self.remain + len(s) + 1\n", "R1"),
    M("get-skip-by-request", "buffers.py", "        if skip:\n            self.remain -= len(res)\n        else:\n            file.seek(read_pos)\n        return res\n\n    def skip", "        if skip:\n            self.remain -= numbytes\n        else:\n            file.seek(read_pos)\n        return res\n\n    def skip", "R1"),
    M("get-peek-no-restore", "buffers.py", "        if skip:\n            self.remain -= len(res)\n        else:\n            file.seek(read_pos)\n        return res\n\n    def skip", "        if skip:\n            self.remain -= len(res)\n        return res\n\n    def skip", "R1"),
    M("migration-no-rewind", "buffers.py", "            read_pos = from_file.tell()\n            from_file.seek(0)\n", "            read_pos = from_file.tell()\n", "R1"),
    M("migration-pos-zero", "buffers.py", "            from_file.seek(read_pos)\n            file.seek(read_pos)", "            from_file.seek(read_pos)\n            file.seek(0)", "R1"),
    M("migration-source-not-restored", "buffers.py", "            from_file.seek(read_pos)\n            file.seek(read_pos)", "            file.seek(read_pos)", "R1"),
    M("migration-remain-total", "buffers.py", "            self.remain = int(file.tell() - read_pos)", "            self.remain = int(file.tell())", "R1"),
    M("skip-no-guard", "buffers.py", "        if self.remain < numbytes:\n            raise ValueError(\n                \"Can't skip %d bytes in buffer of %d bytes\" % (numbytes, self.remain)\n            )\n", "", "R4"),
    M("skip-remain-unchanged", "buffers.py", "        self.file.seek(numbytes, 1)\n        self.remain = self.remain - numbytes", "        self.file.seek(numbytes, 1)", "R1"),
    M("prepare-no-restore", "buffers.py", "            end_pos = self.file.tell()\n            self.file.seek(start_pos)\n", "            end_pos = self.file.tell()\n", "R2"),
    M("prepare-size-unclamped", "buffers.py", "                self.remain = min(fsize, size)", "                self.remain = size", "R2"),
    M("create-buffer-no-clear", "buffers.py", "            buf.append(self.strbuf)\n            self.strbuf = b\"\"\n        return buf", "            buf.append(self.strbuf)\n        return buf", "R3"),
    M("create-buffer-no-move", "buffers.py", "            buf.append(self.strbuf)\n            self.strbuf = b\"\"\n        return buf", "            self.strbuf = b\"\"\n        return buf", "R3"),
    M("migrate-from-nothing", "buffers.py", "        self.buf = TempfileBasedBuffer(oldbuf)", "        self.buf = TempfileBasedBuffer()", "R3"),
    M("use-before-create", "buffers.py", "        buf = self.buf\n        if buf is None:\n            buf = self._create_buffer()\n        return buf.getfile()", "        buf = self.buf\n        return buf.getfile()", "R3"),
    M("strbuf-prepend", "buffers.py", "                self.strbuf = strbuf + s\n", "                self.strbuf = s + strbuf\n", "R3"),
    M("consuming-get-on-strbuf", "buffers.py", "            if not skip:\n                return strbuf\n            buf = self._create_buffer()\n        return buf.get(numbytes, skip)", "            return strbuf\n        return buf.get(numbytes, skip)", "R3"),
    T("seek-end-constant", "buffers.py", "        read_pos = file.tell()\n        file.seek(0, 2)\n        file.write(s)", "        import os\n        read_pos = file.tell()\n        file.seek(0, os.SEEK_END)\n        file.write(s)"),
    T("remain-augassign", "buffers.py", "        self.remain = self.remain + len(s)\n", "        self.remain += len(s)\n"),
    T("skip-guard-flipped", "buffers.py", "        if self.remain < numbytes:\n            raise ValueError(", "        if numbytes > self.remain:\n            raise ValueError("),
]
