"""C10 — framing-critical tokens are accepted exactly per grammar.

Decided on automata: for each token the regular language of values that can
reach the place where the token is *consumed* (numeric conversion, header
store, request-line success return) is computed by the string abstract
interpreter (strlang) and compared with the RFC grammar.  Independent of how
the check is written (which regex, match vs fullmatch, manual tests).
"""
from __future__ import annotations

import ast

from .. import grammar as G
from ..cfg import cfg_of
from ..model import AnalysisError, dotted, norm
from ..relang import L, mask_bytes, mask_of
from ..strlang import DictV, Interp, IntFind, MatchV, Poison, Str
from .common import Ctx, cfg_nodes_with_ast, calls_in, find_calls, key_of, node_exprs, leads_only_to_raise, assigned_names, guards_of, resolve_locals

EXPLANATION = (
    "Static decision on regular languages: the source of parser.py/receiver.py/rfc7230.py is parsed, the compiled "
    "patterns are constant-folded (no import), translated to automata with CPython's match/fullmatch/$ semantics, and a "
    "forward abstract interpretation over the CFG (domain: regular languages of byte strings) computes, for each "
    "framing-critical token, the exact language of values that can reach the point where it is consumed. That language "
    "is compared with the RFC 9110/9112 grammar automaton (equality, both directions) - all strings of every length. "
    "A failure names the construct and prints a shortest witness per witness class."
)


def get_interp(ctx):
    def mk():
        it = Interp(ctx.p, attr_values={"self.headers": lambda: DictV(None)})
        it.analyse(ctx.p.func("parser.HTTPRequestParser.received"))
        it.analyse(ctx.p.func("receiver.ChunkedReceiver.received"))
        return it
    return ctx.memo("strlang-interp", mk)


def _int_calls(an):
    """[(node, call, base)] for int(x[, base]) calls in an analysed function."""
    out = []
    for n in cfg_nodes_with_ast(an.cfg):
        if n.id not in an.inst:
            continue
        for root in node_exprs(n):
            for c in calls_in(root):
                if isinstance(c.func, ast.Name) and c.func.id == "int" and c.args:
                    base = 10
                    if len(c.args) > 1:
                        b = c.args[1]
                        base = b.value if isinstance(b, ast.Constant) else None
                    for kw in c.keywords:
                        if kw.arg == "base":
                            base = kw.value.value if isinstance(kw.value, ast.Constant) else None
                    out.append((n, c, base))
    return out


def _report_value(ctx, rid, gate, func, node, val, oracle, allowed_strip_mask, what, detail_ctx="", numeric=False):
    """Compare an abstract value at a sink with the grammar oracle."""
    r = ctx.r
    loc = func.loc(node.ast if hasattr(node, "ast") else node)
    if isinstance(val, Poison):
        r.error(rid, "%s: value at %s not modelled: %s" % (gate, loc, val.reason))
        return
    if not isinstance(val, Str):
        r.error(rid, "%s: unexpected abstract value %s at %s" % (gate, type(val).__name__, loc))
        return
    bad = False
    diff = val.lang - oracle
    for cls, w in G.classify_excess(diff, numeric):
        bad = True
        r.violation(
            rid,
            "%s:over:%s" % (gate, cls),
            "%s over-accepts (%s): e.g. %r reaches %s but is not in the grammar" % (gate, cls, w, what),
            loc,
            {"witness": repr(w), "side": "over", "class": cls, "sink": norm(node.ast)[:100] if hasattr(node, "ast") else ""},
        )
    for tag in val.strips:
        if tag[1] == "ordefault":
            replaced = get_interp(ctx).langs_by_sig.get(tag[2])
            if replaced is None:
                continue
            for cls, w in G.classify_excess(replaced - oracle, numeric):
                bad = True
                r.violation(
                    rid, "%s:default-substituted:%s" % (gate, cls),
                    "%s: `%s` replaces the raw value %r by a default before the gate: the malformed token is accepted" % (gate, tag[3], w),
                    loc, {"witness": repr(w), "side": "over", "class": "pre-gate-default"})
            continue
        (line, meth, mask, text) = tag
        extra = mask & ~allowed_strip_mask
        if extra:
            bad = True
            base = val.lang.witness() or b""
            chars = bytes(mask_bytes(extra))
            pick = b"\x0b" if 0x0B in chars else chars[:1]
            w = (pick + base) if meth == "lstrip" else (base + pick)
            r.violation(
                rid,
                "%s:strip:%s:%s" % (gate, meth, chars.hex()),
                "%s: %s before the gate removes bytes %r that the grammar does not allow around the token: e.g. %r is accepted"
                % (gate, text, chars, w),
                loc,
                {"witness": repr(w), "side": "over", "class": "pre-gate-strip", "strip": text},
            )
    if not bad:
        r.ok(rid, "%s: values reaching %s are within the grammar (%d-state DFA)%s" % (gate, what, val.lang.dfa().n_states(), detail_ctx), loc)


def _under(ctx, rid, gate, an, var, oracle, func, sink=None):
    """Under-acceptance: every regex gate applied to `var` must accept all
    grammar strings among its possible subjects."""
    it = get_interp(ctx)
    n_g = 0
    for n in an.cfg.nodes:
        if n.kind != "branch" or n.id not in an.inst or not n.polarity:
            continue
        st = an.inst[n.id]
        e = n.ast
        mv = None
        if isinstance(e, ast.Name) and isinstance(st.get(e.id), MatchV):
            mv = st[e.id]
        elif isinstance(e, ast.Call) and isinstance(e.func, ast.Attribute) and e.func.attr in ("match", "fullmatch", "search"):
            v = it.eval(an, e, st, n)
            if isinstance(v, MatchV):
                mv = v
        elif isinstance(e, ast.Compare) and isinstance(e.left, ast.Name) and isinstance(st.get(e.left.id), MatchV):
            mv = st[e.left.id]
        elif isinstance(e, ast.Compare) and isinstance(e.left, ast.Call):
            v = it.eval(an, e.left, st, n)
            if isinstance(v, MatchV):
                mv = v
        if mv is None or mv.var != var or mv.subject is None:
            continue
        if sink is not None and n.pred and not an.cfg.dominates(n.pred[0][0], sink):
            continue  # a gate on another variable of the same name elsewhere in the function
        n_g += 1
        missing = (oracle & mv.subject.lang) - mv.lang
        w = missing.witness()
        if w is not None:
            ctx.r.violation(
                rid, "%s:under" % gate,
                "%s under-accepts: %r is in the grammar but refused by %s.%s" % (gate, w, mv.pattern, mv.method),
                func.loc(n.ast), {"witness": repr(w), "side": "under"})
        else:
            ctx.r.ok(rid, "%s: gate %s.%s refuses no grammar string" % (gate, mv.pattern, mv.method), func.loc(n.ast))
    return n_g


# ----------------------------------------------------------------------
def rule_g1(ctx, rid="C10.G1"):
    """Content-Length = 1*DIGIT at the numeric conversion in parse_header."""
    ctx.r.rule(rid, "Content-Length accepted iff 1*DIGIT (value language at int() in parse_header)")
    it = get_interp(ctx)
    f = ctx.p.func("parser.HTTPRequestParser.parse_header")
    ans = it.by_func.get(f.qual, [])
    if not ans:
        raise AnalysisError("parse_header not reached from HTTPRequestParser.received")
    sinks = 0
    for an in ans:
        # the FixedStreamReceiver length argument must come from int() of the gated value (R10 / R6)
        fsr = find_calls(an.cfg, lambda c: (dotted(c.func) or "").endswith("FixedStreamReceiver"))
        for n, c, base in _int_calls(an):
            arg = c.args[0]
            val = it.eval(an, arg, an.inst[n.id], n)
            if not isinstance(val, (Str, Poison)):
                continue
            sinks += 1
            if base != 10:
                ctx.r.violation(rid, "G1:base", "Content-Length converted with base %r" % (base,), f.loc(n.ast))
                continue
            _report_value(ctx, rid, "G1 Content-Length", f, n, val, G.content_length, G.WSP, "int()", numeric=True)
            if isinstance(arg, ast.Name):
                _under(ctx, rid, "G1 Content-Length", an, arg.id, G.content_length, f, sink=n)
        for n, c in fsr:
            a0 = c.args[0] if c.args else None
            ok = False
            if isinstance(a0, ast.Name):
                # the variable must have been assigned from int(...) of a checked value
                for m, c2, base in _int_calls(an):
                    if isinstance(m.ast, ast.Assign) and a0.id in sum((assigned_names(t) for t in m.ast.targets), []) and an.cfg.dominates(m, n):
                        ok = True
            if ok:
                ctx.r.ok(rid, "fixed-length receiver gets int() of the gated Content-Length", f.loc(n.ast))
            else:
                ctx.r.violation(rid, "G1:receiver-arg", "FixedStreamReceiver length %s is not the converted gated value" % norm(a0), f.loc(n.ast))
    ctx.r.floor(rid, sinks, 1, "int() conversions of Content-Length")


def rule_g2_g3(ctx, rid2="C10.G2", rid3="C10.G3"):
    ctx.r.rule(rid2, "chunk-size accepted iff 1*HEXDIG (value language at int(x,16) in ChunkedReceiver.received)")
    ctx.r.rule(rid3, "chunk-ext accepted iff *( ';' token [ '=' ( token / quoted-string ) ] ) (suffix split off the control line)")
    it = get_interp(ctx)
    f = ctx.p.func("receiver.ChunkedReceiver.received")
    ans = it.by_func.get(f.qual, [])
    sinks = 0
    exts = 0
    for an in ans:
        for n, c, base in _int_calls(an):
            arg = c.args[0]
            val = it.eval(an, arg, an.inst[n.id], n)
            if not isinstance(val, (Str, Poison)):
                continue
            sinks += 1
            if base == 16:
                _report_value(ctx, rid2, "G2 chunk-size", f, n, val, G.chunk_size, 0, "int(x, 16)", numeric=True)
            elif base == 10:
                _report_value(ctx, rid2, "G2 chunk-size", f, n, val, G.content_length, 0, "int(x)", numeric=True)
                ctx.r.violation(rid2, "G2:base", "chunk-size converted with base 10 (grammar is hexadecimal)", f.loc(n.ast))
            else:
                ctx.r.violation(rid2, "G2:base", "chunk-size converted with base %r (prefix/underscore forms possible)" % (base,), f.loc(n.ast))
            if isinstance(arg, ast.Name):
                _under(ctx, rid2, "G2 chunk-size", an, arg.id, G.chunk_size, f, sink=n)
        # G3: every prefix slice at a find(';')-like position drops a suffix that must be validated
        for n in an.cfg.nodes:
            if n.kind != "stmt" or not isinstance(n.ast, ast.Assign) or n.id not in an.inst:
                continue
            v = n.ast.value
            if not (isinstance(v, ast.Subscript) and isinstance(v.slice, ast.Slice) and v.slice.lower is None
                    and isinstance(v.slice.upper, ast.Name) and isinstance(v.value, ast.Name)):
                continue
            st = an.inst[n.id]
            p = st.get(v.slice.upper.id)
            if not isinstance(p, IntFind) or p.sub == b"\r\n" or p.var != v.value.id:
                continue
            exts += 1
            # find a variable holding recv[p:]
            suffix_vars = []
            for m in an.cfg.nodes:
                if m.kind == "stmt" and isinstance(m.ast, ast.Assign) and isinstance(m.ast.value, ast.Subscript):
                    sv = m.ast.value
                    if (isinstance(sv.slice, ast.Slice) and sv.slice.upper is None and isinstance(sv.slice.lower, ast.Name)
                            and sv.slice.lower.id == v.slice.upper.id and isinstance(sv.value, ast.Name) and sv.value.id == v.value.id
                            and an.cfg.dominates(m, n)):
                        suffix_vars.extend(sum((assigned_names(t) for t in m.ast.targets), []))
            if not suffix_vars:
                ctx.r.violation(rid3, "G3:unvalidated-suffix",
                                "the part of the control line after %r is dropped without validation (%s)" % (p.sub, norm(n.ast)),
                                f.loc(n.ast), {"witness": repr(b"0" + p.sub + b"\x00"), "side": "over"})
                continue
            for sv in suffix_vars:
                val = st.get(sv)
                if val is None:
                    ctx.r.error(rid3, "suffix variable %s not live at %s" % (sv, f.loc(n.ast)))
                    continue
                _report_value(ctx, rid3, "G3 chunk-ext", f, n, val, G.chunk_ext_nonempty, 0, "the accepted control line")
                _under(ctx, rid3, "G3 chunk-ext", an, sv, G.chunk_ext_nonempty, f, sink=n)
    # the same split written with partition: `size, sep, ext = line.partition(b";")`.  Whatever follows the size - the
    # separator included - must go through the extension gate whenever the separator is there: the gate may be skipped only
    # for an absent separator, not for an empty remainder (`5;` has a separator and no extension: not in the grammar)
    for n in an.cfg.nodes:
        if n.kind != "stmt" or not isinstance(n.ast, ast.Assign) or not isinstance(n.ast.value, ast.Call) or not isinstance(n.ast.value.func, ast.Attribute) \
                or n.ast.value.func.attr != "partition" or not isinstance(n.ast.targets[0], ast.Tuple) or len(n.ast.targets[0].elts) != 3:
            continue
        cst = n.ast.value.args[0] if n.ast.value.args else None
        if not (isinstance(cst, ast.Constant) and cst.value == b";") or not all(isinstance(e, ast.Name) for e in n.ast.targets[0].elts):
            continue
        head, sep, tail = [e.id for e in n.ast.targets[0].elts]
        exts += 1

        def _names(a0):
            """names an argument of the gate is made of (a local standing for `sep + tail` counts as both)"""
            out = set()
            for y in ast.walk(a0):
                if isinstance(y, ast.Name):
                    out.add(y.id)
                    src = resolve_locals(f, y)
                    if src is not None and src is not y:
                        out |= {z.id for z in ast.walk(src) if isinstance(z, ast.Name)}
            return out
        gates = [m for m in an.cfg.nodes if m.ast is not None and m.kind in ("stmt", "test") and an.cfg.dominates(n, m)
                 and any(isinstance(c, ast.Call) and isinstance(c.func, ast.Attribute) and c.func.attr in ("match", "fullmatch") and "CHUNK_EXT" in norm(c.func.value)
                         and any(tail in _names(a0) for a0 in c.args) for c in ast.walk(m.ast))]
        if not gates:
            ctx.r.violation(rid3, "G3:unvalidated-suffix", "the part of the control line after b';' is dropped without validation (%s)" % norm(n.ast), f.loc(n.ast), {"witness": repr(b"0;\x00"), "side": "over"})
            continue
        for m in gates:
            gs = [(t, pol) for (t, pol) in guards_of(an.cfg, m) if an.cfg.dominates(n, [x for x in an.cfg.nodes if x.kind == "branch" and x.ast is getattr(t, "_guard_of", t)][0])]
            on_tail = [(t, pol) for (t, pol) in gs if pol and any(isinstance(y, ast.Name) and y.id == tail for y in ast.walk(t)) and not any(isinstance(y, ast.Name) and y.id == sep for y in ast.walk(t))]
            arg_has_sep = any(isinstance(c, ast.Call) and isinstance(c.func, ast.Attribute) and c.func.attr in ("match", "fullmatch") and any(sep in _names(a0) for a0 in c.args) for c in ast.walk(m.ast))
            if on_tail:
                ctx.r.violation(rid3, "G3:dangling-separator", "the chunk-extension gate only runs when the text after b';' is non-empty (%s): a control line ending in the separator (b'5;') is accepted although `;` must be followed by an extension name"
                                % norm(on_tail[0][0]), f.loc(m.ast), {"witness": repr(b"5;"), "side": "over"})
            elif not arg_has_sep:
                ctx.r.error(rid3, "chunk-extension gate applied to %s without the separator: not decided" % tail)
            else:
                ctx.r.ok(rid3, "the extension gate sees separator + remainder whenever the separator is present", f.loc(m.ast))
    ctx.r.floor(rid2, sinks, 1, "int(x, 16) conversions of chunk sizes")
    ctx.r.floor(rid3, exts, 1, "chunk-extension splits")


def _header_store_nodes(an):
    """Nodes of parse_header that store into the headers mapping."""
    out = []
    for n in an.cfg.nodes:
        if n.kind != "stmt" or n.id not in an.inst:
            continue
        a = n.ast
        tg = []
        if isinstance(a, ast.Assign):
            tg = a.targets
        elif isinstance(a, ast.AugAssign):
            tg = [a.target]
        for t in tg:
            if isinstance(t, ast.Subscript) and isinstance(t.value, ast.Name) and isinstance(an.inst[n.id].get(t.value.id), DictV):
                out.append(n)
    return out


def rule_g4(ctx, rid="C10.G4"):
    ctx.r.rule(rid, "field line accepted iff token ':' OWS field-value OWS (language of lines reaching the header store)")
    it = get_interp(ctx)
    f = ctx.p.func("parser.HTTPRequestParser.parse_header")
    sinks = 0
    for an in it.by_func.get(f.qual, []):
        stores = _header_store_nodes(an)
        # loop variable of the enclosing for loop
        for n in stores:
            loopvar = None
            for it_node in an.cfg.nodes:
                if it_node.kind == "iter" and an.cfg.dominates(it_node, n) and isinstance(it_node.ast.target, ast.Name):
                    body_ids = set()
                    for s in ast.walk(it_node.ast):
                        body_ids.add(id(s))
                    if id(n.ast) in body_ids:
                        loopvar = it_node.ast.target.id
            if loopvar is None:
                ctx.r.error(rid, "header store %s is not inside a loop over header lines" % norm(n.ast))
                continue
            val = an.inst[n.id].get(loopvar)
            if val is None:
                ctx.r.error(rid, "loop variable %s not live at header store" % loopvar)
                continue
            sinks += 1
            _report_value(ctx, rid, "G4 field-line", f, n, val, G.field_line, 0, "the header map store")
            _under(ctx, rid, "G4 field-line", an, loopvar, G.field_line, f, sink=n)
    ctx.r.floor(rid, sinks, 2, "stores into the header map")


def rule_g5(ctx, rid="C10.G5"):
    ctx.r.rule(rid, "request line accepted iff token SP target [ SP 'HTTP/' DIGIT '.' DIGIT ] (language at the success return of crack_first_line)")
    it = get_interp(ctx)
    f = ctx.p.func("parser.crack_first_line")
    caller = ctx.p.func("parser.HTTPRequestParser.parse_header")
    # over-acceptance is judged against the full grammar; the declared refusal of
    # methods containing a-z (comment in crack_first_line) is applied to the
    # oracle only for the under-acceptance direction
    oracle_over = G.request_line(G.TCHAR)
    oracle = G.request_line(G.TCHAR_NO_LOWER)
    sinks = 0
    ans = it.by_func.get(f.qual, [])
    if not ans:
        raise AnalysisError("crack_first_line is not reached from parse_header")
    pname = f.params[0]
    for an in ans:
        pv = an.params.get(pname)
        if isinstance(pv, Str) and pv.const is not None:
            continue  # the synthetic b"GET / HTTP/1.0" call of the header-too-large path
        for n in an.cfg.nodes:
            if n.kind == "stmt" and isinstance(n.ast, ast.Return) and n.id in an.inst and n.ast.value is not None:
                v = n.ast.value
                if isinstance(v, ast.Tuple) and all(isinstance(e, ast.Constant) for e in v.elts):
                    continue  # the "no match" return, handled by the caller-side check below
                val = an.inst[n.id].get(pname)
                if val is None:
                    ctx.r.error(rid, "parameter %s rebound before return" % pname)
                    continue
                sinks += 1
                _report_value(ctx, rid, "G5 request-line", f, n, val, oracle_over, 0, "the success return of crack_first_line")
        _under(ctx, rid, "G5 request-line", an, pname, oracle, f)
    ctx.r.floor(rid, sinks, 1, "success returns of crack_first_line")
    # caller side: the all-empty result is refused
    for an in it.by_func.get(caller.qual, []):
        g = an.cfg
        calls = find_calls(g, lambda c: isinstance(c.func, ast.Name) and c.func.id == f.name)
        for n, c in calls:
            if not isinstance(n.ast, ast.Assign):
                ctx.r.error(rid, "crack_first_line result not assigned at %s" % caller.loc(n.ast))
                continue
            names = set(sum((assigned_names(t) for t in n.ast.targets), []))
            ok = False
            for b in g.nodes:
                if b.kind == "branch" and b.polarity and isinstance(b.ast, ast.Compare) and g.dominates(n, b):
                    used = {x.id for x in ast.walk(b.ast) if isinstance(x, ast.Name)}
                    consts = [x.value for x in ast.walk(b.ast) if isinstance(x, ast.Constant)]
                    if used & names and b"" in consts and leads_only_to_raise(g, b):
                        ok = True
            if ok:
                ctx.r.ok(rid, "an empty crack_first_line result raises ParsingError in parse_header", caller.loc(n.ast))
            else:
                ctx.r.violation(rid, "G5:nomatch-not-refused", "a request line the pattern rejects is not refused by parse_header", caller.loc(n.ast))
        break


def rule_uses(ctx):
    """R8: enumerate every use of a compiled pattern in the package."""
    rid = "C10.R8"
    ctx.r.rule(rid, "enumeration of compiled-pattern uses (informational; gates are found semantically)")
    from ..model import RePat, NotConst
    uses = []
    for f in ctx.p.functions.values():
        g = cfg_of(f)
        for n, c in find_calls(g, lambda c: isinstance(c.func, ast.Attribute) and c.func.attr in ("match", "fullmatch", "search", "sub", "split", "findall")):
            try:
                v = ctx.p.fold(c.func.value, f.module)
            except NotConst:
                continue
            if isinstance(v, RePat):
                uses.append("%s: %s.%s at %s" % (f.qual, norm(c.func.value), c.func.attr, f.loc(n.ast)))
                ctx.r.ok(rid, "pattern use %s.%s in %s" % (norm(c.func.value), c.func.attr, f.qual), f.loc(n.ast))
    ctx.r.note("pattern_uses", uses)
    ctx.r.floor(rid, len(uses), 5, "uses of compiled patterns")


def thorough(ctx):
    """Deeper exploration: automaton model validated against CPython's re on
    an enumerated corpus; all witnesses up to length 6."""
    import itertools
    import re
    from ..model import RePat
    from ..relang import Pattern
    rid = "C10.T1"
    ctx.r.rule(rid, "thorough: automaton semantics cross-validated with CPython re on all strings over a 9-byte alphabet up to length 5")
    alpha = [b"0", b"a", b"G", b" ", b"\t", b"\n", b"\r", b";", b":"]
    n = 0
    for modname, m in ctx.p.modules.items():
        for name, expr in m.globals.items():
            try:
                v = ctx.p.fold(expr, m)
            except Exception:
                continue
            if not isinstance(v, RePat) or not isinstance(v.pattern, bytes):
                continue
            try:
                pat = Pattern(v.pattern, v.flags)
            except AnalysisError:
                continue
            cre = re.compile(v.pattern, int(v.flags))
            for method in ("match", "fullmatch", "search"):
                try:
                    d = pat.language(method).dfa()
                except AnalysisError:
                    continue
                bad = None
                for k in range(0, 6):
                    for tup in itertools.product(alpha, repeat=k):
                        s = b"".join(tup)
                        n += 1
                        if d.accepts(s) != (getattr(cre, method)(s) is not None):
                            bad = s
                            break
                    if bad is not None:
                        break
                if bad is not None:
                    ctx.r.error(rid, "automaton for %s.%s disagrees with CPython on %r" % (name, method, bad))
                else:
                    ctx.r.ok(rid, "automaton of %s.%s.%s agrees with CPython re" % (modname, name, method))
    ctx.r.note("re_crosscheck_strings", n)


def rule_r9(ctx):
    """Shared with C06.R4: a verdict of the acceptance tests is only worth something if it is acted upon - the receiver's
    error (an invalid trailer line, chunk size or extension) is consulted by the parser before the receiver's completion,
    stored as the parser's error and followed by completed=True."""
    from . import c06
    c06.rule_r4(ctx, rid="C10.R9")


def rule_r10(ctx, rid="C10.R10"):
    ctx.r.rule(rid, "the section terminator: the head / trailer section ends at CRLF CRLF and nothing else; the search reports find(T) + len(T) and the trailer lines that are validated are everything before it (`[: pos - len(T)]`) - with a shorter terminator a field line ending in a bare LF ends the section, and the bare LF sits in the len(T) - 3 bytes that are cut off unvalidated")
    p = ctx.p
    f = p.functions.get("utilities.find_double_newline")
    if f is None:
        raise AnalysisError("anchor vanished: utilities.find_double_newline (the section terminator search)")
    finds = [c for c in ast.walk(f.node) if isinstance(c, ast.Call) and isinstance(c.func, ast.Attribute) and c.func.attr in ("find", "index") and c.args]
    if len(finds) != 1:
        raise AnalysisError("find_double_newline no longer makes exactly one search (%d)" % len(finds))
    try:
        T = p.fold(finds[0].args[0], f.module)
    except Exception:
        raise AnalysisError("the terminator searched by find_double_newline is not a constant")
    if T == b"\r\n\r\n":
        ctx.r.ok(rid, "find_double_newline searches CRLF CRLF", f.loc(finds[0]))
    else:
        ctx.r.violation(rid, key_of(f, None, "terminator-literal"), "find_double_newline searches %r, not CRLF CRLF: a section also ends where a line was terminated by something else than CRLF" % (T,), f.loc(finds[0]))
    incs = set()
    def _k(e):
        try:
            v = p.fold(e, f.module)
        except Exception:
            return None
        return v if isinstance(v, int) and not isinstance(v, bool) else None
    for x in ast.walk(f.node):
        if isinstance(x, ast.AugAssign) and isinstance(x.op, ast.Add) and _k(x.value) is not None:
            incs.add(_k(x.value))
        if isinstance(x, ast.BinOp) and isinstance(x.op, ast.Add) and isinstance(x.left, ast.Name) and _k(x.right) is not None:
            incs.add(_k(x.right))
    if not incs:
        raise AnalysisError("find_double_newline: cannot see by how much the found position is advanced")
    if incs == {len(T)}:
        ctx.r.ok(rid, "the reported position is find(T) + len(T)", f.loc())
    else:
        ctx.r.violation(rid, key_of(f, None, "terminator-advance"), "find_double_newline advances the found position by %s, the terminator is %d bytes long" % (sorted(incs), len(T)), f.loc())
    r = p.func("receiver.ChunkedReceiver.received")
    n = 0
    for x in ast.walk(r.node):
        if isinstance(x, ast.Subscript) and isinstance(x.slice, ast.Slice) and x.slice.lower is None and isinstance(x.slice.upper, ast.BinOp) and isinstance(x.slice.upper.op, ast.Sub) \
                and isinstance(x.slice.upper.right, ast.Constant) and isinstance(x.slice.upper.left, ast.Name) and "trailer" in norm(x.value):
            n += 1
            if x.slice.upper.right.value == len(T):
                ctx.r.ok(rid, "the validated trailer text is everything before the terminator", r.loc(x))
            else:
                ctx.r.violation(rid, key_of(r, None, "trailer-window"), "the trailer lines that are validated are `%s` but the terminator is %d bytes long: the bytes in between are accepted unseen" % (norm(x), len(T)), r.loc(x))
    ctx.r.floor(rid, n, 1, "validated trailer windows")


def rule_r11(ctx, rid="C10.R11"):
    ctx.r.rule(rid, "every chunk-size line is judged: in ChunkedReceiver.received no finished control line is consumed without reaching the chunk-size sink `int(line, 16)` (behind its gate, G2) or an error store - a line that is skipped (the empty one, say) is a chunk size accepted outside the grammar 1*HEXDIG: `5 CRLF hello CRLF CRLF 0 CRLF CRLF` is decoded where an RFC 9112 parser refuses")
    p = ctx.p
    f = p.func("receiver.ChunkedReceiver.received")
    g = cfg_of(f)
    sinks = [n for n in g.nodes if n.ast is not None and n.kind in ("stmt", "branch", "test") and any(isinstance(c, ast.Call) and dotted(c.func) == "int" and len(c.args) == 2 and isinstance(c.args[1], ast.Constant) and c.args[1].value == 16 for c in ast.walk(n.ast))]
    if not sinks:
        raise AnalysisError("anchor vanished: int(<chunk size>, 16) in ChunkedReceiver.received")
    var = None
    for n in sinks:
        for c in ast.walk(n.ast):
            if isinstance(c, ast.Call) and dotted(c.func) == "int" and len(c.args) == 2 and isinstance(c.args[0], ast.Name):
                var = c.args[0].id
    if var is None:
        raise AnalysisError("the chunk size converted by int(.., 16) is not a local: not a shape this rule reads")
    # where a finished control line is cut out of the joined bytes: `line = <joined>[:pos]` / a partition head
    starts = [n for n in g.nodes if n.kind == "stmt" and isinstance(n.ast, ast.Assign) and any(isinstance(t, ast.Name) and t.id == var for t in ast.walk(ast.Tuple(elts=list(n.ast.targets), ctx=ast.Store())))
              and not any(g.dominates(m, n) for m in sinks) and any(g.dominates(n, m) for m in sinks)]
    starts = [n for n in starts if not any(o is not n and g.dominates(o, n) for o in starts)]
    if not starts:
        raise AnalysisError("cannot find where the control line `%s` is cut out" % var)
    errs = [n for n in g.nodes if n.kind == "stmt" and isinstance(n.ast, ast.Assign) and any(dotted(t) == "self.error" for t in n.ast.targets)]
    # the line is not finished where the joined bytes are stored back as the carry (`self.control_line = s`): with the
    # partition spelling the cut precedes the finished / unfinished test, so that arm lies behind the start node as well
    carries = [n for n in g.nodes if n.kind == "stmt" and isinstance(n.ast, ast.Assign) and any(dotted(t) == "self.control_line" for t in n.ast.targets)
               and not (isinstance(n.ast.value, ast.Constant) and n.ast.value.value == b"")]
    errs = errs + carries
    heads = [x for x in g.nodes if x.kind == "join" and x.label == "loop_head"]
    for st in starts:
        leak = None
        for tgt in [h for h in heads if g.dominates(h, st)] + [g.exit]:
            pth = g.path(st, tgt, avoid=sinks + errs, follow_exc=False)
            if pth is not None:
                leak = pth
                break
        if leak is None:
            ctx.r.ok(rid, "every finished control line reaches the chunk-size sink or an error store", f.loc(st.ast))
        else:
            br = [n for n in leak if n.kind == "branch"]
            ctx.r.violation(rid, key_of(f, None, "control-line-skipped"), "a finished control line can be consumed without being judged (path through `%s`): it is neither converted as a chunk size nor refused - an empty line between chunks is skipped, the body is decoded under a framing RFC 9112 does not have" % (norm(br[-1].ast) if br else "?"), f.loc((br[-1] if br else st).ast))


RULES = [rule_g1, rule_g2_g3, rule_g4, rule_g5, rule_uses, rule_r9, rule_r10, rule_r11]
THOROUGH = [thorough]
LEVEL = "other"

from ..selftest import M, T, V  # noqa: E402

selftest = [
    M("hexdig-dollar", "rfc7230.py", 'HEXDIG + r"+\\Z"', 'HEXDIG + "+$"', "G2"),
    M("chunkext-dollar", "rfc7230.py", 'CHUNK_EXT + r"\\Z"', 'CHUNK_EXT + "$"', "G3"),
    M("digit-star", "rfc7230.py", '("^" + DIGIT + "+$")', '("^" + DIGIT + "*$")', "G1"),
    M("hexdig-underscore", "rfc7230.py", 'HEXDIG = "[0-9a-fA-F]"', 'HEXDIG = "[0-9a-fA-F_]"', "G2"),
    T("hexdig-search-anchored", "receiver.py", "ONLY_HEXDIG_RE.match(line)", "ONLY_HEXDIG_RE.search(line)"),
    V("hexdig-search-unanchored", "mutant", [("receiver.py", "ONLY_HEXDIG_RE.match(line)", "ONLY_HEXDIG_RE.search(line)"), ("rfc7230.py", '("^" + HEXDIG + r"+\\Z")', '(HEXDIG + r"+\\Z")')], "G2"),
    M("hexdig-noanchor", "rfc7230.py", '("^" + HEXDIG + r"+\\Z")', '("^" + HEXDIG + "+")', "G2"),
    M("firstline-match", "parser.py", "first_line_re.fullmatch(line)", "first_line_re.match(line)", "G5"),
    M("cl-prestrip", "parser.py", 'cl = headers.get("CONTENT_LENGTH", "0")', 'cl = headers.get("CONTENT_LENGTH", "0").strip()', "G1"),
    M("no-crlf-check-lines", "parser.py", 'if b"\\r" in line or b"\\n" in line:\n            raise ParsingError(\n                \'Bare CR', 'if False:\n            raise ParsingError(\n                \'Bare CR', "over"),
    M("only-cr-check-lines", "parser.py", 'if b"\\r" in line or b"\\n" in line:\n            raise ParsingError(\n                \'Bare CR', 'if b"\\r" in line:\n            raise ParsingError(\n                \'Bare CR', "trailing-LF"),
    M("int-base-0", "receiver.py", "sz = int(line, 16)", "sz = int(line, 0)", "G2"),
    M("ext-unvalidated", "receiver.py", "if not valid_ext_info:", "if False:", "G3"),
    M("ext-dropped", "receiver.py", "extinfo = line[semi:]\n                            valid_ext_info = CHUNK_EXT_RE.match(extinfo)", "valid_ext_info = True", "G3"),
    M("token-space", "rfc7230.py", 'TCHAR = r"[!#$%&\'*+\\-.^_`|~0-9A-Za-z]"', 'TCHAR = r"[ !#$%&\'*+\\-.^_`|~0-9A-Za-z]"', "G4"),
    M("ws-before-colon", "rfc7230.py", '"^(?P<name>" + TOKEN + "):" + OWS', '"^(?P<name>" + TOKEN + ")" + OWS + ":" + OWS', "G4"),
    M("firstline-rstrip", "parser.py", "first_line = header_plus[:index]\n", "first_line = header_plus[:index].rstrip()\n", "G5"),
    M("head-lstrip", "parser.py", 'while header_plus.startswith(b"\\r\\n"):\n                    header_plus = header_plus[2:]', "header_plus = header_plus.lstrip()", "G5"),
    M("nomatch-accepted", "parser.py", 'if command == uri == version == b"":\n            raise ParsingError("Start line is invalid")', "pass", "G5"),
    M("uri-any", "parser.py", "rb\"[\\x21-\\x7e\\x80-\\xff]+)\"", "rb\"[^ ]+)\"", "G5"),
    M("digit-backslash-d-str", "rfc7230.py", 'ONLY_DIGIT_RE = re.compile(("^" + DIGIT + "+$").encode("latin-1"))', 'ONLY_DIGIT_RE = re.compile(rb"^[0-9 ]+$")', "G1"),
    M("version-loose", "parser.py", 'rb"(?: HTTP/(?P<version>[0-9]\\.[0-9]))?"', 'rb"(?: HTTP/(?P<version>[0-9]+\\.[0-9]+))?"', "G5"),
    T("token-plus", "rfc7230.py", 'TOKEN = TCHAR + "{1,}"', 'TOKEN = TCHAR + "+"'),
    T("digit-fullmatch", "parser.py", "ONLY_DIGIT_RE.match(cl.encode", "ONLY_DIGIT_RE.fullmatch(cl.encode"),
    T("digit-Z", "rfc7230.py", '("^" + DIGIT + "+$")', '("^" + DIGIT + r"+\\Z")'),
    T("hexdig-reorder", "rfc7230.py", 'HEXDIG = "[0-9a-fA-F]"', 'HEXDIG = "[a-fA-F0-9]"'),
    T("hexdig-fullmatch", "receiver.py", "ONLY_HEXDIG_RE.match(line)", "ONLY_HEXDIG_RE.fullmatch(line)"),
    T("ows-greedy", "rfc7230.py", 'OWS = WS + "{0,}?"', 'OWS = WS + "*"'),
    T("firstline-anchored", "parser.py", 'rb"(?P<method>[!#$%&', 'rb"^(?P<method>[!#$%&'),
    T("digit-class-d", "rfc7230.py", 'DIGIT = "[0-9]"', 'DIGIT = "\\\\d"'),
    T("crlf-check-split", "parser.py", 'if b"\\r" in line or b"\\n" in line:\n            raise ParsingError(\n                \'Bare CR or LF found in header line "%s"\' % str(line, "latin-1")\n            )', 'if b"\\n" in line:\n            raise ParsingError("Bare LF")\n        if b"\\r" in line:\n            raise ParsingError("Bare CR")'),
    T("match-is-none", "receiver.py", "if not ONLY_HEXDIG_RE.match(line):", "if ONLY_HEXDIG_RE.match(line) is None:"),
]
