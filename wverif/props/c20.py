"""C20 — configuration is validated; CLI == keywords == documentation."""
from __future__ import annotations

import ast
import itertools
import re

from ..cfg import cfg_of
from ..model import AnalysisError, NotConst, Sym, dotted, norm, walk_own
from .common import bool_atoms, bool_eval, find_calls, guards_of, key_of, leads_only_to_raise, resolve_locals

EXPLANATION = (
    "Finite, table-shaped static decision: (R1) the `'x' in kw` exclusion predicates of Adjustments.__init__ are "
    "extracted and evaluated on all 32 subsets of {listen, host, port, sockets, unix_socket}; ValueError must be raised "
    "iff at least two of the four groups are present. (R2) the cast-and-assign is dominated by the unknown-name test. "
    "(R3) the folded _params table: every name has a class-level default, every cast resolves to a callable, no name "
    "collides with the CLI spelling rules. (R4) the proxy cross-checks exist and raise; KNOWN_PROXY_HEADERS folds to the "
    "six kinds. (R5) check_sockets runs on every normal path and refuses mixed/unsupported lists. (R6) parse_args "
    "derives its options from _params, booleans map --x/--no-x to strings on opposite sides of the folded truthy set, "
    "everything else passes the raw string through the same cast as the keyword form. (R7) the option names in "
    "docs/arguments.rst, the HELP text and docs/runner.rst equal the implemented ones. getaddrinfo semantics are the "
    "environment's and not decided."
)

GROUPS = {"listen": 0, "host": 1, "port": 1, "sockets": 2, "unix_socket": 3}


def _init(ctx):
    return ctx.p.func("adjustments.Adjustments.__init__")


def rule_r1(ctx):
    rid = "C20.R1"
    ctx.r.rule(rid, "exclusion truth table: ValueError iff at least two of the groups {listen} {host,port} {sockets} {unix_socket} are given (all 32 subsets)")
    f = _init(ctx)
    kw = f.kwarg
    if kw is None:
        raise AnalysisError("Adjustments.__init__ has no **kw")
    g = cfg_of(f)
    pat = re.compile(r"^'([a-z_]+)' in %s$" % re.escape(kw))
    sets = [n for n, c in find_calls(g, lambda c: dotted(c.func) == "setattr")]

    def run(env):
        """Interpret the prefix of __init__ that consists of `'x' in kw` tests on the option groups for one subset of
        given options: ('raise', node) | ('pass', node where the prefix ends).  Static: 32 abstract inputs over a
        finite decision diagram, no code of the package is executed."""
        n = g.entry
        steps = 0
        while steps < 400:
            steps += 1
            if n.kind == "test":
                m = pat.match(norm(n.ast)) if isinstance(n.ast, ast.Compare) and isinstance(n.ast.ops[0], ast.In) else None
                if not m or m.group(1) not in GROUPS:
                    return ("pass", n)
                nxt = [s for (s, l) in n.succ if s.kind == "branch" and s.polarity == env[m.group(1)]]
                if not nxt:
                    return ("pass", n)
                n = nxt[0]
                continue
            if n.kind == "stmt":
                a = n.ast
                if isinstance(a, ast.Raise):
                    return ("raise", n)
                pure_flag = isinstance(a, ast.Assign) and all(isinstance(t, ast.Name) for t in a.targets) and all(pat.match(x) for x in bool_atoms(a.value))
                if not (pure_flag or isinstance(a, ast.Pass)):
                    return ("pass", n)
            if n.kind in ("exit", "raise_exit"):
                return ("pass", n)
            nxt = [s for (s, l) in n.succ if l != "exc"]
            if len(nxt) != 1:
                return ("pass", n)
            n = nxt[0]
        raise AnalysisError("the exclusion prefix of Adjustments.__init__ does not end")
    tests_seen = {id(n.ast) for n in g.nodes if n.kind == "test" and isinstance(n.ast, ast.Compare) and isinstance(n.ast.ops[0], ast.In) and (pat.match(norm(n.ast)) and pat.match(norm(n.ast)).group(1) in GROUPS)}
    if not tests_seen:
        # no `'x' in kw` test at all: the exclusions are written in a form this rule does not read (a table, a helper
        # taking the names as data); saying "25 of 32 rows wrong" would be a guess
        raise AnalysisError("the mutual-exclusion checks of Adjustments.__init__ are not written as `'x' in kw` tests: not decided")
    ctx.r.floor(rid, len(tests_seen), 6, "`'x' in kw` tests on the exclusive option groups")
    bad_rows = []
    rows = 0
    late = None
    for present in itertools.product([False, True], repeat=5):
        env = dict(zip(GROUPS, present))
        kind, node = run(env)
        raised = kind == "raise"
        if raised and not (isinstance(node.ast.exc, ast.Call) and dotted(node.ast.exc.func) == "ValueError"):
            bad_rows.append((env, "raises something else than ValueError"))
        if raised and any(g.dominates(sn, node) for sn in sets):
            late = node
        groups = {GROUPS[k] for k, v in env.items() if v}
        want = len(groups) >= 2
        rows += 1
        if raised != want:
            bad_rows.append((env, "raised=%s expected=%s" % (raised, want)))
    if bad_rows:
        env, why = bad_rows[0]
        given = sorted(k for k, v in env.items() if v)
        ctx.r.violation(rid, key_of(f, None, "exclusion-table::" + "+".join(given)),
                        "mutually exclusive options are not refused consistently: %d of 32 rows wrong, e.g. %s -> %s" % (len({str(b[0]) for b in bad_rows}), given, why), f.loc())
    else:
        ctx.r.ok(rid, "all %d subsets agree with the oracle (decision diagram of %d tests)" % (rows, len(tests_seen)), f.loc())
    # the predicates come before any assignment
    if late is not None:
        ctx.r.violation(rid, key_of(f, None, "exclusion-after-assign"), "an exclusion test runs after options were already applied", f.loc(late.ast))


def rule_r2(ctx):
    rid = "C20.R2"
    ctx.r.rule(rid, "unknown option names are refused before anything is assigned")
    f = _init(ctx)
    g = cfg_of(f)
    sets = [(n, c) for n, c in find_calls(g, lambda c: dotted(c.func) == "setattr")]
    if not sets:
        raise AnalysisError("Adjustments.__init__ no longer uses setattr")
    for n, c in sets:
        key = norm(c.args[1]) if len(c.args) > 1 else None
        ok = False
        for (t, pol, b) in g.guards(n):
            if isinstance(t, ast.Compare) and isinstance(t.ops[0], (ast.NotIn, ast.In)) and norm(t.left) == key and "_param_map" in norm(t.comparators[0]):
                unknown_branch_pol = isinstance(t.ops[0], ast.NotIn)
                if pol != unknown_branch_pol:
                    other = [x for x in g.nodes if x.kind == "branch" and x.ast is getattr(t, "_guard_of", t) and x.polarity == unknown_branch_pol]
                    if other and leads_only_to_raise(g, other[0]):
                        ok = True
        # the same refusal through a lookup: cast = _param_map.get(name); if cast is None: raise
        castvar = None
        val0 = c.args[2] if len(c.args) > 2 else None
        if not ok and isinstance(val0, ast.Call) and isinstance(val0.func, ast.Name):
            src = resolve_locals(f, val0.func)
            if isinstance(src, ast.Call) and isinstance(src.func, ast.Attribute) and src.func.attr == "get" and "_param_map" in norm(src.func.value) and src.args and norm(src.args[0]) == key \
                    and (len(src.args) == 1 or (isinstance(src.args[1], ast.Constant) and src.args[1].value is None)):
                for (t, pol, b) in g.guards(n):
                    if isinstance(t, ast.Compare) and isinstance(t.ops[0], ast.Is) and dotted(t.left) == val0.func.id and isinstance(t.comparators[0], ast.Constant) and t.comparators[0].value is None and not pol:
                        other = [x for x in g.nodes if x.kind == "branch" and x.ast is getattr(t, "_guard_of", t) and x.polarity]
                        if other and leads_only_to_raise(g, other[0]):
                            ok = True
                            castvar = val0.func.id
        if ok:
            ctx.r.ok(rid, "setattr only for names in _param_map; unknown names raise", f.loc(n.ast))
        else:
            ctx.r.violation(rid, key_of(f, None, "unknown-name-accepted"), "an unknown adjustment name is applied (or silently ignored) instead of being refused", f.loc(n.ast))
        # value goes through the cast of the same key
        val = c.args[2] if len(c.args) > 2 else None
        if castvar is not None and isinstance(val, ast.Call) and isinstance(val.func, ast.Name) and val.func.id == castvar:
            ctx.r.ok(rid, "the value is cast by the cast looked up for its name", f.loc(n.ast))
        elif isinstance(val, ast.Call) and isinstance(val.func, ast.Subscript) and "_param_map" in norm(val.func.value) and norm(val.func.slice) == key:
            ctx.r.ok(rid, "the value is cast by _param_map[name]", f.loc(n.ast))
        else:
            ctx.r.violation(rid, key_of(f, None, "value-not-cast"), "the adjustment value is stored without the cast registered for its name: %s" % norm(val), f.loc(n.ast))


def _params(ctx):
    p = ctx.p
    cls = p.cls("adjustments.Adjustments")
    a = cls.lookup_attr("_params")
    if a is None:
        raise AnalysisError("Adjustments._params vanished")
    try:
        v = p.fold(a[1], a[0].module)
    except NotConst as e:
        raise AnalysisError("cannot fold _params: %s" % e)
    return cls, list(v)


def rule_r3(ctx):
    rid = "C20.R3"
    ctx.r.rule(rid, "table integrity: every _params name has a class default, a resolvable cast, and a name the CLI spelling maps bijectively")
    cls, params = _params(ctx)
    ctx.r.floor(rid, len(params), 30, "_params entries")
    names = [n for (n, c) in params]
    if len(set(names)) != len(names):
        dup = sorted({n for n in names if names.count(n) > 1})
        ctx.r.violation(rid, "params-duplicate::" + ",".join(dup), "_params lists %s twice" % dup, "src/waitress/adjustments.py")
    for (n, c) in params:
        probs = []
        if cls.lookup_attr(n) is None:
            probs.append("no class-level default")
        if not (isinstance(c, Sym) and (c.name.startswith(("func:", "class:", "builtins.")))):
            probs.append("cast %r is not a resolvable callable" % (c,))
        if "-" in n or n.startswith("no_") or n in ("help", "call", "app"):
            probs.append("name collides with the CLI spelling rules")
        if probs:
            ctx.r.violation(rid, "param::%s::%s" % (n, probs[0].split(" ")[0]), "_params entry %s: %s" % (n, "; ".join(probs)), "src/waitress/adjustments.py")
        else:
            ctx.r.ok(rid, "param %s: default present, cast %s" % (n, c.name.split(":")[-1]), "src/waitress/adjustments.py")
    pm = cls.lookup_attr("_param_map")
    same = False
    if pm is not None:
        try:
            folded = ctx.p.fold(pm[1], ctx.p.modules["adjustments"])
            pr = cls.lookup_attr("_params")
            fp = ctx.p.fold(pr[1], ctx.p.modules["adjustments"]) if pr else None
            same = isinstance(folded, dict) and fp is not None and folded == dict(fp)
        except Exception:
            same = False
    if pm is not None and isinstance(pm[1], ast.DictComp) and len(pm[1].generators) == 1 and not pm[1].generators[0].ifs and dotted(pm[1].generators[0].iter) == "_params" \
            and isinstance(pm[1].generators[0].target, ast.Tuple) and [dotted(e) for e in pm[1].generators[0].target.elts] == [dotted(pm[1].key), dotted(pm[1].value)]:
        same = True  # {name: cast for name, cast in _params}
    if pm is not None and (norm(pm[1]) == "dict(_params)" or same):
        ctx.r.ok(rid, "_param_map = dict(_params)", "src/waitress/adjustments.py")
    else:
        ctx.r.violation(rid, "param-map", "_param_map is not dict(_params): %s" % (norm(pm[1]) if pm else None), "src/waitress/adjustments.py")


def rule_r4(ctx, rid="C20.R4"):
    ctx.r.rule(rid, "proxy option cross-checks exist and raise: count without proxy, headers without proxy, unknown kinds, Forwarded together with X-Forwarded-*")
    p = ctx.p
    f = _init(ctx)
    g = cfg_of(f)
    known = p.const("adjustments", "KNOWN_PROXY_HEADERS")
    want = {"x-forwarded-for", "x-forwarded-host", "x-forwarded-proto", "x-forwarded-port", "x-forwarded-by", "forwarded"}
    if set(known) == want:
        ctx.r.ok(rid, "KNOWN_PROXY_HEADERS folds to the six kinds", "src/waitress/adjustments.py")
    else:
        ctx.r.violation(rid, "known-kinds::" + ",".join(sorted(want ^ set(known))), "KNOWN_PROXY_HEADERS differs by %s" % sorted(want ^ set(known)), "src/waitress/adjustments.py")

    # each cross-check is a `raise ValueError` whose path condition states the forbidden combination - however the tests
    # are nested, ordered or spelled (`is not None` is the false outcome of `is None` in the CFG)
    def lowered_expr(e):
        """a set comprehension lower-casing the configured kinds, or a local that holds one"""
        if isinstance(e, ast.Name):
            src = resolve_locals(f, e)
            e = src if src is not None else e
        return isinstance(e, ast.SetComp) and "self.trusted_proxy_headers" in norm(e.generators[0].iter) and ".lower()" in norm(e.elt)
    lowered_stores = [nd for nd in g.nodes if nd.kind == "stmt" and isinstance(nd.ast, ast.Assign) and any(dotted(t) == "self.trusted_proxy_headers" for t in nd.ast.targets) and lowered_expr(nd.ast.value)]

    def is_h(e, at=None):
        """the set of trusted header kinds; with `at` (a cfg node): in its lower-cased form there - a local holding the
        lower-cased set, or the attribute after the lower-cased set was stored into it"""
        if dotted(e) == "self.trusted_proxy_headers":
            return at is None or any(g.dominates(sn, at) for sn in lowered_stores)
        if isinstance(e, ast.Name):
            if lowered_expr(e):
                return True
            src = resolve_locals(f, e)
            return at is None and src is not None and dotted(src) == "self.trusted_proxy_headers"
        return False

    def fact(t, pol, at):
        if isinstance(t, ast.Compare) and len(t.ops) == 1 and isinstance(t.ops[0], ast.Is) and isinstance(t.comparators[0], ast.Constant) and t.comparators[0].value is None:
            d = dotted(t.left)
            if d in ("self.trusted_proxy", "self.trusted_proxy_count"):
                return (d.split(".")[1] + " is None", pol)
        if is_h(t):
            return ("headers given", pol)
        if dotted(t) == "unknown_values":
            return ("unknown kinds", pol)
        if isinstance(t, ast.Compare) and len(t.ops) == 1 and isinstance(t.ops[0], ast.In) and isinstance(t.left, ast.Constant) and t.left.value == "forwarded" and is_h(t.comparators[0], at):
            return ("forwarded trusted", pol)
        if isinstance(t, ast.BinOp) and isinstance(t.op, ast.Sub) and is_h(t.left, at) and norm(t.right) == "{'forwarded'}":
            return ("other kinds trusted", pol)
        return ("?" + norm(t), pol)
    raises = []
    for nd in g.nodes:
        if nd.kind == "stmt" and isinstance(nd.ast, ast.Raise) and isinstance(nd.ast.exc, ast.Call) and dotted(nd.ast.exc.func) == "ValueError":
            raises.append((nd, {fact(t, pol, b) for (t, pol, b) in g.guards(nd)}))
    related = ("trusted_proxy is None", "trusted_proxy_count is None", "headers given", "unknown kinds", "forwarded trusted", "other kinds trusted")
    want = (
        ("trusted_proxy_count without trusted_proxy", "count-without-proxy", {("trusted_proxy_count is None", False), ("trusted_proxy is None", True)}),
        ("trusted_proxy_headers without trusted_proxy", "headers-without-proxy", {("headers given", True), ("trusted_proxy is None", True)}),
        ("unknown header kinds", "unknown-kinds", {("unknown kinds", True)}),
        ("Forwarded together with X-Forwarded-*", "forwarded-and-x", {("forwarded trusted", True), ("other kinds trusted", True)}),
    )
    for what, key, need in want:
        hit = [nd for (nd, fs) in raises if need <= fs and all(k in related for (k, _p) in fs - need if not k.startswith("?")) and not any(k.startswith("?") and any(w in k for w in ("trusted_proxy", "unknown_values")) for (k, _p) in fs)
               and not any((k, not p) in fs for (k, p) in need)]
        # besides the forbidden combination itself only facts that it implies / that cannot exclude it may guard the refusal
        hit = [nd for nd in hit if all((k, p) in need or (k, p) in {("headers given", True), ("unknown kinds", False), ("trusted_proxy is None", False), ("trusted_proxy_count is None", True), ("trusted_proxy_count is None", False)} - {(a, not b) for (a, b) in need}
                                       or k.startswith("?") for (k, p) in dict(raises)[nd])]
        if hit:
            ctx.r.ok(rid, what + " raises ValueError", f.loc(hit[0].ast))
        else:
            ctx.r.violation(rid, key_of(f, None, "missing-crosscheck::" + key), what + " is not refused", f.loc())
    uv = [n for n in walk_own(f.node) if isinstance(n, ast.Assign) and dotted(n.targets[0]) == "unknown_values"]
    uvn = [nd for nd in g.nodes if nd.kind == "stmt" and uv and nd.ast is uv[0]]
    if uv and uvn and isinstance(uv[0].value, ast.BinOp) and isinstance(uv[0].value.op, ast.Sub) and is_h(uv[0].value.left, uvn[0]) and norm(uv[0].value.right) == "KNOWN_PROXY_HEADERS":
        ctx.r.ok(rid, "unknown kinds = given - KNOWN_PROXY_HEADERS", f.loc(uv[0]))
    else:
        ctx.r.violation(rid, key_of(f, None, "unknown-values-formula"), "unknown_values is not trusted_proxy_headers - KNOWN_PROXY_HEADERS", f.loc())
    # the hop count the proxy-header parser slices with is a number: an unset trusted_proxy_count becomes 1
    sets = [n for n in g.nodes if n.kind == "stmt" and isinstance(n.ast, ast.Assign) and any(dotted(t) == "self.trusted_proxy_count" for t in n.ast.targets)]
    nones = [b for b in g.nodes if b.kind == "branch" and isinstance(b.ast, ast.Compare) and dotted(b.ast.left) == "self.trusted_proxy_count" and isinstance(b.ast.comparators[0], ast.Constant) and b.ast.comparators[0].value is None
             and ((isinstance(b.ast.ops[0], ast.Is) and b.polarity) or (isinstance(b.ast.ops[0], ast.IsNot) and not b.polarity))]
    good = [n for n in sets if isinstance(n.ast.value, ast.Constant) and n.ast.value.value == 1]
    notnone = [b for b in g.nodes if b.kind == "branch" and any(b.ast is x.ast for x in nones) and b not in nones]
    if nones and good and g.path(g.entry, g.exit, avoid=good + notnone, follow_exc=False) is None:
        ctx.r.ok(rid, "an unset trusted_proxy_count defaults to 1 on every accepting path", f.loc(good[0].ast))
    else:
        ctx.r.violation(rid, key_of(f, None, "count-default-missing"), "an unset trusted_proxy_count (None) can leave Adjustments.__init__ unchanged: the proxy-header parser slices with it ([-None:] raises) and every proxied request is answered 400", f.loc())


def rule_r5(ctx):
    rid = "C20.R5"
    ctx.r.rule(rid, "check_sockets is called on every normal path of __init__ and refuses mixed or unsupported socket lists")
    p = ctx.p
    f = _init(ctx)
    g = cfg_of(f)
    calls = [n for n, c in find_calls(g, lambda c: dotted(c.func) in ("self.check_sockets", "Adjustments.check_sockets", "cls.check_sockets"))]
    if calls and g.path(g.entry, g.exit, avoid=calls, follow_exc=False) is None:
        ctx.r.ok(rid, "every normal path of __init__ passes check_sockets", f.loc(calls[0].ast))
    else:
        ctx.r.violation(rid, key_of(f, None, "check-sockets-skipped"), "__init__ can finish without check_sockets", f.loc())
    cs = p.func("adjustments.Adjustments.check_sockets")
    # recognised shape: one loop over the sockets whose body is an if / elif / else chain, each arm setting one
    # boolean flag; afterwards `if <flags>: raise`.  Any other shape is not decided here (exit 2), a recognised
    # shape with a missing piece is a violation.
    chain = None
    loopvar = None

    def arm_token(stmts):
        """the kind an arm records: `flag = True` -> flag, `kinds.add('inet')` -> 'inet', `return 'inet'` -> 'inet'"""
        if len(stmts) != 1:
            return None
        x = stmts[0]
        if isinstance(x, ast.Assign) and len(x.targets) == 1 and isinstance(x.targets[0], ast.Name) and isinstance(x.value, ast.Constant) and x.value.value is True:
            return x.targets[0].id
        if isinstance(x, ast.Expr) and isinstance(x.value, ast.Call) and isinstance(x.value.func, ast.Attribute) and x.value.func.attr == "add" \
                and len(x.value.args) == 1 and isinstance(x.value.args[0], ast.Constant) and isinstance(x.value.args[0].value, str):
            return x.value.args[0].value
        if isinstance(x, ast.Return) and isinstance(x.value, ast.Constant) and isinstance(x.value.value, str):
            return x.value.value
        return None

    def chain_of(stmts):
        """[(test or None, token)] of an if / elif / else chain, or of `if t: return k` statements followed by `return k`"""
        arms = []
        body = list(stmts)
        while body:
            node = body[0]
            if isinstance(node, ast.If):
                tk = arm_token(node.body)
                if tk is None:
                    return None
                arms.append((node.test, tk))
                if node.orelse:
                    if len(body) != 1:
                        return None
                    if len(node.orelse) == 1 and isinstance(node.orelse[0], ast.If):
                        body = [node.orelse[0]]
                        continue
                    tk = arm_token(node.orelse)
                    if tk is None:
                        return None
                    arms.append((None, tk))
                    return arms
                body = body[1:]
                continue
            tk = arm_token([node]) if len(body) == 1 else None
            if tk is None:
                return None
            arms.append((None, tk))
            return arms
        return arms or None
    for lp in [x for x in ast.walk(cs.node) if isinstance(x, ast.For)]:
        ch = chain_of(lp.body)
        if ch and isinstance(lp.target, ast.Name):
            chain, loopvar = ch, lp.target.id
    if chain is None:
        # {classify(sock) for sock in sockets}: the chain lives in a helper of the class
        for comp in [x for x in ast.walk(cs.node) if isinstance(x, (ast.SetComp, ast.ListComp, ast.GeneratorExp)) and len(x.generators) == 1]:
            e = comp.elt
            if isinstance(e, ast.IfExp) and isinstance(comp.generators[0].target, ast.Name) and not comp.generators[0].ifs:
                # 'inet' if <t1> else 'unix' if <t2> else 'unsupported'
                arms = []
                cur = e
                okc = True
                while isinstance(cur, ast.IfExp):
                    if not (isinstance(cur.body, ast.Constant) and isinstance(cur.body.value, str)):
                        okc = False
                        break
                    arms.append((cur.test, cur.body.value))
                    cur = cur.orelse
                if okc and isinstance(cur, ast.Constant) and isinstance(cur.value, str):
                    arms.append((None, cur.value))
                    chain, loopvar = arms, comp.generators[0].target.id
                    break
            if isinstance(e, ast.Call) and isinstance(e.func, ast.Attribute) and len(e.args) == 1 and isinstance(comp.generators[0].target, ast.Name) \
                    and dotted(e.args[0]) == comp.generators[0].target.id and cs.cls is not None:
                h = cs.cls.lookup(e.func.attr)
                if h is not None:
                    body = [x for x in h.node.body if not (isinstance(x, ast.Expr) and isinstance(x.value, ast.Constant))]
                    ch = chain_of(body)
                    if ch:
                        chain = ch
                        loopvar = [a for a in h.params if a not in ("self", "cls")][0]
    if chain is None:
        raise AnalysisError("check_sockets: classification shape not recognised (expected one loop with an if/elif/else chain setting one flag per arm)")
    # the chain as a function (family, type) -> flag, evaluated on every kind of socket
    from .common import formula_eval
    consts = {"socket.AF_INET": 1, "socket.AF_INET6": 2, "socket.AF_UNIX": 3, "socket.SOCK_STREAM": 10, "socket.SOCK_DGRAM": 11,
              "hasattr(socket, 'AF_UNIX')": True}

    def flag_for(fam, typ):
        env = dict(consts)
        env["%s.family" % loopvar] = fam
        env["%s.type" % loopvar] = typ
        for (t, fl) in chain:
            try:
                if t is None or formula_eval(t, env):
                    return fl
            except KeyError as ex:
                raise AnalysisError("check_sockets: cannot evaluate the classification test (%s)" % ex)
        return None
    table = {(fam, typ): flag_for(fam, typ) for fam in (1, 2, 3, 4) for typ in (10, 11)}
    inet, unix, unsup = [table[(1, 10)]], [table[(3, 10)]], [table[(4, 11)]]
    want = {k: (inet[0] if k[0] in (1, 2) and k[1] == 10 else unix[0] if k == (3, 10) else unsup[0]) for k in table}
    if None not in (inet[0], unix[0], unsup[0]) and len({inet[0], unix[0], unsup[0]}) == 3 and table == want:
        ctx.r.ok(rid, "every socket falls into inet / unix / unsupported (8 family x type combinations evaluated)", cs.loc())
    else:
        wrong = [k for k in table if table[k] != want.get(k)]
        ctx.r.violation(rid, key_of(cs, None, "classification"), "check_sockets does not classify every socket (missing else -> unsupported, or SOCK_STREAM test): (family, type) %s -> %s" % (wrong[:2], [table[k] for k in wrong[:2]]), cs.loc())
    gc = cfg_of(cs)
    ifs = [st for st in ast.walk(cs.node) if isinstance(st, ast.If) and any(isinstance(x, ast.Raise) for x in st.body)]
    tests = [gc.test_of(st) for st in ifs]

    def tok(v):
        # `flag`  or  `'kind' in kinds`
        if isinstance(v, ast.Compare) and len(v.ops) == 1 and isinstance(v.ops[0], ast.In) and isinstance(v.left, ast.Constant):
            return v.left.value
        return norm(v)

    def conj_of(t):
        return sorted(tok(v) for v in t.values) if isinstance(t, ast.BoolOp) and isinstance(t.op, ast.And) else [tok(t)]
    if inet and unix and any(conj_of(t) == sorted([inet[0], unix[0]]) for t in tests):
        ctx.r.ok(rid, "mixed Internet/UNIX lists raise", cs.loc())
    else:
        ctx.r.violation(rid, key_of(cs, None, "mixed-not-refused"), "mixed Internet and UNIX sockets are not refused", cs.loc())
    if unsup and any(conj_of(t) == [unsup[0]] for t in tests):
        ctx.r.ok(rid, "unsupported socket types raise", cs.loc())
    else:
        ctx.r.violation(rid, key_of(cs, None, "unsupported-not-refused"), "unsupported socket types are not refused", cs.loc())


def rule_r6(ctx, rid="C20.R6"):
    ctx.r.rule(rid, "CLI == keyword: options derived from _params; --x / --no-x map to strings on opposite sides of `truthy`; other options pass the raw string; listen accumulates space-separated")
    p = ctx.p
    f = p.func("adjustments.Adjustments.parse_args")
    truthy = p.const("adjustments", "truthy")
    loops = [x for x in ast.walk(f.node) if isinstance(x, ast.For) and norm(x.iter) in ("cls._params", "Adjustments._params")]
    if loops:
        ctx.r.ok(rid, "long options are generated from _params", f.loc(loops[0]))
    else:
        ctx.r.violation(rid, key_of(f, None, "options-second-list"), "parse_args does not derive its option list from _params", f.loc())
        return
    lp = loops[0]
    txt = norm(lp)
    gq = cfg_of(f)
    shapes = {}  # spelling kind -> set of outcomes of `cast is asbool` under which it is registered
    for nd, c in find_calls(gq, lambda c: isinstance(c.func, ast.Attribute) and c.func.attr in ("append", "extend") and isinstance(c.func.value, ast.Name)):
        if not any(x is c for x in ast.walk(lp)):
            continue
        elts = list(c.args[0].elts) if (c.func.attr == "extend" and c.args and isinstance(c.args[0], (ast.Tuple, ast.List))) else list(c.args[:1])
        pols = {pol for (t, pol) in guards_of(gq, nd) if isinstance(t, ast.Compare) and isinstance(t.ops[0], ast.Is) and norm(t.comparators[0]) == "asbool"}
        for e in elts:
            t = norm(e).replace('"', "'")
            kind = "valued" if t.endswith("+ '='") else ("negated" if t.startswith("'no-' +") else ("bare" if isinstance(e, ast.Name) else None))
            if kind:
                shapes.setdefault(kind, set()).update(pols or {None})
    if shapes.get("valued") == {False} and shapes.get("bare") == {True} and shapes.get("negated") == {True}:
        ctx.r.ok(rid, "booleans get --x and --no-x, everything else --x=", f.loc(lp))
    else:
        ctx.r.violation(rid, key_of(f, None, "option-shapes"), "boolean / valued option spellings are not generated as --x, --no-x / --x=", f.loc(lp))
    if ".replace('_', '-')" in txt.replace('"', "'"):
        ctx.r.ok(rid, "option spelling: '_' -> '-'", f.loc(lp))
    else:
        ctx.r.violation(rid, key_of(f, None, "option-spelling"), "options are not spelled by replacing '_' with '-'", f.loc(lp))
    g = cfg_of(f)
    # assignments kw[param] = <const str>
    consts = []
    for n in g.nodes:
        if n.kind == "stmt" and isinstance(n.ast, ast.Assign) and isinstance(n.ast.targets[0], ast.Subscript) and dotted(n.ast.targets[0].value) == "kw" \
                and isinstance(n.ast.value, ast.Constant) and isinstance(n.ast.value.value, str) and norm(n.ast.targets[0].slice) in ("param", "param[3:]"):
            neg = any(pol and isinstance(t, ast.Call) and isinstance(t.func, ast.Attribute) and t.func.attr == "startswith" and t.args and isinstance(t.args[0], ast.Constant) and t.args[0].value == "no_" for (t, pol) in guards_of(g, n))
            consts.append((n, n.ast.value.value, neg))
    pos = [c for c in consts if not c[2]]
    negs = [c for c in consts if c[2]]
    if not pos or not negs:
        ctx.r.violation(rid, key_of(f, None, "bool-mapping"), "parse_args does not map --x / --no-x to constant strings", f.loc())
    for (n, v, neg) in consts:
        in_truthy = v.strip().lower() in truthy
        if neg and in_truthy:
            ctx.r.violation(rid, key_of(f, None, "no-x-truthy::" + v), "--no-x is mapped to %r, which asbool() reads as True" % v, f.loc(n.ast))
        elif (not neg) and not in_truthy:
            ctx.r.violation(rid, key_of(f, None, "x-falsy::" + v), "--x is mapped to %r, which asbool() reads as False" % v, f.loc(n.ast))
        else:
            ctx.r.ok(rid, "--%sx -> %r is %s under asbool" % ("no-" if neg else "", v, not neg), f.loc(n.ast))
    # the positive constant is only used for asbool params
    for (n, v, neg) in pos:
        if any(pol and isinstance(t, ast.Compare) and "is asbool" in norm(t) for (t, pol) in guards_of(g, n)):
            ctx.r.ok(rid, "the flag form is only used for asbool parameters", f.loc(n.ast))
        else:
            ctx.r.violation(rid, key_of(f, None, "flag-for-nonbool"), "a bare --x (without value) is accepted for a non-boolean parameter", f.loc(n.ast))
    raw = [n for n in g.nodes if n.kind == "stmt" and isinstance(n.ast, ast.Assign) and isinstance(n.ast.targets[0], ast.Subscript) and dotted(n.ast.targets[0].value) == "kw"
           and dotted(n.ast.targets[0].slice) == "param" and dotted(n.ast.value) == "value"]
    if raw:
        ctx.r.ok(rid, "valued options hand the raw string to __init__ (same cast as the keyword form)", f.loc(raw[0].ast))
    else:
        ctx.r.violation(rid, key_of(f, None, "raw-value"), "valued options are not passed through unchanged", f.loc())
    ls = [n for n in g.nodes if n.kind == "stmt" and isinstance(n.ast, ast.Assign) and isinstance(n.ast.targets[0], ast.Subscript) and norm(n.ast.targets[0].slice) == "'listen'"]
    def _accumulates(n):
        """kw['listen'] = <previous value or ''> SP <this value>: read as a string template with the locals resolved"""
        from .common import str_template, template_text
        parts = str_template(n.ast.value)
        if parts is None or template_text(parts, names=False) != "{} {}":
            return False
        holes = [pt[1] for pt in parts if not isinstance(pt, str)]
        if len(holes) != 2 or holes[1] != "value":
            return False
        prev = holes[0]
        pe = ast.parse(prev, mode="eval").body
        if isinstance(pe, ast.Name):
            pe = resolve_locals(f, pe) or pe
        txt = norm(pe).replace('"', "'")
        if txt in ("kw.get('listen', '')", "kw['listen'] if 'listen' in kw else ''"):
            return True
        # the two cases written as two statements under `'listen' in kw` / its negation
        member = [pol for (t, pol) in guards_of(g, n) if isinstance(t, ast.Compare) and isinstance(t.ops[0], ast.In) and norm(t).replace('"', "'") == "'listen' in kw"]
        return (txt == "kw['listen']" and member == [True]) or (txt == "''" and member == [False])
    if ls and (("{} {}" in norm(ls[0].ast.value) and "kw.get('listen'" in norm(ls[0].ast.value) and "value" in norm(ls[0].ast.value)) or all(_accumulates(x) for x in ls)):
        ctx.r.ok(rid, "--listen accumulates, space separated (aslist splits on whitespace)", f.loc(ls[0].ast))
    else:
        ctx.r.violation(rid, key_of(f, None, "listen-accumulate"), "repeated --listen options do not accumulate space-separated", f.loc())
    if ".replace('-', '_')" in norm(f.node).replace('"', "'"):
        ctx.r.ok(rid, "option names are mapped back with '-' -> '_'", f.loc())
    else:
        ctx.r.violation(rid, key_of(f, None, "name-backmap"), "CLI option names are not mapped back to keyword names", f.loc())
    # asbool: the cast used for booleans tests membership in truthy after lower/strip
    ab = p.func("adjustments.asbool")
    from .common import resolve_locals
    okb = False
    for cmpn in [x for x in ast.walk(ab.node) if isinstance(x, ast.Compare) and len(x.ops) == 1 and isinstance(x.ops[0], ast.In) and dotted(x.comparators[0]) == "truthy"]:
        e = resolve_locals(ab, cmpn.left)
        meths = []
        for _ in range(2):
            while isinstance(e, ast.Call) and isinstance(e.func, ast.Attribute) and not e.args and not e.keywords:
                meths.append(e.func.attr)
                e = e.func.value
            # the parameter itself re-bound once (s = str(s).strip()): continue through that definition
            if isinstance(e, ast.Name) and e.id == ab.params[0]:
                defs = [x for x in ast.walk(ab.node) if isinstance(x, ast.Assign) and len(x.targets) == 1 and isinstance(x.targets[0], ast.Name) and x.targets[0].id == e.id]
                if len(defs) == 1 and not any(isinstance(y, ast.Compare) and y is cmpn for y in ast.walk(defs[0])):
                    e = defs[0].value
                    continue
            break
        base_ok = (isinstance(e, ast.Call) and dotted(e.func) == "str" and len(e.args) == 1 and dotted(e.args[0]) == ab.params[0]) or dotted(e) == ab.params[0]
        if base_ok and "strip" in meths and ("lower" in meths or "casefold" in meths) and set(meths) <= {"strip", "lower", "casefold"}:
            okb = True
    if okb:
        ctx.r.ok(rid, "asbool = lower/strip membership in truthy", ab.loc())
    else:
        ctx.r.violation(rid, key_of(ab, None, "asbool"), "asbool no longer tests lower-cased, stripped membership in truthy", ab.loc())
    if {"t", "true", "y", "yes", "on", "1"} == set(truthy):
        ctx.r.ok(rid, "truthy = documented spellings", ab.loc())
    else:
        ctx.r.violation(rid, "truthy-set", "truthy is %s" % sorted(truthy), ab.loc())


def _rst_terms(text):
    """Definition-list terms of docs/arguments.rst: a non-indented single word line followed by an indented line."""
    out = []
    lines = text.split("\n")
    for i, l in enumerate(lines[:-1]):
        if re.fullmatch(r"[a-z][a-z0-9_]*", l) and lines[i + 1].startswith("  "):
            out.append(l)
    return out


def _cli_opts(text, rst):
    pat = re.compile(r"^``--(\[no-\])?([a-z][a-z0-9-]*)(=[^`]*)?``\s*$") if rst else re.compile(r"^    --(\[no-\])?([a-z][a-z0-9-]*)(=\S+)?\s*$")
    out = []
    for l in text.split("\n"):
        m = pat.match(l)
        if m:
            out.append((m.group(2), bool(m.group(1)), bool(m.group(3))))
    return out


def rule_r7(ctx):
    rid = "C20.R7"
    ctx.r.rule(rid, "documented == implemented: docs/arguments.rst terms = _params names; HELP and docs/runner.rst options = _params - {sockets} + {help, app, call}")
    p = ctx.p
    cls, params = _params(ctx)
    names = {n for (n, c) in params}
    doc = p.docs.get("docs/arguments.rst")
    if doc is None:
        raise AnalysisError("docs/arguments.rst not found")
    terms = set(_rst_terms(doc))
    if terms == names:
        ctx.r.ok(rid, "docs/arguments.rst documents exactly the %d adjustments" % len(names), "docs/arguments.rst")
    else:
        for n in sorted(names - terms):
            ctx.r.violation(rid, "undocumented-argument::" + n, "adjustment %s is implemented but not documented in docs/arguments.rst" % n, "docs/arguments.rst")
        for n in sorted(terms - names):
            ctx.r.violation(rid, "phantom-argument::" + n, "docs/arguments.rst documents %s, which is not an adjustment" % n, "docs/arguments.rst")
    want = {n.replace("_", "-") for n in names if n != "sockets"} | {"help", "app", "call"}
    helptext = p.const("runner", "HELP")
    for label, opts in (("runner.HELP", _cli_opts(helptext, False)), ("docs/runner.rst", _cli_opts(p.docs.get("docs/runner.rst", ""), True))):
        got = {o[0] for o in opts}
        if not got:
            ctx.r.error(rid, "no options recognised in %s" % label)
            continue
        if got == want:
            ctx.r.ok(rid, "%s lists exactly the %d CLI options" % (label, len(want)), label)
        else:
            for n in sorted(want - got):
                ctx.r.violation(rid, "undocumented-option::%s::%s" % (label, n), "--%s is accepted by the runner but missing from %s" % (n, label), label)
            for n in sorted(got - want):
                ctx.r.violation(rid, "phantom-option::%s::%s" % (label, n), "%s documents --%s, which the runner does not accept" % (label, n), label)
        # valued vs flag spelling agrees with the cast
        casts = dict(params)
        for (o, has_no, has_val) in opts:
            n = o.replace("-", "_")
            if n in casts:
                isb = isinstance(casts[n], Sym) and casts[n].name.endswith("asbool")
                if isb and has_val:
                    ctx.r.violation(rid, "option-shape::%s::%s" % (label, o), "%s documents the boolean --%s as taking a value" % (label, o), label)
                if (not isb) and not has_val:
                    ctx.r.violation(rid, "option-shape::%s::%s" % (label, o), "%s documents --%s without '=VALUE' although it takes one" % (label, o), label)


def rule_r9(ctx):
    """Shared with C15.R5: an accepted setting is applied - clear_untrusted_proxy_headers / trusted_proxy install the
    middleware, each adjustment passed to the parameter of the same meaning."""
    from . import c15
    c15.rule_r5(ctx, rid="C20.R9")


def rule_r10(ctx):
    rid = "C20.R10"
    ctx.r.rule(rid, "accepted settings are applied: unix_socket_perms is applied to the socket file after bind() created it")
    p = ctx.p
    f = p.func("server.UnixWSGIServer.bind_server_socket")
    g = cfg_of(f)
    binds = [n for n, c in find_calls(g, lambda c: dotted(c.func) == "self.bind")]
    chm = [n for n, c in find_calls(g, lambda c: dotted(c.func) == "os.chmod")]
    if not chm:
        ctx.r.violation(rid, key_of(f, None, "perms-not-applied"), "unix_socket_perms is never applied (no os.chmod)", f.loc())
        return
    for n in chm:
        c = [x for x in ast.walk(n.ast) if isinstance(x, ast.Call) and dotted(x.func) == "os.chmod"][0]
        if binds and all(g.dominates(b, n) for b in binds):
            ctx.r.ok(rid, "chmod after bind", f.loc(n.ast))
        else:
            ctx.r.violation(rid, key_of(f, None, "chmod-before-bind"), "os.chmod runs before bind() created the socket file: the exists() guard skips it and the socket keeps the umask default instead of unix_socket_perms", f.loc(n.ast))
        if len(c.args) >= 2 and norm(c.args[1]).endswith("adj.unix_socket_perms") and norm(c.args[0]).endswith("adj.unix_socket"):
            ctx.r.ok(rid, "chmod(adj.unix_socket, adj.unix_socket_perms)", f.loc(n.ast))
        else:
            ctx.r.violation(rid, key_of(f, None, "chmod-args"), "os.chmod is called with %s" % norm(c)[:60], f.loc(n.ast))


def rule_r11(ctx, rid="C20.R11"):
    ctx.r.rule(rid, "accepted settings are applied in every server flavour: each call of the I/O loop made by a server's run() binds the loop's `timeout` to adj.asyncore_loop_timeout and its `use_poll` to adj.asyncore_use_poll (the single-socket and the multi-socket server are siblings: a setting honoured by one and dropped by the other is silently ignored for some listen configurations)")
    p = ctx.p
    loopf = p.func("wasyncore.loop")
    params = list(loopf.params)
    want = {"timeout": "asyncore_loop_timeout", "use_poll": "asyncore_use_poll"}
    n = 0
    for f in sorted(p.functions.values(), key=lambda f: f.qual):
        if not f.qual.startswith("server.") or f.name != "run":
            continue
        for c in ast.walk(f.node):
            if not (isinstance(c, ast.Call) and isinstance(c.func, ast.Attribute) and c.func.attr == "loop" and (dotted(c.func.value) or "").endswith("asyncore")):
                continue
            n += 1
            bound = {params[i]: a for i, a in enumerate(c.args) if i < len(params)}
            for kw in c.keywords:
                if kw.arg:
                    bound[kw.arg] = kw.value
            for par, setting in sorted(want.items()):
                e = bound.get(par)
                src = resolve_locals(f, e) if e is not None else None
                if src is not None and (dotted(src) or "").endswith("adj." + setting):
                    ctx.r.ok(rid, "%s: loop(%s=adj.%s)" % (f.qual, par, setting), f.loc(c))
                else:
                    ctx.r.violation(rid, key_of(f, None, "loop-setting-dropped::" + setting), "%s runs the I/O loop with %s = %s: the accepted setting %s is ignored by this server flavour" % (f.qual, par, norm(e) if e is not None else "the loop's default", setting), f.loc(c))
    ctx.r.floor(rid, n, 2, "I/O loop calls in server run() methods")
    # ... and the loop honours them: the poll()-based pass is selected only when use_poll holds, the select()-based one
    # whenever it does not; the timeout handed to each pass is the loop's own parameter
    g = cfg_of(loopf)
    sel = {}
    for nd in g.nodes:
        if nd.kind == "stmt" and isinstance(nd.ast, ast.Assign) and isinstance(nd.ast.value, ast.Name) and nd.ast.value.id in ("poll", "poll2"):
            sel.setdefault(nd.ast.value.id, []).append(nd)
    if not sel.get("poll") or not sel.get("poll2"):
        raise AnalysisError("anchor vanished: the selection of poll / poll2 in wasyncore.loop")
    up_true = [b for b in g.nodes if b.kind == "branch" and isinstance(b.ast, ast.Name) and b.ast.id == "use_poll" and b.polarity is True]
    up_false = [b for b in g.nodes if b.kind == "branch" and isinstance(b.ast, ast.Name) and b.ast.id == "use_poll" and b.polarity is False]
    ok2 = up_true and all(g.path(g.entry, x, avoid=up_true, follow_exc=False) is None for x in sel["poll2"])
    ok1 = up_false and all(g.path(b, x, follow_exc=False) is None for b in up_false for x in sel["poll2"]) and all(any(g.path(b, x, follow_exc=False) is not None for x in sel["poll"]) for b in up_false)
    if ok1 and ok2:
        ctx.r.ok(rid, "wasyncore.loop selects poll2 only under use_poll and poll otherwise", loopf.loc(sel["poll2"][0].ast))
    else:
        ctx.r.violation(rid, key_of(loopf, None, "use-poll-not-honoured"), "wasyncore.loop does not select its pass by use_poll (poll2 reachable without it, or with it false): asyncore_use_poll is accepted and not applied", loopf.loc(sel["poll2"][0].ast))
    passvars = {t.id for nd in sel["poll"] + sel["poll2"] for t in nd.ast.targets if isinstance(t, ast.Name)}
    rebound = any(isinstance(x, ast.Name) and x.id == "timeout" and isinstance(x.ctx, ast.Store) for x in ast.walk(loopf.node))
    npass = 0
    for c in ast.walk(loopf.node):
        if isinstance(c, ast.Call) and isinstance(c.func, ast.Name) and c.func.id in passvars:
            npass += 1
            if c.args and isinstance(c.args[0], ast.Name) and c.args[0].id == "timeout" and not rebound:
                ctx.r.ok(rid, "the pass is called with the loop's timeout", loopf.loc(c))
            else:
                ctx.r.violation(rid, key_of(loopf, None, "loop-timeout-not-passed"), "wasyncore.loop calls its pass as %s: asyncore_loop_timeout is accepted and not applied" % norm(c)[:50], loopf.loc(c))
    ctx.r.floor(rid, npass, 1, "calls of the selected pass in wasyncore.loop")


def rule_r12(ctx, rid="C20.R12"):
    ctx.r.rule(rid, "documented meanings of two settings are kept where they are consumed: a `listen` entry is resolved for *binding* (getaddrinfo with AI_PASSIVE, so that '*' means every address and not loopback), and the loop timeout - seconds - is handed to select() unchanged and to poll() multiplied by 1000")
    p = ctx.p
    f = _init(ctx)
    calls = [c for c in ast.walk(f.node) if isinstance(c, ast.Call) and (dotted(c.func) or "").endswith("getaddrinfo")]
    ctx.r.floor(rid, len(calls), 1, "getaddrinfo calls resolving listen entries")
    for c in calls:
        flags = c.args[5] if len(c.args) > 5 else next((k.value for k in c.keywords if k.arg == "flags"), None)
        if flags is not None and any((dotted(x) or "").endswith("AI_PASSIVE") for x in ast.walk(flags)):
            ctx.r.ok(rid, "listen entries are resolved with AI_PASSIVE", f.loc(c))
        else:
            ctx.r.violation(rid, key_of(f, None, "listen-not-passive"), "getaddrinfo is called without AI_PASSIVE: the documented wildcard `*` (host None) resolves to the loopback address instead of every address - the setting is accepted and not applied as documented", f.loc(c))
    # the two passes
    for q, unit in (("wasyncore.poll", 1), ("wasyncore.poll2", 1000)):
        pf = p.func(q)
        g = cfg_of(pf)
        tp = pf.params[0]
        waits = [(n, c) for n, c in find_calls(g, lambda c: isinstance(c.func, ast.Attribute) and c.func.attr in ("select", "poll") and c.args)]
        waits = [(n, c) for (n, c) in waits if not (c.func.attr == "poll" and dotted(c.func.value) == "select")]
        if not waits:
            raise AnalysisError("anchor vanished: the blocking wait of %s" % q)
        for n, c in waits:
            a = c.args[-1] if c.func.attr == "select" else c.args[0]
            e = a
            if isinstance(e, ast.Name):
                ds = [m for m in g.nodes if m.kind == "stmt" and isinstance(m.ast, ast.Assign) and any(isinstance(t, ast.Name) and t.id == e.id for t in m.ast.targets)]
                e = ds[-1].ast.value if ds else e
            txt = norm(e).replace(" ", "")
            if unit == 1:
                good = isinstance(a, ast.Name) and a.id == tp and not [m for m in g.nodes if m.kind == "stmt" and isinstance(m.ast, (ast.Assign, ast.AugAssign)) and any(isinstance(t, ast.Name) and t.id == tp and isinstance(t.ctx, ast.Store) for t in ast.walk(m.ast))]
            else:
                good = txt in ("int(%s*1000)" % tp, "int(1000*%s)" % tp, "%s*1000" % tp, "1000*%s" % tp)
            if good:
                ctx.r.ok(rid, "%s waits for %s" % (q, "the timeout as given (seconds)" if unit == 1 else "timeout * 1000 (milliseconds)"), pf.loc(c))
            else:
                ctx.r.violation(rid, key_of(pf, None, "loop-timeout-unit"), "%s waits for `%s`: asyncore_loop_timeout is documented in seconds, %s" % (q, norm(e)[:50], "select() takes seconds" if unit == 1 else "poll() takes milliseconds - the seconds must be multiplied by 1000"), pf.loc(c))


def rule_r13(ctx, rid="C20.R13"):
    ctx.r.rule(rid, "settings that select what is listened on are applied as documented, for every value: an AF_INET6 listener is made IPv6-only whatever the other settings are (ipv4=False must not leave a dual-stack socket), and a configured unix_socket path is removed before binding only when it IS a socket (anything else makes the start-up fail)")
    p = ctx.p
    f = p.func("server.BaseWSGIServer.__init__")
    g = cfg_of(f)
    sites = [(n, c) for n, c in find_calls(g, lambda c: isinstance(c.func, ast.Attribute) and c.func.attr == "setsockopt" and len(c.args) == 3 and "V6ONLY" in norm(c.args[1]))]
    if not sites:
        ctx.r.violation(rid, key_of(f, None, "v6only-missing"), "an AF_INET6 listening socket is no longer made IPv6-only: `::` accepts IPv4 clients as well, ipv4=False is not honoured and the 0.0.0.0 listener of the same port cannot bind", f.loc())
    for (n, c) in sites:
        extra = []
        fam = False
        for (t, pol) in guards_of(g, n):
            txt = norm(t).replace(" ", "")
            if pol and "AF_INET6" in txt and "family" in txt and isinstance(t, ast.Compare) and isinstance(t.ops[0], ast.Eq):
                fam = True
            elif "_sock" in txt or "sock" == txt:
                continue
            else:
                extra.append(("" if pol else "not ") + norm(t))
        v = c.args[2]
        if not (isinstance(v, ast.Constant) and v.value in (1, True)):
            ctx.r.violation(rid, key_of(f, None, "v6only-value"), "IPV6_V6ONLY is set to %s" % norm(v), f.loc(n.ast))
        elif extra:
            ctx.r.violation(rid, key_of(f, None, "v6only-conditional"), "IPV6_V6ONLY is set only when %s: for the other values an AF_INET6 listener is dual-stack - with ipv4 disabled IPv4 clients are still accepted through `::`" % " and ".join(extra), f.loc(n.ast))
        elif not fam:
            raise AnalysisError("the guard of the IPV6_V6ONLY call is not a family == AF_INET6 test: not decided")
        else:
            ctx.r.ok(rid, "every AF_INET6 socket the server creates is IPv6-only", f.loc(n.ast))
    u = p.func("utilities.cleanup_unix_socket")
    gu = cfg_of(u)
    rms = [(n, c) for n, c in find_calls(gu, lambda c: dotted(c.func) in ("os.remove", "os.unlink"))]
    if not rms:
        raise AnalysisError("anchor vanished: the removal of the stale socket in cleanup_unix_socket")
    for (n, c) in rms:
        if any(pol and isinstance(t, ast.Call) and (dotted(t.func) or "").endswith("S_ISSOCK") for (t, pol) in guards_of(gu, n)):
            ctx.r.ok(rid, "the unix_socket path is removed only when it is a socket", u.loc(n.ast))
        else:
            ctx.r.violation(rid, key_of(u, None, "unix-socket-remove-unguarded"), "cleanup_unix_socket removes the configured path without the test that it is a socket: a unix_socket setting that names an existing file deletes it and starts, instead of failing at start-up", u.loc(n.ast))


RULES = [rule_r1, rule_r2, rule_r3, rule_r4, rule_r5, rule_r6, rule_r7, rule_r9, rule_r10, rule_r11, rule_r12, rule_r13]

from ..selftest import M, T, V  # noqa: E402

selftest = [
    M("multi-run-no-poll", "server.py", "                map=self.map,\n                use_poll=self.adj.asyncore_use_poll,\n", "                map=self.map,\n", "R11"),
    M("loop-ignores-use-poll", "wasyncore.py", "    if use_poll and hasattr(select, \"poll\"):", "    if hasattr(select, \"poll\"):", "R11"),
    M("count-default-dropped", "adjustments.py", "        elif self.trusted_proxy_count is None:\n            self.trusted_proxy_count = 1\n", "", "R4"),
    T("run-poll-via-local", "server.py", "    def run(self):\n        try:\n            self.asyncore.loop(\n                timeout=self.adj.asyncore_loop_timeout,\n                map=self.map,\n                use_poll=self.adj.asyncore_use_poll,\n            )", "    def run(self):\n        adj = self.adj\n        try:\n            self.asyncore.loop(adj.asyncore_loop_timeout, adj.asyncore_use_poll, self.map)"),
    M("exclusion-dropped", "adjustments.py", "        if \"sockets\" in kw and \"unix_socket\" in kw:\n            raise ValueError(\"unix_socket may not be set if sockets is set\")\n\n", "", "R1"),
    M("exclusion-or-to-and", "adjustments.py", "if \"listen\" in kw and (\"host\" in kw or \"port\" in kw):", "if \"listen\" in kw and (\"host\" in kw and \"port\" in kw):", "R1"),
    M("setattr-before-test", "adjustments.py", "            if k not in self._param_map:\n                raise ValueError(\"Unknown adjustment %r\" % k)\n            setattr(self, k, self._param_map[k](v))", "            if k not in self._param_map:\n                continue\n            setattr(self, k, self._param_map[k](v))", "R2"),
    M("param-without-default", "adjustments.py", "        (\"server_name\", str),\n    )", "        (\"server_name\", str),\n        (\"keepalive_timeout\", int),\n    )", "R3"),
    M("no-x-mapped-to-1", "adjustments.py", "                kw[param] = \"false\"", "                kw[param] = \"1\"", "R6"),
    M("x-mapped-to-enabled", "adjustments.py", "                kw[param] = \"true\"", "                kw[param] = \"enabled\"", "R6"),
    M("count-check-dropped", "adjustments.py", "        if self.trusted_proxy_count is not None and self.trusted_proxy is None:\n            raise ValueError(\n                \"trusted_proxy_count has no meaning without setting \" \"trusted_proxy\"\n            )\n\n        elif self.trusted_proxy_count is None:", "        if self.trusted_proxy_count is None:", "R4"),
    M("forwarded-mix-allowed", "adjustments.py", "                \"forwarded\" in self.trusted_proxy_headers\n                and self.trusted_proxy_headers - {\"forwarded\"}", "                \"forwarded\" in self.trusted_proxy_headers\n                and self.trusted_proxy_headers - {\"forwarded\", \"x-forwarded-by\"}", "R4"),
    M("check-sockets-skipped", "adjustments.py", "        self.listen = wanted_sockets\n\n        self.check_sockets(self.sockets)", "        self.listen = wanted_sockets\n\n        if self.sockets and not self.unix_socket:\n            self.check_sockets(self.sockets)", "R5"),
    M("mixed-sockets-ok", "adjustments.py", "        if has_unix_socket and has_inet_socket:\n            raise ValueError(\"Internet and UNIX sockets may not be mixed.\")\n", "", "R5"),
    M("doc-missing", "docs/arguments.rst", "server_name\n    This is the value", "server-name\n    This is the value", "R7"),
    M("help-missing-option", "runner.py", "    --backlog=INT\n        Connection backlog for the server. Default is 1024.\n\n", "", "R7"),
    M("truthy-extended", "adjustments.py", "truthy = frozenset((\"t\", \"true\", \"y\", \"yes\", \"on\", \"1\"))", "truthy = frozenset((\"t\", \"true\", \"y\", \"yes\", \"on\", \"1\", \"false\"))", "R6"),
    M("listen-overwrites", "adjustments.py", "                kw[\"listen\"] = \"{} {}\".format(kw.get(\"listen\", \"\"), value)", "                kw[\"listen\"] = value", "R6"),
    T("params-reordered", "adjustments.py", "        (\"host\", str),\n        (\"port\", int),", "        (\"port\", int),\n        (\"host\", str),"),
    T("no-x-mapped-to-off", "adjustments.py", "                kw[param] = \"false\"", "                kw[param] = \"off\""),
    T("help-reworded", "runner.py", "        Connection backlog for the server. Default is 1024.", "        Listen backlog of the server socket. Default is 1024."),
]
