"""C02 — parsing does not depend on how the byte stream is split across reads
(carry pairing and affine consumed-count accounting)."""
from __future__ import annotations

import ast

from ..affine import Lin
from ..cfg import cfg_of
from ..model import AnalysisError, dotted, norm, walk_own
from .common import assigned_names, def_nodes, find_calls, guards_of, key_of, mentions, order_fact, startswith_fact

EXPLANATION = (
    "Static decision of the two things that make an incremental parser independent of read boundaries. (R1) carry "
    "pairing: for each carry field (header_plus; control_line, chunk_end, trailer) the incoming data is prefixed with "
    "the carry before any search looks at it, on the not-finished branch the joined bytes are stored back and the whole "
    "input is reported consumed, on the finished branch the carry is reset or the phase cannot be re-entered. (R2) "
    "consumed-count accounting: every return value of the three received() methods is expanded through its def-use "
    "chain into an affine form over len(data), len(carry) and the cut position and compared (normal form, no solver) "
    "with 'cut - len(carry)' - never counting carried bytes twice. (R3) the running counters: header size assigned the "
    "absolute index when the head ends and accumulated otherwise, body total accumulates the receiver's return value, "
    "remain decreases by exactly what was appended. (R4) the channel loop re-offers exactly data[n:] for the n just "
    "returned, stops at n >= len(data), and replaces a completed parser. Behavioural equality over all 2^(n-1) cuts is "
    "a relation between runs and is not decided."
)


class Expander:
    """Expand an integer expression at a CFG node into a linear form over base symbols by following unique
    reaching definitions of locals."""

    def __init__(self, func):
        self.f = func
        self.g = cfg_of(func)

    def reaching_defs(self, name, node):
        """Definition nodes of `name` that can reach `node` without an intervening definition."""
        defs = def_nodes(self.g, name)
        out = []
        for d in defs:
            if d is node:
                continue
            others = [x for x in defs if x is not d]
            r = self.g.reach(d, avoid=others, follow_exc=False)
            if node.id in r:
                out.append(d)
        return out

    def length(self, e, node, depth=0):
        """len of a bytes-valued expression as Lin."""
        if depth > 12:
            raise AnalysisError("expansion too deep")
        if isinstance(e, ast.Constant) and isinstance(e.value, bytes):
            return Lin.k(len(e.value))
        if isinstance(e, ast.BinOp) and isinstance(e.op, ast.Add):
            return self.length(e.left, node, depth + 1) + self.length(e.right, node, depth + 1)
        if isinstance(e, ast.Attribute):
            return Lin.sym("len(%s)" % dotted(e))
        if isinstance(e, ast.Name):
            if e.id in self.f.params:
                ds = self.reaching_defs(e.id, node)
                if not ds:
                    return Lin.sym("len(%s)" % e.id)
            ds = self.reaching_defs(e.id, node)
            if len(ds) == 1 and isinstance(ds[0].ast, ast.Assign):
                return self.length(ds[0].ast.value, ds[0], depth + 1)
            if not ds and e.id in self.f.params:
                return Lin.sym("len(%s)" % e.id)
            # loop-carried / merged: the current value of the variable at this point
            return Lin.sym("len(%s@L%d)" % (e.id, self._anchor(e.id, node)))
        if isinstance(e, ast.Subscript) and isinstance(e.slice, ast.Slice):
            lo, hi = e.slice.lower, e.slice.upper
            if lo is None and hi is not None:
                # data[:k] with k <= len(data) on this path (guarded) -> k ; unguarded -> unknown
                k = self.value(hi, node, depth + 1)
                base = self.length(e.value, node, depth + 1)
                for (t, pol) in guards_of(self.g, node):
                    if isinstance(t, ast.Compare) and len(t.ops) == 1:
                        try:
                            a, b = self.value(t.left, node, depth + 1), self.value(t.comparators[0], node, depth + 1)
                        except AnalysisError:
                            continue
                        op = type(t.ops[0])
                        if (op is ast.LtE and pol and a == k and b == base) or (op is ast.GtE and pol and b == k and a == base) \
                                or (op is ast.Gt and not pol and a == k and b == base) or (op is ast.Lt and not pol and b == k and a == base):
                            return k
                raise AnalysisError("length of %s not affine (prefix slice without a dominating bound)" % norm(e))
            if lo is not None and hi is None:
                return self.length(e.value, node, depth + 1) - self.value(lo, node, depth + 1)
        raise AnalysisError("cannot express the length of %s" % norm(e))

    def _anchor(self, name, node):
        ds = self.reaching_defs(name, node)
        return min([d.lineno for d in ds] or [0])

    def value(self, e, node, depth=0):
        if depth > 12:
            raise AnalysisError("expansion too deep")
        if isinstance(e, ast.Constant) and isinstance(e.value, int) and not isinstance(e.value, bool):
            return Lin.k(e.value)
        if isinstance(e, ast.BinOp) and isinstance(e.op, (ast.Add, ast.Sub)):
            a, b = self.value(e.left, node, depth + 1), self.value(e.right, node, depth + 1)
            return a + b if isinstance(e.op, ast.Add) else a - b
        if isinstance(e, ast.Call) and dotted(e.func) == "len" and len(e.args) == 1:
            return self.length(e.args[0], node, depth + 1)
        if isinstance(e, ast.Call) and (dotted(e.func) or "").endswith("find_double_newline"):
            return Lin.sym("cut(%s)" % norm(e.args[0]))
        if isinstance(e, ast.Call) and isinstance(e.func, ast.Attribute) and e.func.attr == "find":
            return Lin.sym("cut(%s)" % norm(e.func.value))
        if isinstance(e, ast.Call) and isinstance(e.func, ast.Attribute) and e.func.attr == "received":
            return Lin.sym("consumed_by(%s)" % norm(e.func.value))
        if isinstance(e, ast.Attribute):
            return Lin.sym(dotted(e))
        if isinstance(e, ast.Name):
            ds = self.reaching_defs(e.id, node)
            if len(ds) == 1 and isinstance(ds[0].ast, ast.Assign) and len(ds[0].ast.targets) == 1 and isinstance(ds[0].ast.targets[0], ast.Name):
                return self.value(ds[0].ast.value, ds[0], depth + 1)
            if not ds and e.id in self.f.params:
                return Lin.sym(e.id)
            raise AnalysisError("ambiguous definition of %s at line %d" % (e.id, node.lineno))
        raise AnalysisError("cannot express %s as an affine form" % norm(e))


def rule_r2_header(ctx, rid="C02.R2"):
    ctx.r.rule(rid, "consumed-count accounting: every return of the received() methods equals cut - len(carry) (or len(data) when nothing was cut) as an affine form")
    p = ctx.p
    f = p.func("parser.HTTPRequestParser.received")
    g = cfg_of(f)
    ex = Expander(f)
    data = f.params[1]
    D = Lin.sym("len(%s)" % data)
    H = Lin.sym("len(self.header_plus)")
    rets = [n for n in g.nodes if n.kind == "stmt" and isinstance(n.ast, ast.Return) and n.id in g.reachable_nodes()]
    n_checked = 0
    for r in rets:
        v = r.ast.value
        gs = guards_of(g, r)
        in_body = any((not pol) and isinstance(t, ast.Compare) and norm(t) in ("br is None", "self.body_rcv is None") for (t, pol) in gs) or \
            any(pol and isinstance(t, ast.Compare) and norm(t) in ("br is not None", "self.body_rcv is not None") for (t, pol) in gs)
        if isinstance(v, ast.Constant) and v.value == 0 and any(pol and dotted(t) == "self.completed" for (t, pol) in gs):
            ctx.r.ok(rid, "a completed parser consumes nothing", f.loc(r.ast))
            continue
        if in_body:
            # body phase: the receiver's return value, unchanged
            try:
                val = ex.value(v, r)
            except AnalysisError as e:
                ctx.r.error(rid, "body-phase return: %s" % e)
                continue
            n_checked += 1
            if len(val.t) == 1 and val.c == 0 and list(val.t)[0].startswith("consumed_by("):
                ctx.r.ok(rid, "body phase returns exactly what the receiver consumed", f.loc(r.ast))
            else:
                ctx.r.violation(rid, key_of(f, None, "body-consumed"), "body phase returns %s instead of the receiver's consumed count" % val, f.loc(r.ast))
            continue
        # header phase: check per reaching definition of the returned variable
        cases = []
        if isinstance(v, ast.Name):
            ds = ex.reaching_defs(v.id, r)
            for d in ds:
                if isinstance(d.ast, ast.Assign):
                    cases.append((d, d.ast.value))
            if not ds:
                cases.append((r, v))
        else:
            cases.append((r, v))
        for (dn, expr) in cases:
            if isinstance(expr, ast.Call) and dotted(expr.func) in ("min", "max") and len(expr.args) >= 2 and not expr.keywords:
                # min/max picks one of its operands: the count is right for every read only if the operand picked is
                # identically the wanted form.  No operand of that form: wrong whichever is picked; some but not all:
                # which one is picked depends on runtime values - not decided here.
                try:
                    alts = [ex.value(a, dn) for a in expr.args]
                except AnalysisError as e:
                    ctx.r.error(rid, "header-phase return %s: %s" % (norm(expr), e))
                    continue
                cutsyms = sorted({k for v in alts for k in v.t if k.startswith("cut(")})
                if cutsyms:
                    want = Lin.sym(cutsyms[0]) - H
                    n_checked += 1
                    if not any(v == want for v in alts):
                        ctx.r.violation(rid, key_of(f, None, "header-consumed::" + norm(expr)[:40]),
                                        "when the head ends inside this read the parser reports %s consumed, one of %s; none of them is cut - len(header_plus) (carried bytes are not part of this read): with a head split across reads the count is off and the following bytes are skipped or re-read"
                                        % (norm(expr), [str(v) for v in alts]), f.loc(dn.ast))
                    elif all(v == want for v in alts):
                        ctx.r.ok(rid, "head found: consumed = cut - len(header_plus)  [%s]" % want, f.loc(dn.ast))
                    else:
                        ctx.r.error(rid, "header-phase return %s: which operand is taken depends on runtime values" % norm(expr))
                    continue
            try:
                val = ex.value(expr, dn)
            except AnalysisError as e:
                ctx.r.error(rid, "header-phase return %s: %s" % (norm(expr), e))
                continue
            seen_pol = {}
            infeasible = False
            for (t, pol) in guards_of(g, dn) + guards_of(g, r):
                k = norm(t)
                if k in seen_pol and seen_pol[k] != pol:
                    infeasible = True
                seen_pol[k] = pol
            if infeasible:
                continue  # this definition cannot reach this return (contradicting branch outcomes of one test)
            n_checked += 1
            found = None
            for (t, pol) in guards_of(g, dn) + guards_of(g, r):
                if isinstance(t, ast.Compare) and isinstance(t.ops[0], (ast.GtE, ast.Lt)) and isinstance(t.comparators[0], ast.Constant) and t.comparators[0].value == 0:
                    found = pol if isinstance(t.ops[0], ast.GtE) else not pol
            cut = [k for k in val.t if k.startswith("cut(")]
            if found is True or cut:
                cutsym = Lin.sym(cut[0]) if cut else None
                want = (cutsym - H) if cutsym is not None else None
                if want is not None and val == want:
                    ctx.r.ok(rid, "head found: consumed = cut - len(header_plus)  [%s]" % val, f.loc(dn.ast))
                elif isinstance(expr, ast.Constant) and expr.value == 0 and found is None:
                    continue  # initialisation overwritten on both branches
                else:
                    ctx.r.violation(rid, key_of(f, None, "header-consumed::" + norm(expr)[:40]),
                                    "when the head ends inside this read the parser reports %s consumed; it must be cut - len(header_plus) (carried bytes are not part of this read)" % val, f.loc(dn.ast))
            elif found is False or val == D:
                if val == D:
                    ctx.r.ok(rid, "head not finished: the whole read is consumed", f.loc(dn.ast))
                else:
                    ctx.r.violation(rid, key_of(f, None, "header-consumed-partial::" + norm(expr)[:40]), "with the head unfinished the parser reports %s consumed instead of len(data)" % val, f.loc(dn.ast))
            else:
                if isinstance(expr, ast.Constant) and expr.value == 0:
                    continue
                ctx.r.violation(rid, key_of(f, None, "header-consumed-unknown::" + norm(expr)[:40]), "cannot relate the returned count %s to the cut position" % val, f.loc(dn.ast))
    ctx.r.floor(rid, n_checked, 4, "return values of HTTPRequestParser.received")


def _linear_terms(e, sign=1):
    """[(sign, atom)] of an expression built with + and - (unary minus included)."""
    if isinstance(e, ast.BinOp) and isinstance(e.op, ast.Add):
        return _linear_terms(e.left, sign) + _linear_terms(e.right, sign)
    if isinstance(e, ast.BinOp) and isinstance(e.op, ast.Sub):
        return _linear_terms(e.left, sign) + _linear_terms(e.right, -sign)
    if isinstance(e, ast.UnaryOp) and isinstance(e.op, ast.USub):
        return _linear_terms(e.operand, -sign)
    if isinstance(e, ast.UnaryOp) and isinstance(e.op, ast.UAdd):
        return _linear_terms(e.operand, sign)
    return [(sign, e)]


def rule_r2_receivers(ctx, rid="C02.R2b"):
    ctx.r.rule(rid, "consumed-count accounting in the body receivers (fixed: rm or len(data); chunked trailer exits: orig - (len(carry + rest) - cut))")
    p = ctx.p
    # FixedStreamReceiver
    f = p.func("receiver.FixedStreamReceiver.received")
    g = cfg_of(f)
    ex = Expander(f)
    data = f.params[1]
    D = Lin.sym("len(%s)" % data)
    RM = Lin.sym("self.remain")
    rets = [n for n in g.nodes if n.kind == "stmt" and isinstance(n.ast, ast.Return)]
    for r in rets:
        try:
            val = ex.value(r.ast.value, r)
        except AnalysisError as e:
            ctx.r.error(rid, "fixed receiver: %s" % e)
            continue
        apps = [n for n, c in find_calls(g, lambda c: dotted(c.func) == "self.buf.append") if g.dominates(n, r)]
        if val == Lin.k(0) and not apps:
            ctx.r.ok(rid, "fixed receiver: nothing left -> 0 consumed", f.loc(r.ast))
            continue
        if not apps:
            ctx.r.violation(rid, key_of(f, None, "fixed-consumed-without-append"), "the fixed receiver reports %s consumed without storing anything" % val, f.loc(r.ast))
            continue
        c = [x for x in ast.walk(apps[0].ast) if isinstance(x, ast.Call) and dotted(x.func) == "self.buf.append"][0]
        try:
            stored = ex.length(c.args[0], apps[0])
        except AnalysisError as e:
            ctx.r.error(rid, "fixed receiver append: %s" % e)
            continue
        if stored == val:
            ctx.r.ok(rid, "fixed receiver: consumed == bytes stored (%s)" % val, f.loc(r.ast))
        else:
            ctx.r.violation(rid, key_of(f, None, "fixed-consumed"), "the fixed receiver stores %s bytes but reports %s consumed" % (stored, val), f.loc(r.ast))
        # remain bookkeeping on this path
        st = [n for n in g.nodes if n.kind == "stmt" and isinstance(n.ast, (ast.Assign, ast.AugAssign)) and dotted(n.ast.targets[0] if isinstance(n.ast, ast.Assign) else n.ast.target) == "self.remain" and g.dominates(n, r)]
        if st:
            s0 = st[0].ast
            if isinstance(s0, ast.AugAssign) and isinstance(s0.op, ast.Sub):
                dec = ex.value(s0.value, st[0])
                ok = dec == stored
            else:
                newv = ex.value(s0.value, st[0])
                ok = (RM - newv) == stored
            if ok:
                ctx.r.ok(rid, "remain decreases by exactly the bytes stored", f.loc(st[0].ast))
            else:
                ctx.r.violation(rid, key_of(f, None, "fixed-remain"), "remain does not decrease by the %s bytes stored (%s)" % (stored, norm(s0)), f.loc(st[0].ast))
        else:
            ctx.r.violation(rid, key_of(f, None, "fixed-remain-missing"), "bytes are stored without updating remain", f.loc(r.ast))
    # ChunkedReceiver: exits inside the loop
    f = p.func("receiver.ChunkedReceiver.received")
    g = cfg_of(f)
    ex = Expander(f)
    sname = f.params[1]
    rets = [n for n in g.nodes if n.kind == "stmt" and isinstance(n.ast, ast.Return)]
    orig = None
    for n in g.nodes:
        if n.kind == "stmt" and isinstance(n.ast, ast.Assign) and isinstance(n.ast.value, ast.Call) and dotted(n.ast.value.func) == "len" and dotted(n.ast.value.args[0]) == sname and isinstance(n.ast.targets[0], ast.Name):
            if g.dominates(n, [x for x in g.nodes if x.kind == "join" and x.label == "loop_head"][0]):
                orig = n.ast.targets[0].id
    if orig is None:
        raise AnalysisError("cannot find the saved input size in ChunkedReceiver.received")
    n_exits = 0
    for r in rets:
        v = r.ast.value
        if isinstance(v, ast.Constant) and v.value == 0:
            continue
        if dotted(v) == orig:
            ctx.r.ok(rid, "chunked receiver: loop exhausted the input -> everything consumed", f.loc(r.ast))
            continue
        # form  orig - (len(J) - cut)  with J = carry + s
        n_exits += 1
        ok = False
        # as a linear form:  +orig  -len(J)  +cut   (any bracketing: orig - (len(J) - cut), orig - len(J) + cut, ...)
        terms = _linear_terms(v)
        pos_orig = [t for (sg, t) in terms if sg > 0 and dotted(t) == orig]
        neg_len = [t for (sg, t) in terms if sg < 0 and isinstance(t, ast.Call) and dotted(t.func) == "len"]
        rest_t = [(sg, t) for (sg, t) in terms if not (sg > 0 and dotted(t) == orig) and not (sg < 0 and isinstance(t, ast.Call) and dotted(t.func) == "len")]
        if len(pos_orig) == 1 and len(neg_len) == 1 and len(rest_t) == 1 and rest_t[0][0] > 0:
            lenpart, cut = neg_len[0], rest_t[0][1]
            if isinstance(lenpart, ast.Call) and dotted(lenpart.func) == "len":
                j = dotted(lenpart.args[0])
                # J must be  carry + s  (reaching def)
                ds = ex.reaching_defs(j, r) if j else []
                joined = len(ds) == 1 and isinstance(ds[0].ast, ast.Assign) and isinstance(ds[0].ast.value, ast.BinOp) and isinstance(ds[0].ast.value.op, ast.Add) \
                    and dotted(ds[0].ast.value.right) == sname and (dotted(ds[0].ast.value.left) or "").startswith("self.")
                # cut: constant 2 under startswith(CRLF) guard, or the find_double_newline result on J
                cut_ok = False
                if isinstance(cut, ast.Constant) and cut.value == 2:
                    cut_ok = any(startswith_fact(t, pol, lambda x: dotted(x) == j, b"\r\n") is True for (t, pol) in guards_of(g, r))
                    # "no trailer" is decided by the first two bytes alone: the exit must not also depend on a search of
                    # the rest (the bytes after the final CRLF belong to the next message)
                    searched = {n2.ast.targets[0].id for n2 in g.nodes if n2.kind == "stmt" and isinstance(n2.ast, ast.Assign) and isinstance(n2.ast.targets[0], ast.Name)
                                and isinstance(n2.ast.value, ast.Call) and ((dotted(n2.ast.value.func) or "").endswith("find_double_newline") or (isinstance(n2.ast.value.func, ast.Attribute) and n2.ast.value.func.attr in ("find", "index")))
                                and n2.ast.value.args and dotted(n2.ast.value.args[0] if (dotted(n2.ast.value.func) or "").endswith("find_double_newline") else n2.ast.value.func.value) == j}
                    extra = [(norm(t), pol) for (t, pol) in guards_of(g, r) if any(isinstance(y, ast.Name) and y.id in searched for y in ast.walk(t))]
                    if cut_ok and extra:
                        ctx.r.violation(rid, key_of(f, None, "no-trailer-exit-conditional"),
                                        "the 'no trailer' exit (the joined bytes start with CRLF) is additionally conditioned on %s: when the next pipelined request arrives in the same read, its head is taken for a trailer section" % extra, f.loc(r.ast))
                elif isinstance(cut, ast.Name):
                    cd = ex.reaching_defs(cut.id, r)
                    cut_ok = len(cd) == 1 and isinstance(cd[0].ast, ast.Assign) and isinstance(cd[0].ast.value, ast.Call) and (dotted(cd[0].ast.value.func) or "").endswith("find_double_newline") \
                        and dotted(cd[0].ast.value.args[0]) == j and any(order_fact(t, pol, ">=", lambda x: dotted(x) == cut.id, lambda x: isinstance(x, ast.Constant) and x.value == 0) for (t, pol) in guards_of(g, r))
                ok = joined and cut_ok
        if ok:
            ctx.r.ok(rid, "chunked receiver exit %s = orig - (len(carry + rest) - cut)" % norm(v), f.loc(r.ast))
        else:
            ctx.r.violation(rid, key_of(f, None, "chunked-exit::" + norm(v)[:50]), "the chunked receiver's exit %s is not orig - (len(carry + rest) - cut): bytes after the message end are mis-counted when the trailer is split across reads" % norm(v), f.loc(r.ast))
    ctx.r.floor(rid, n_exits, 2, "trailer exits of the chunked receiver")
    # loop variable updates
    upd = [n for n in g.nodes if n.kind == "stmt" and isinstance(n.ast, ast.Assign) and dotted(n.ast.targets[0]) == sname]
    # `line, sep, rest = s.partition(T)`: rest is s without a prefix (line + T)
    part_tails = {}
    for n2 in g.nodes:
        if n2.kind == "stmt" and isinstance(n2.ast, ast.Assign) and isinstance(n2.ast.value, ast.Call) and isinstance(n2.ast.value.func, ast.Attribute) and n2.ast.value.func.attr == "partition" \
                and dotted(n2.ast.value.func.value) == sname and isinstance(n2.ast.targets[0], ast.Tuple) and len(n2.ast.targets[0].elts) == 3 and isinstance(n2.ast.targets[0].elts[2], ast.Name):
            part_tails[n2.ast.targets[0].elts[2].id] = n2
    for n in upd:
        v = n.ast.value
        if isinstance(v, ast.Name) and v.id in part_tails and g.dominates(part_tails[v.id], n):
            ctx.r.ok(rid, "%s consumes a prefix of the rest (the tail of a partition of it)" % norm(n.ast), f.loc(n.ast))
        elif isinstance(v, ast.Subscript) and dotted(v.value) == sname and isinstance(v.slice, ast.Slice) and v.slice.upper is None and v.slice.lower is not None:
            ctx.r.ok(rid, "%s consumes a prefix of the rest" % norm(n.ast), f.loc(n.ast))
        elif isinstance(v, ast.Constant) and v.value == b"":
            # preceded by a store of the (joined) rest into a carry field
            prev = [m for m in g.nodes if m.kind == "stmt" and isinstance(m.ast, ast.Assign) and (dotted(m.ast.targets[0]) or "").startswith("self.") and g.dominates(m, n)
                    and any(s2 is n for (s2, l) in m.succ)]
            if prev and dotted(prev[0].ast.value) in (sname, "trailer"):
                ctx.r.ok(rid, "rest saved into %s before being dropped" % dotted(prev[0].ast.targets[0]), f.loc(n.ast))
            else:
                ctx.r.violation(rid, key_of(f, None, "rest-dropped::L" + norm(n.ast)), "the unconsumed rest is dropped (%s) without being saved into a carry field first" % norm(n.ast), f.loc(n.ast))
        elif isinstance(v, ast.BinOp) and isinstance(v.op, ast.Add) and dotted(v.right) == sname and (dotted(v.left) or "").startswith("self."):
            ctx.r.ok(rid, "%s joins the carry in front of the rest" % norm(n.ast), f.loc(n.ast))
        else:
            ctx.r.violation(rid, key_of(f, None, "rest-update::" + norm(n.ast)[:40]), "unrecognised update of the unconsumed rest: %s" % norm(n.ast), f.loc(n.ast))
    # chunk data: the bytes stored are s[:remainder]; the rest advances and the remainder decreases by exactly len(stored).
    # Decided by evaluating the straight-line block that holds the append over two symbols: R (chunk_remainder on entry) and
    # L (len of the stored bytes); locals that alias / copy the remainder are followed.
    wr = [n for n, c in find_calls(g, lambda c: dotted(c.func) == "self.buf.append")]
    parents = {}
    for x in ast.walk(f.node):
        for fld in ("body", "orelse", "finalbody"):
            sub = getattr(x, fld, None)
            if isinstance(sub, list):
                for y in sub:
                    parents[id(y)] = (x, sub)
    for n in wr:
        st_app = n.ast if isinstance(n.ast, ast.stmt) else None
        ok = False
        why = ""
        if st_app is not None and id(st_app) in parents:
            holder, block = parents[id(st_app)]
            outer = parents.get(id(holder), (None, []))[1] if isinstance(holder, ast.stmt) else []
            R, Lsym = Lin.sym("R"), Lin.sym("L")
            env = {}
            attr = R
            stored = None
            adv = None
            c0 = [x for x in ast.walk(st_app) if isinstance(x, ast.Call)][0]
            stored_name = dotted(c0.args[0]) if c0.args else None

            def ev(e):
                if isinstance(e, ast.Constant) and isinstance(e.value, int) and not isinstance(e.value, bool):
                    return Lin.k(e.value)
                if isinstance(e, ast.Name):
                    return env.get(e.id)
                if dotted(e) == "self.chunk_remainder":
                    return attr
                if isinstance(e, ast.BinOp) and isinstance(e.op, (ast.Add, ast.Sub)):
                    a, b = ev(e.left), ev(e.right)
                    if a is None or b is None:
                        return None
                    return a + b if isinstance(e.op, ast.Add) else a - b
                if isinstance(e, ast.Call) and dotted(e.func) == "len" and len(e.args) == 1 and dotted(e.args[0]) == stored_name and stored is not None:
                    return Lsym
                return None
            # statements before the `if` in the enclosing block may copy the remainder into a local
            for y in outer:
                if y is holder:
                    break
                if isinstance(y, ast.Assign) and len(y.targets) == 1 and isinstance(y.targets[0], ast.Name):
                    env[y.targets[0].id] = ev(y.value)
            bad = None
            for y in block:
                if isinstance(y, ast.Assign) and len(y.targets) == 1:
                    t = y.targets[0]
                    if isinstance(t, ast.Name) and t.id == stored_name:
                        v = y.value
                        if isinstance(v, ast.Subscript) and dotted(v.value) == sname and isinstance(v.slice, ast.Slice) and v.slice.lower is None and v.slice.upper is not None and ev(v.slice.upper) == R:
                            stored = True
                        else:
                            bad = "the bytes stored are %s, not %s[:remainder]" % (norm(v), sname)
                    elif isinstance(t, ast.Name) and t.id == sname:
                        v = y.value
                        if isinstance(v, ast.Subscript) and dotted(v.value) == sname and isinstance(v.slice, ast.Slice) and v.slice.upper is None and v.slice.lower is not None:
                            adv = ev(v.slice.lower)
                        else:
                            bad = "the rest is updated by %s" % norm(v)
                    elif isinstance(t, ast.Name):
                        env[t.id] = ev(y.value)
                    elif dotted(t) == "self.chunk_remainder":
                        attr = ev(y.value)
                elif isinstance(y, ast.AugAssign) and isinstance(y.op, (ast.Add, ast.Sub)):
                    cur = ev(y.target) if not isinstance(y.target, ast.Name) else env.get(y.target.id)
                    d = ev(y.value)
                    nv = None if (cur is None or d is None) else (cur + d if isinstance(y.op, ast.Add) else cur - d)
                    if isinstance(y.target, ast.Name):
                        env[y.target.id] = nv
                    elif dotted(y.target) == "self.chunk_remainder":
                        attr = nv
            if bad is None:
                if stored is None:
                    bad = "the value appended is not a prefix slice of the rest"
                elif adv != Lsym:
                    bad = "the rest advances by %s, the bytes stored have length L" % (adv,)
                elif attr != R - Lsym:
                    bad = "chunk_remainder becomes %s, expected R - L" % (attr,)
            ok = bad is None
            why = bad or ""
        if ok:
            ctx.r.ok(rid, "chunk data: stored = s[:remainder], rest advances and remainder decreases by len(stored)", f.loc(n.ast))
        else:
            ctx.r.violation(rid, key_of(f, None, "chunk-data-accounting"), "chunk data accounting: the bytes stored, the advance of the rest and the decrease of chunk_remainder do not agree (%s)" % why, f.loc(n.ast))


CARRIES = (
    ("parser.HTTPRequestParser.received", "self.header_plus"),
    ("receiver.ChunkedReceiver.received", "self.control_line"),
    ("receiver.ChunkedReceiver.received", "self.chunk_end"),
    ("receiver.ChunkedReceiver.received", "self.trailer"),
)


def rule_r1(ctx, rid="C02.R1"):
    ctx.r.rule(rid, "carry pairing: join before any search; store back and consume everything when unfinished; reset (or make the phase unreachable) when finished")
    p = ctx.p
    for (q, carry) in CARRIES:
        f = p.func(q)
        g = cfg_of(f)
        inp = f.params[1]
        joins = [n for n in g.nodes if n.kind == "stmt" and isinstance(n.ast, ast.Assign) and isinstance(n.ast.value, ast.BinOp) and isinstance(n.ast.value.op, ast.Add)
                 and dotted(n.ast.value.left) == carry and dotted(n.ast.value.right) == inp]
        if not joins:
            ctx.r.violation(rid, key_of(f, None, "no-join::" + carry), "%s is never prefixed to the incoming data: a token split across reads is looked at in pieces" % carry, f.loc())
            continue
        j = joins[0]
        jv = j.ast.targets[0].id if isinstance(j.ast.targets[0], ast.Name) else None
        # (a) every search (find / startswith / find_double_newline) in this phase looks at the joined value
        searches = []
        for n in g.nodes:
            if n.ast is None or n.kind not in ("stmt", "test"):
                continue
            for c in ast.walk(n.ast):
                if isinstance(c, ast.Call) and ((isinstance(c.func, ast.Attribute) and c.func.attr in ("find", "startswith", "index", "partition")) or (dotted(c.func) or "").endswith("find_double_newline")):
                    subj = c.func.value if isinstance(c.func, ast.Attribute) else (c.args[0] if c.args else None)
                    if g.dominates(j, n) and dotted(subj) in (jv, inp):
                        searches.append((n, c, dotted(subj)))
                elif isinstance(c, ast.Compare) and len(c.ops) == 1 and isinstance(c.ops[0], (ast.Eq, ast.NotEq)):
                    # `joined[:2] == b"\r\n"`: a look at the head of the value, like startswith
                    for side in (c.left, c.comparators[0]):
                        if isinstance(side, ast.Subscript) and isinstance(side.slice, ast.Slice) and side.slice.lower is None and dotted(side.value) in (jv, inp) and g.dominates(j, n):
                            fake = ast.copy_location(ast.Call(func=ast.Attribute(value=side.value, attr="startswith", ctx=ast.Load()), args=[c.comparators[0] if side is c.left else c.left], keywords=[]), c)
                            searches.append((n, fake, dotted(side.value)))
        bad = [(n, c) for (n, c, subj) in searches if subj != jv]
        # a search may skip a prefix of the joined buffer only if at most len(carry) - (len(terminator) - 1) bytes
        for (n, c, subj) in searches:
            if subj != jv:
                continue
            extra = []
            tlen = None
            if isinstance(c.func, ast.Attribute):
                extra = list(c.args[1:]) + [k.value for k in c.keywords]
                if c.args and isinstance(c.args[0], ast.Constant) and isinstance(c.args[0].value, bytes):
                    tlen = len(c.args[0].value)
            else:
                extra = list(c.args[1:]) + [k.value for k in c.keywords]
                callee = p.functions.get("utilities.find_double_newline")
                if callee is not None:
                    consts = [x.value for x in ast.walk(callee.node) if isinstance(x, ast.Constant) and isinstance(x.value, bytes)]
                    tlen = max((len(x) for x in consts), default=None)
            if not extra:
                continue
            start = extra[0]
            if isinstance(start, ast.Call) and dotted(start.func) == "max" and len(start.args) == 2:
                zero = [a for a in start.args if isinstance(a, ast.Constant) and a.value == 0]
                other = [a for a in start.args if a not in zero]
                if zero and other:
                    start = other[0]
            try:
                val = Expander(f).value(start, n)
            except AnalysisError as e:
                ctx.r.error(rid, "%s: cannot evaluate the search offset %s: %s" % (carry, norm(extra[0]), e))
                continue
            H = Lin.sym("len(%s)" % carry)
            diff = val - H
            if diff.t or tlen is None:
                ctx.r.error(rid, "%s: search offset %s is not of the form len(carry) - k" % (carry, val))
                continue
            k = -diff.c
            if k >= tlen - 1:
                ctx.r.ok(rid, "%s: the search skips len(carry) - %d bytes, the %d-byte terminator cannot hide there" % (carry, k, tlen), f.loc(n.ast))
            else:
                ctx.r.violation(rid, key_of(f, None, "search-skips-carry::" + carry),
                                "%s: the search starts at len(carry) - %d but the terminator is %d bytes long: a terminator whose last %d byte(s) arrive in a later read is never found"
                                % (carry, k, tlen, tlen - 1 - k if k >= 0 else tlen - 1), f.loc(n.ast))
        if searches and not bad:
            ctx.r.ok(rid, "%s: joined with the data before %d search(es)" % (carry, len(searches)), f.loc(j.ast))
        elif bad:
            ctx.r.violation(rid, key_of(f, None, "search-before-join::" + carry), "%s: %s searches the new data without the carried prefix" % (carry, norm(bad[0][1])), f.loc(bad[0][0].ast))
        else:
            pre = []
            for n in g.nodes:
                if n.ast is None or n.kind not in ("stmt", "test"):
                    continue
                for c in ast.walk(n.ast):
                    if isinstance(c, ast.Call) and isinstance(c.func, ast.Attribute) and c.func.attr in ("find", "startswith", "index", "partition") and dotted(c.func.value) in (inp, jv):
                        nxt = [s2 for (s2, l) in n.succ if l != "exc"]
                        if any(j is s2 or j.id in g.reach(s2, avoid=[x for x in g.nodes if x.kind == "join" and x.label == "loop_head"], follow_exc=False) for s2 in nxt):
                            pre.append((n, c))
            if pre:
                ctx.r.violation(rid, key_of(f, None, "search-before-join::" + carry), "%s: %s searches the new data before the carried prefix is joined" % (carry, norm(pre[0][1])), f.loc(pre[0][0].ast))
            else:
                ctx.r.error(rid, "%s: no search found after the join" % carry)
        early = []
        for n in g.nodes:
            if n.ast is None or n.kind not in ("stmt", "test") or g.dominates(j, n) or n.id not in g.reach(g.entry):
                continue
            for c in ast.walk(n.ast):
                if isinstance(c, ast.Call) and isinstance(c.func, ast.Attribute) and c.func.attr in ("find", "startswith") and dotted(c.func.value) == inp and j.id in g.reach(n, follow_exc=False) and False:
                    early.append(n)
        # (b) not finished: stored back
        stores = [n for n in g.nodes if n.kind == "stmt" and isinstance(n.ast, ast.Assign) and any(dotted(t) == carry for t in n.ast.targets) and g.dominates(j, n)]
        back = [n for n in stores if dotted(n.ast.value) == jv]
        resets = [n for n in stores if isinstance(n.ast.value, ast.Constant) and n.ast.value.value == b""]
        if back:
            b = back[0]
            notfound = any(isinstance(t, ast.Compare) and ((isinstance(t.ops[0], ast.Lt) and pol) or (isinstance(t.ops[0], ast.GtE) and not pol)) for (t, pol) in guards_of(g, b))
            # ... or the separator of a partition of the joined bytes came out empty
            seps = {m.ast.targets[0].elts[1].id for m in g.nodes if m.kind == "stmt" and isinstance(m.ast, ast.Assign) and isinstance(m.ast.value, ast.Call) and isinstance(m.ast.value.func, ast.Attribute)
                    and m.ast.value.func.attr == "partition" and dotted(m.ast.value.func.value) == jv and isinstance(m.ast.targets[0], ast.Tuple) and len(m.ast.targets[0].elts) == 3 and isinstance(m.ast.targets[0].elts[1], ast.Name)}
            notfound = notfound or any((not pol) and isinstance(t, ast.Name) and t.id in seps for (t, pol) in guards_of(g, b))
            if notfound:
                ctx.r.ok(rid, "%s: unfinished -> joined bytes stored back" % carry, f.loc(b.ast))
            else:
                ctx.r.violation(rid, key_of(f, None, "store-back-guard::" + carry), "%s is stored back on a path that is not the 'terminator not found' branch" % carry, f.loc(b.ast))
            # whole input consumed: followed by `return len(data)` or by s = b""
            after = g.reach(b, follow_exc=False)
            consumed_all = any(m.id in after and m.kind == "stmt" and ((isinstance(m.ast, ast.Return) and norm(m.ast.value) in ("datalen", "len(%s)" % inp, "orig_size")) or
                               (isinstance(m.ast, ast.Assign) and dotted(m.ast.targets[0]) == inp and isinstance(m.ast.value, ast.Constant) and m.ast.value.value == b"")) for m in g.nodes)
            if consumed_all:
                ctx.r.ok(rid, "%s: and the whole input is reported consumed" % carry, f.loc(b.ast))
            else:
                ctx.r.violation(rid, key_of(f, None, "store-back-not-consumed::" + carry), "%s keeps the bytes but they are not reported as consumed (they will be offered again)" % carry, f.loc(b.ast))
        else:
            ctx.r.violation(rid, key_of(f, None, "no-store-back::" + carry), "%s: on the unfinished branch the joined bytes are not stored back (the partial token is lost)" % carry, f.loc(j.ast))
        # (c) finished: reset, or phase not re-entered
        if resets:
            # ... on EVERY way from the join to the next round / the way out that does not keep the joined bytes: a reset
            # under a condition on the token (`if line:`) leaves the carry in front of the next token on the other arm
            comp0 = [n for n in g.nodes if n.kind == "stmt" and isinstance(n.ast, ast.Assign) and any(dotted(t) in ("self.completed", "self.error") for t in n.ast.targets)]
            heads = [x for x in g.nodes if x.kind == "join" and x.label == "loop_head" and g.dominates(x, j)]
            leak = None
            for tgt in heads + [g.exit]:
                pth = g.path(j, tgt, avoid=resets + back + comp0, follow_exc=False)
                if pth is not None:
                    leak = pth
                    break
            if leak is None:
                ctx.r.ok(rid, "%s: reset when the token is complete, on every path" % carry, f.loc(resets[0].ast))
            else:
                where = [n for n in leak if n.kind == "branch"]
                ctx.r.violation(rid, key_of(f, None, "reset-skipped::" + carry), "%s is reset only on some of the paths that complete a token (a path through %s reaches the next round with the carry still set): the stale bytes are prefixed to the next token when the token was cut between reads" % (carry, norm(where[-1].ast) if where else "the join"), f.loc(resets[0].ast))
        else:
            comp = [n for n in g.nodes if n.kind == "stmt" and isinstance(n.ast, ast.Assign) and any(dotted(t) in ("self.completed",) for t in n.ast.targets) and g.dominates(j, n)]
            hf = [n for n in g.nodes if n.kind == "stmt" and isinstance(n.ast, ast.Assign) and any(dotted(t) in ("self.headers_finished",) for t in n.ast.targets) and g.dominates(j, n)]
            if comp or hf:
                ctx.r.ok(rid, "%s: phase is left for good when the token is complete (completed / next phase)" % carry, f.loc((comp or hf)[0].ast))
            else:
                ctx.r.violation(rid, key_of(f, None, "no-reset::" + carry), "%s is neither reset nor is its phase left when the token is complete: stale bytes are prefixed to the next token" % carry, f.loc(j.ast))


def rule_r3(ctx, rid="C02.R3"):
    ctx.r.rule(rid, "running counters are cut-independent: header size is assigned the absolute index when the head ends and accumulated otherwise")
    p = ctx.p
    f = p.func("parser.HTTPRequestParser.received")
    g = cfg_of(f)
    ws = [n for n in g.nodes if n.kind == "stmt" and isinstance(n.ast, (ast.Assign, ast.AugAssign)) and dotted(n.ast.targets[0] if isinstance(n.ast, ast.Assign) else n.ast.target) == "self.header_bytes_received"]
    ctx.r.floor(rid, len(ws), 2, "updates of header_bytes_received")
    for n in ws:
        found = None
        for (t, pol) in guards_of(g, n):
            if isinstance(t, ast.Compare) and isinstance(t.comparators[0], ast.Constant) and t.comparators[0].value == 0 and isinstance(t.ops[0], (ast.GtE, ast.Lt)):
                found = pol if isinstance(t.ops[0], ast.GtE) else not pol
        if found is True:
            if isinstance(n.ast, ast.Assign) and isinstance(n.ast.value, ast.Name):
                ctx.r.ok(rid, "head found: header size := absolute position of the head end", f.loc(n.ast))
            else:
                ctx.r.violation(rid, key_of(f, None, "header-size-accumulated-at-end"), "when the head ends the header size is %s: it depends on how many bytes were carried from earlier reads" % norm(n.ast), f.loc(n.ast))
        elif found is False:
            inc = None
            if isinstance(n.ast, ast.AugAssign) and isinstance(n.ast.op, ast.Add):
                inc = n.ast.value
            elif isinstance(n.ast, ast.Assign) and len(n.ast.targets) == 1 and isinstance(n.ast.value, ast.BinOp) and isinstance(n.ast.value.op, ast.Add):
                # x = x + d  (or d + x): the same accumulation for integers
                tgt = norm(n.ast.targets[0])
                if norm(n.ast.value.left) == tgt:
                    inc = n.ast.value.right
                elif norm(n.ast.value.right) == tgt:
                    inc = n.ast.value.left
            if inc is not None and norm(inc) in ("datalen", "len(%s)" % f.params[1]):
                ctx.r.ok(rid, "head unfinished: header size += len(data)", f.loc(n.ast))
            else:
                ctx.r.violation(rid, key_of(f, None, "header-size-unfinished"), "with the head unfinished the header size is updated by %s" % norm(n.ast), f.loc(n.ast))
        else:
            ctx.r.violation(rid, key_of(f, None, "header-size-unguarded"), "header_bytes_received updated outside the found / not-found branches", f.loc(n.ast))
    from .c06 import rule_r3 as c06r3
    before = len(ctx.r.violations)
    c06r3(ctx, rid=rid)
    ctx.r.violations[before:] = [v for v in ctx.r.violations[before:] if "body-total" in v["key"] or "body-read" in v["key"]]


def rule_r4(ctx, rid="C02.R4"):
    ctx.r.rule(rid, "the channel loop re-offers exactly the unconsumed suffix: data = data[n:] for the n just returned, exit at n >= len(data), completed parser replaced")
    p = ctx.p
    f = p.func("channel.HTTPChannel.received")
    g = cfg_of(f)
    data = f.params[1]
    calls = [n for n in g.nodes if n.kind == "stmt" and isinstance(n.ast, ast.Assign) and isinstance(n.ast.value, ast.Call) and dotted(n.ast.value.func) == "self.request.received"]
    if not calls:
        raise AnalysisError("HTTPChannel.received no longer calls request.received")
    c = calls[0]
    nvar = c.ast.targets[0].id
    if dotted(c.ast.value.args[0]) == data:
        ctx.r.ok(rid, "the parser is offered the current data", f.loc(c.ast))
    else:
        ctx.r.violation(rid, key_of(f, None, "offer-arg"), "the parser is offered %s" % norm(c.ast.value.args[0]), f.loc(c.ast))
    adv = [n for n in g.nodes if n.kind == "stmt" and isinstance(n.ast, ast.Assign) and dotted(n.ast.targets[0]) == data]
    if adv and all(isinstance(n.ast.value, ast.Subscript) and dotted(n.ast.value.value) == data and isinstance(n.ast.value.slice, ast.Slice) and dotted(n.ast.value.slice.lower) == nvar and n.ast.value.slice.upper is None for n in adv):
        ctx.r.ok(rid, "data = data[n:]", f.loc(adv[0].ast))
    else:
        ctx.r.violation(rid, key_of(f, None, "advance"), "the loop does not advance by exactly the consumed count: %s" % [norm(n.ast) for n in adv], f.loc(adv[0].ast if adv else c.ast))
    for a in adv:
        if not g.dominates(c, a):
            ctx.r.violation(rid, key_of(f, None, "advance-stale-n"), "data is advanced by a count that does not come from this iteration's call", f.loc(a.ast))
    brk = [n for n in g.nodes if n.kind == "stmt" and isinstance(n.ast, ast.Break)]
    okb = False
    for b in brk:
        for (t, pol) in guards_of(g, b):
            if order_fact(t, pol, ">=", lambda x: dotted(x) == nvar, lambda x: norm(x) == "len(%s)" % data):
                okb = True
    loops = [x for x in ast.walk(f.node) if isinstance(x, ast.While) and dotted(x.test) == data]
    if not loops:
        # `while True` with the same bottom exit: the first round sees non-empty data when a dominating test says so, and
        # every later round a non-empty rest (the exit was not taken: n < len(data))
        loops = [x for x in ast.walk(f.node) if isinstance(x, ast.While) and isinstance(x.test, ast.Constant) and x.test.value is True and any(y is c.ast for y in ast.walk(x))
                 and any(pol and dotted(t) == data for (t, pol) in guards_of(g, c))]
    if okb and loops:
        ctx.r.ok(rid, "loop ends when n >= len(data) (and while data)", f.loc(brk[0].ast))
    else:
        ctx.r.violation(rid, key_of(f, None, "loop-exit"), "the feed loop's exit is not `n >= len(data)` inside `while data`", f.loc())
    # fresh parser after completion
    resets = [n for n in g.nodes if n.kind == "stmt" and isinstance(n.ast, ast.Assign) and dotted(n.ast.targets[0]) == "self.request" and isinstance(n.ast.value, ast.Constant) and n.ast.value.value is None]
    news = [n for n in g.nodes if n.kind == "stmt" and isinstance(n.ast, ast.Assign) and dotted(n.ast.targets[0]) == "self.request" and isinstance(n.ast.value, ast.Call)]
    r_ok = resets and all(any(pol and isinstance(t, ast.Attribute) and t.attr == "completed" for (t, pol) in guards_of(g, n)) for n in resets)
    n_ok = news and all(any(pol and isinstance(t, ast.Compare) and norm(t) == "self.request is None" for (t, pol) in guards_of(g, n)) and g.dominates(n, c) is False and c.id in g.reach(n) for n in news)
    if r_ok and n_ok:
        ctx.r.ok(rid, "a completed parser is dropped and a fresh one created before the next offer", f.loc(resets[0].ast))
    else:
        ctx.r.violation(rid, key_of(f, None, "parser-reuse"), "a completed parser is not replaced by a fresh one before leftover bytes are offered", f.loc())
    # completion reset happens on every path where completed (not only for non-empty requests)
    for n in resets:
        extra = [(norm(t), pol) for (t, pol) in guards_of(g, n) if not (isinstance(t, ast.Attribute) and t.attr == "completed") and dotted(t) != data and not isinstance(t, ast.Constant)
                 and "will_close" not in norm(t) and "close_when_flushed" not in norm(t) and norm(t) != "self.request is None"]
        if extra:
            ctx.r.violation(rid, key_of(f, None, "parser-reset-guarded"), "the completed parser is only dropped under %s" % extra, f.loc(n.ast))


def rule_r5(ctx):
    """Shared with C19.R3: the 100-continue latch is cleared only where a request completes (in received()), so whether the
    interim response is sent does not depend on where the reads were cut."""
    from . import c19
    c19.rule_r3(ctx, rid="C02.R5")


def rule_r6(ctx):
    """Shared with C19.R2: the deferred interim response is sent by the worker only for the last queued request, so its
    position among the final responses is the same however the pipelined requests were cut into reads."""
    from . import c19
    c19.rule_r2(ctx, rid="C02.R6")


def rule_r7(ctx):
    """Shared with C11.R1: whether bytes behind a refused message reach the application must not depend on where the reads were cut - the close decision and received()'s test of it are in one requests_lock region."""
    from . import c11
    c11.rule_r1(ctx, rid="C02.R7")


RULES = [rule_r1, rule_r2_header, rule_r2_receivers, rule_r3, rule_r4, rule_r5, rule_r6, rule_r7]

from ..selftest import M, T, V  # noqa: E402

selftest = [
    M("consumed-clamped", "parser.py", "                consumed = datalen - (len(s) - index)", "                consumed = min(index, datalen)", "R2"),
    M("carry-ignored-in-count", "parser.py", "                consumed = datalen - (len(s) - index)", "                consumed = datalen - (len(data) - index)", "R2"),
    M("count-off-by-carry", "parser.py", "                consumed = datalen - (len(s) - index)", "                consumed = index", "R2"),
    M("control-line-not-reset", "receiver.py", "                    s = s[pos + 2 :]\n                    self.control_line = b\"\"\n", "                    s = s[pos + 2 :]\n", "R1"),
    M("chunk-end-search-before-join", "receiver.py", "                s = self.chunk_end + s\n\n                pos = s.find(b\"\\r\\n\")\n", "                pos = s.find(b\"\\r\\n\")\n                s = self.chunk_end + s\n", "R1"),
    M("trailer-exit-off", "receiver.py", "                    return orig_size - (len(trailer) - pos)", "                    return orig_size - (len(trailer) - pos) + 1", "R2b"),
    M("trailer-exit-ignores-carry", "receiver.py", "                    return orig_size - (len(trailer) - pos)", "                    return orig_size - (len(s) - pos)", "R2b"),
    M("header-size-accumulated", "parser.py", "                self.header_bytes_received = index\n", "                self.header_bytes_received += index\n", "R3"),
    M("header-plus-not-stored", "parser.py", "            # Header not finished yet.\n            self.header_plus = s\n", "            # Header not finished yet.\n            self.header_plus = data\n", "R1"),
    M("advance-by-len", "channel.py", "                data = data[n:]\n", "                data = data[n + 1 :]\n", "R4"),
    M("parser-kept", "channel.py", "                            self.server.add_task(self)\n                    self.request = None\n", "                            self.server.add_task(self)\n                            self.request = None\n", "R4"),
    M("fixed-remain-wrong", "receiver.py", "            self.buf.append(data)\n            self.remain -= datalen\n", "            self.buf.append(data)\n            self.remain -= datalen - 1\n", "R2b"),
    M("fixed-returns-all", "receiver.py", "            self.completed = True\n\n            return rm\n", "            self.completed = True\n\n            return datalen\n", "R2b"),
    M("trailer-not-stored", "receiver.py", "                    # Trailer not finished.\n                    self.trailer = trailer\n                    s = b\"\"", "                    # Trailer not finished.\n                    s = b\"\"", "R2b"),
    M("chunk-remainder-by-request", "receiver.py", "                self.chunk_remainder -= written\n", "                self.chunk_remainder -= rm\n", "R2b"),
    V("search-skips-carry", "mutant", [("utilities.py", "def find_double_newline(s):\n    \"\"\"Returns the position just after a double newline in the given string.\"\"\"\n    pos = s.find(b\"\\r\\n\\r\\n\")", "def find_double_newline(s, start=0):\n    \"\"\"Returns the position just after a double newline in the given string.\"\"\"\n    pos = s.find(b\"\\r\\n\\r\\n\", start)"), ("parser.py", "            index = find_double_newline(s)\n", "            index = find_double_newline(s, max(len(self.header_plus) - 2, 0))\n")], "R1"),
    V("search-skips-safely", "twin", [("utilities.py", "def find_double_newline(s):\n    \"\"\"Returns the position just after a double newline in the given string.\"\"\"\n    pos = s.find(b\"\\r\\n\\r\\n\")", "def find_double_newline(s, start=0):\n    \"\"\"Returns the position just after a double newline in the given string.\"\"\"\n    pos = s.find(b\"\\r\\n\\r\\n\", start)"), ("parser.py", "            index = find_double_newline(s)\n", "            index = find_double_newline(s, max(len(self.header_plus) - 3, 0))\n")]),
    T("local-for-len", "parser.py", "                consumed = datalen - (len(s) - index)", "                slen = len(s)\n                consumed = datalen - (slen - index)"),
    T("direct-form", "parser.py", "                consumed = datalen - (len(s) - index)", "                consumed = index - len(self.header_plus)"),
    T("swap-finished-assignments", "receiver.py", "                    s = s[pos + 2 :]\n                    self.control_line = b\"\"\n", "                    self.control_line = b\"\"\n                    s = s[pos + 2 :]\n"),
]
