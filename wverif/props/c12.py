"""C12 — output buffering is bounded; producers are paused and released."""
from __future__ import annotations

import ast

from ..callgraph import get_callgraph
from ..cfg import cfg_of
from ..locks import get_locks
from ..model import AnalysisError, dotted, norm
from .common import eval_compare_on, find_calls, guards_of, key_of, mentions, mentions_attr

EXPLANATION = (
    "Static analysis of the wait/notify protocol on the output condition: the producer's append is dominated by the wait "
    "routine and the post-wake disconnect test; the producer's wait predicate P(total, mark) and the consumer's notify "
    "guard Q(total, mark) are extracted and evaluated on the three orderings total <,=,> mark (not P must imply Q); every "
    "predicate wait sits in a loop that re-tests connected; teardown clears connected before notifying, inside the lock; "
    "all waits/notifies use the one condition object while holding it; the unconditional wait after a failed flush is "
    "preceded by a wake-up of the I/O thread and the failing flush marks the channel for closing. The numeric bound and "
    "drain patterns are runtime quantities and are not decided."
)

OUT_LOCK = "HTTPChannel.outbuf_lock"


def _is_total(x):
    return dotted(x) == "self.total_outbufs_len"


def _is_mark(x):
    return dotted(x) == "self.adj.outbuf_high_watermark"


def _cond_calls(ctx, meth):
    """[(func, cfg, node, call)] for self.outbuf_lock.<meth>() in HTTPChannel."""
    p = ctx.p
    lk = get_locks(p)
    out = []
    for f in p.functions.values():
        if not f.qual.startswith("channel.HTTPChannel."):
            continue
        g = cfg_of(f)
        for n, c in find_calls(g, lambda c: isinstance(c.func, ast.Attribute) and c.func.attr == meth
                               and lk.table.resolve(f, c.func.value, lk.cg) == OUT_LOCK):
            out.append((f, g, n, c))
    return out


def rule_r1(ctx, rid="C12.R1"):
    ctx.r.rule(rid, "write_soon: the append and the counter increment are dominated by the wait routine and by the post-wake disconnect test that raises")
    p = ctx.p
    cg = get_callgraph(p)
    f = p.func("channel.HTTPChannel.write_soon")
    g = cfg_of(f)
    waits = [n for n, c in find_calls(g, lambda c: any(t.qual == "channel.HTTPChannel._flush_outbufs_below_high_watermark" for t in cg.callees(c)))]
    if not waits:
        ctx.r.violation(rid, key_of(f, None, "no-wait"), "write_soon never calls the watermark wait routine", f.loc())
        return
    appends = [n for n, c in find_calls(g, lambda c: isinstance(c.func, ast.Attribute) and c.func.attr == "append" and mentions(c.func.value, "self.outbufs"))]
    incs = [n for n in g.nodes if n.kind == "stmt" and isinstance(n.ast, ast.AugAssign) and dotted(n.ast.target) == "self.total_outbufs_len"]
    ctx.r.floor(rid, len(appends) + len(incs), 3, "appends / counter increments in write_soon")
    for n in appends + incs:
        what = norm(n.ast)[:60]
        if any(g.dominates(w, n) for w in waits):
            ctx.r.ok(rid, "%s after the watermark wait" % what, f.loc(n.ast))
        else:
            ctx.r.violation(rid, key_of(f, n.ast, "append-before-wait"), "%s is not dominated by the watermark wait" % what, f.loc(n.ast))
        # post-wake connected test: a guard `self.connected` True whose test node is dominated by the wait
        ok = False
        tests = []
        for (t, pol, b) in g.guards(n):
            if pol is True and dotted(t) == "self.connected" and any(g.dominates(w, b) for w in waits):
                # failing branch raises
                other = [x for x in g.nodes if x.kind == "branch" and x.ast is getattr(t, "_guard_of", t) and x.polarity is False]
                if other and g.exit.id not in g.reach(other[0], follow_exc=True) | set():
                    ok = True
                    tests.append(b)
                elif other:
                    # reaches exit only exceptionally?
                    if g.path(other[0], g.exit, follow_exc=False) is None:
                        ok = True
                        tests.append(b)
        if ok:
            ctx.r.ok(rid, "%s only after the post-wake disconnect test" % what, f.loc(n.ast))
        else:
            ctx.r.violation(rid, key_of(f, n.ast, "no-postwake-check"), "%s is not guarded by a connected test after waking (a released producer would append to a dead channel)" % what, f.loc(n.ast))
        # test and append are one critical section: the teardown flips `connected` and closes the buffers under the output
        # lock, so a test made outside it (or separated from the append by a point where the lock is given up) can pass
        # just before the teardown and the append lands on a closed channel - nothing ever closes what was appended
        if ok:
            from ..locks import get_locks
            lk = get_locks(p)
            atomic = False
            for b in tests:
                fwd = g.reach(b, follow_exc=False)
                between = [x for x in g.nodes if x.id in fwd and x is not n and x.ast is not None and x.kind in ("stmt", "test", "branch", "iter") and n.id in g.reach(x, follow_exc=False)]
                if all(OUT_LOCK in lk.held_at(f, x) for x in [b, n] + between) and not any(x in waits for x in between if x is not b):
                    atomic = True
            if atomic:
                ctx.r.ok(rid, "%s and the disconnect test are in one output-lock region" % what, f.loc(n.ast))
            else:
                ctx.r.violation(rid, key_of(f, n.ast, "postwake-check-not-atomic"), "%s is not in the same output-lock region as the connected test that guards it: the I/O thread's teardown can run in between, the data (a file wrapper included) is queued on a closed channel and never closed" % what, f.loc(n.ast))


def _wait_loops(ctx):
    """[(func, cfg, wait node, [loop tests (expr, polarity)])]"""
    out = []
    for (f, g, n, c) in _cond_calls(ctx, "wait"):
        # innermost enclosing while
        loop = None
        for w in ast.walk(f.node):
            if isinstance(w, ast.While) and any(x is c for x in ast.walk(w)):
                if loop is None or any(x is w for x in ast.walk(loop)):
                    loop = w
        out.append((f, g, n, c, loop))
    return out


def _eval_cmp(t, total, mark):
    """Evaluate a comparison over {total, mark, int constants}; None if not recognised."""
    import operator as op
    ops = {ast.Eq: op.eq, ast.NotEq: op.ne, ast.Lt: op.lt, ast.LtE: op.le, ast.Gt: op.gt, ast.GtE: op.ge}

    def val(x):
        if _is_total(x):
            return total
        if _is_mark(x):
            return mark
        if isinstance(x, ast.Constant) and isinstance(x.value, int) and not isinstance(x.value, bool):
            return x.value
        return None
    if isinstance(t, ast.UnaryOp) and isinstance(t.op, ast.Not):
        r = _eval_cmp(t.operand, total, mark)
        return None if r is None else (not r)
    if isinstance(t, ast.Compare) and len(t.ops) == 1 and type(t.ops[0]) in ops:
        a, b = val(t.left), val(t.comparators[0])
        if a is None or b is None:
            return None
        return ops[type(t.ops[0])](a, b)
    if _is_total(t):
        return total != 0
    return None


def rule_r2(ctx, rid="C12.R2"):
    ctx.r.rule(rid, "complementarity: whenever the producer's reason to sleep (P) is gone the consumer's notify guard (Q) holds, and an empty backlog never makes the producer wait - evaluated on a grid of (total, mark) covering <,=,> and the degenerate mark 0")
    # P: loop condition conjuncts mentioning the pending-output counter
    Ps = []
    for (f, g, n, c, loop) in _wait_loops(ctx):
        if loop is None:
            continue
        from ..inline import _nnf
        lt = _nnf(g.expand(loop.test, n), False)  # negations pushed to the leaves: `not (not c or not t > m)` is `c and t > m`
        conj = lt.values if isinstance(lt, ast.BoolOp) and isinstance(lt.op, ast.And) else [lt]
        ps = [t for t in conj if any(_is_total(x) for x in ast.walk(t))]
        if not ps:
            ctx.r.violation(rid, key_of(f, None, "wait-predicate-ignores-backlog"), "the wait loop does not test the pending output against the mark", f.loc(loop))
            continue
        Ps.append((f, loop, ps))
    Qs = []
    for (f, g, n, c) in _cond_calls(ctx, "notify") + _cond_calls(ctx, "notify_all"):
        if f.name == "handle_close":
            continue
        q = [(t, pol) for (t, pol) in guards_of(g, n) if any(_is_total(x) for x in ast.walk(t))]
        Qs.append((f, n, q))
    if not Ps:
        ctx.r.violation(rid, "producer-never-waits", "no wait loop compares the pending output with the high watermark: a fast producer is never paused and the output buffer grows without bound", "src/waitress/channel.py")
        return
    if not Qs:
        ctx.r.violation(rid, "no-consumer-notify", "the flush path never notifies the output condition", "src/waitress/channel.py")
        return
    grid = [(t, m) for m in (0, 1, 2) for t in (0, 1, 2, 3)]
    for (pf, loop, ps) in Ps:
        def P(t, m):
            v = True
            for x in ps:
                r = _eval_cmp(x, t, m)
                if r is None:
                    raise AnalysisError("cannot evaluate wait predicate %s" % norm(x))
                v = v and r
            return v
        ptxt = " and ".join(norm(x) for x in ps)
        stuck = [(0, m) for m in (0, 1, 2) if P(0, m)]
        if stuck:
            ctx.r.violation(rid, "producer-waits-on-empty-backlog", "the producer keeps waiting while %s even with nothing pending (total=0, mark=%d): it can never be released by draining" % (ptxt, stuck[0][1]), pf.loc(loop))
        else:
            ctx.r.ok(rid, "an empty backlog never satisfies the wait predicate %s" % ptxt, pf.loc(loop))
        for (qf, qn, q) in Qs:
            def Q(t, m):
                v = True
                for (x, pol) in q:
                    r = _eval_cmp(x, t, m)
                    if r is None:
                        raise AnalysisError("cannot evaluate notify guard %s" % norm(x))
                    v = v and (r == pol)
                return v
            qtxt = " and ".join(("" if pol else "not ") + norm(x) for (x, pol) in q) or "<always>"
            bad = [(t, m) for (t, m) in grid if not P(t, m) and not Q(t, m)]
            if bad:
                rel = sorted({"<" if t < m else "=" if t == m else ">" for (t, m) in bad})
                ctx.r.violation(rid, "wait-notify-gap::" + ",".join(rel),
                                "producer waits while %s but the consumer notifies only if %s: at total=%d, mark=%d the producer's predicate is false and nobody notifies"
                                % (ptxt, qtxt, bad[0][0], bad[0][1]), qf.loc(qn.ast))
            else:
                ctx.r.ok(rid, "wait predicate (%s) and notify guard (%s) are complementary on the grid" % (ptxt, qtxt), qf.loc(qn.ast))


def rule_r3(ctx, rid="C12.R3"):
    ctx.r.rule(rid, "predicate waits sit in a while loop whose condition includes connected; handle_close stores connected = False before notify, both inside the lock")
    p = ctx.p
    lk = get_locks(p)
    n_loops = 0
    for (f, g, n, c, loop) in _wait_loops(ctx):
        if loop is None:
            continue  # the unconditional wait: R5
        n_loops += 1
        if mentions(loop.test, "self.connected"):
            ctx.r.ok(rid, "wait loop re-tests connected", f.loc(loop))
        else:
            ctx.r.violation(rid, key_of(f, None, "wait-loop-no-connected"), "the watermark wait loop does not test connected: a disconnect cannot release the producer", f.loc(loop))
    ctx.r.floor(rid, n_loops, 1, "predicate wait loops")
    f = p.func("channel.HTTPChannel.handle_close")
    g = cfg_of(f)
    st = [n for n in g.nodes if n.kind == "stmt" and isinstance(n.ast, ast.Assign) and any(dotted(t) == "self.connected" for t in n.ast.targets)
          and isinstance(n.ast.value, ast.Constant) and n.ast.value.value is False]
    nt = [(n, c) for (ff, gg, n, c) in _cond_calls(ctx, "notify") + _cond_calls(ctx, "notify_all") if ff is f]
    if not nt:
        ctx.r.violation(rid, key_of(f, None, "no-notify-on-close"), "handle_close does not notify the output condition: a paused producer is never released on disconnect", f.loc())
    for (n, c) in nt:
        if any(g.dominates(s, n) for s in st):
            ctx.r.ok(rid, "handle_close clears connected before notifying", f.loc(n.ast))
        else:
            ctx.r.violation(rid, key_of(f, None, "notify-before-disconnect"), "handle_close notifies before clearing connected: the woken producer re-tests a stale flag and sleeps again", f.loc(n.ast))
        unconditional = not [t for (t, pol) in guards_of(g, n)]
        if unconditional:
            ctx.r.ok(rid, "handle_close notifies unconditionally", f.loc(n.ast))
        else:
            ctx.r.violation(rid, key_of(f, None, "conditional-notify-on-close"), "handle_close notifies only under a condition", f.loc(n.ast))
    # the discarded output is no longer counted: a worker that tests the watermark AFTER the teardown must find nothing to
    # flush - it would otherwise try the dead socket, fail, and wait for a wake-up that nobody is left to send
    zs = [n for n in g.nodes if n.kind == "stmt" and isinstance(n.ast, (ast.Assign, ast.AugAssign)) and any(dotted(t) == "self.total_outbufs_len" for t in (n.ast.targets if isinstance(n.ast, ast.Assign) else [n.ast.target]))]
    zero = [n for n in zs if isinstance(n.ast, ast.Assign) and isinstance(n.ast.value, ast.Constant) and n.ast.value.value == 0 and type(n.ast.value.value) is int]
    if zs and not zero:
        raise AnalysisError("handle_close updates total_outbufs_len by %s: not a shape this rule reads" % norm(zs[0].ast))
    for (n, c) in nt:
        if any(g.dominates(z, n) for z in zero):
            ctx.r.ok(rid, "handle_close zeroes the backlog figure before notifying", f.loc(n.ast))
        else:
            ctx.r.violation(rid, key_of(f, None, "backlog-kept-on-close"), "handle_close discards the output buffers but keeps total_outbufs_len: a worker that reaches the watermark test after the teardown tries to flush the closed socket, fails and waits on the output condition forever (nobody polls the channel any more)", f.loc(n.ast))
    for s in st:
        if OUT_LOCK in lk.held_at_stmt(f, s.ast):
            ctx.r.ok(rid, "connected cleared inside the output lock", f.loc(s.ast))
        else:
            ctx.r.violation(rid, key_of(f, None, "disconnect-outside-lock"), "handle_close clears connected outside the output lock (lost wake-up window)", f.loc(s.ast))


def rule_r4(ctx, rid="C12.R4"):
    ctx.r.rule(rid, "wait and notify use the one output condition while holding it")
    p = ctx.p
    lk = get_locks(p)
    n = 0
    for meth in ("wait", "notify", "notify_all"):
        for (f, g, node, c) in _cond_calls(ctx, meth):
            n += 1
            st = lk.stmt_of_node(f, node)
            if OUT_LOCK in lk.held_at_stmt(f, st):
                ctx.r.ok(rid, "%s() in %s holds the output lock" % (meth, f.name), f.loc(node.ast))
            else:
                ctx.r.violation(rid, key_of(f, None, "%s-unlocked" % meth), "%s() on the output condition without holding it in %s" % (meth, f.qual), f.loc(node.ast))
    ctx.r.floor(rid, n, 4, "wait/notify call sites on the output condition")


def rule_r5(ctx, rid="C12.R5"):
    ctx.r.rule(rid, "every wait is immediately preceded by a wake-up of the I/O thread; the handlers of a failing flush mark the channel for closing")
    p = ctx.p
    cg = get_callgraph(p)
    for (f, g, n, c, loop) in _wait_loops(ctx):
        # predecessor statement(s) of the wait node, skipping joins/branches
        preds = []
        seen = set()
        st = [x for (x, l) in n.pred]
        while st:
            x = st.pop()
            if x.id in seen:
                continue
            seen.add(x.id)
            if x.kind in ("join", "branch"):
                st.extend(y for (y, l) in x.pred)
            else:
                preds.append(x)
        ok = preds and all(x.kind == "stmt" and any(isinstance(cc, ast.Call) and any(t.qual.endswith("pull_trigger") for t in cg.callees(cc)) for cc in ast.walk(x.ast)) for x in preds)
        if ok:
            ctx.r.ok(rid, "wait in %s is immediately preceded by pull_trigger" % f.name, f.loc(n.ast))
        else:
            ctx.r.violation(rid, key_of(f, None, "wait-without-pull::" + ("loop" if loop is not None else "unconditional")),
                            "outbuf_lock.wait() in %s is not immediately preceded by a trigger pull: the I/O thread may never learn that a producer waits" % f.qual, f.loc(n.ast))
    fe = p.func("channel.HTTPChannel._flush_exception")
    ge = cfg_of(fe)
    hs = [n for n in ge.nodes if n.kind == "handler"]
    ctx.r.floor(rid, len(hs), 2, "handlers in _flush_exception")
    for h in hs:
        marks = [x for x in ast.walk(h.ast) if isinstance(x, ast.Assign) and any(dotted(t) == "self.will_close" for t in x.targets)
                 and isinstance(x.value, ast.Constant) and x.value.value is True]
        if marks:
            ctx.r.ok(rid, "flush failure handler (%s) marks the channel for closing" % (norm(h.ast.type) if h.ast.type else "bare"), fe.loc(h.ast))
        else:
            ctx.r.violation(rid, key_of(fe, None, "flush-failure-unmarked::" + (norm(h.ast.type) if h.ast.type else "bare")),
                            "a flush failure handler does not set will_close: the producer waiting for the I/O thread's decision is never released", fe.loc(h.ast))


def rule_r6(ctx, rid="C12.R6"):
    ctx.r.rule(rid, "drain liveness: whenever a producer can be paused (its wait predicate holds) the I/O thread's handle_write selects a flush routine - evaluated for all small (pending, mark, send_bytes), with and without a running task")
    import itertools
    from .common import formula_eval, formula_leaves
    p = ctx.p
    # P: the wait predicate of the producer (conjuncts on the pending counter)
    Ps = []
    for (f, g, n, c, loop) in _wait_loops(ctx):
        if loop is None:
            continue
        lt = g.expand(loop.test, n)
        conj = lt.values if isinstance(lt, ast.BoolOp) and isinstance(lt.op, ast.And) else [lt]
        ps = [t for t in conj if any(_is_total(x) for x in ast.walk(t))]
        if ps:
            Ps.append((f, ps))
    if not Ps:
        ctx.r.violation(rid, "producer-never-waits", "no wait loop compares the pending output with the high watermark", "src/waitress/channel.py")
        return
    hw = p.func("channel.HTTPChannel.handle_write")
    g = cfg_of(hw)
    # the statement that runs the selected routine, and the definitions of the selected routine that reach it
    runs = [(n, c) for n, c in find_calls(g, lambda c: dotted(c.func) == "self._flush_exception" and c.args and isinstance(c.args[0], ast.Name))]
    if not runs:
        raise AnalysisError("handle_write no longer runs a selected flush routine through _flush_exception")
    rn, rc = runs[0]
    var = rc.args[0].id
    nones = [n for n in g.nodes if n.kind == "stmt" and isinstance(n.ast, ast.Assign) and any(isinstance(t, ast.Name) and t.id == var for t in n.ast.targets)
             and isinstance(n.ast.value, ast.Constant) and n.ast.value.value is None]
    sel = [n for n in g.nodes if n.kind == "stmt" and isinstance(n.ast, ast.Assign) and any(isinstance(t, ast.Name) and t.id == var for t in n.ast.targets)]
    ctx.r.floor(rid, len(sel), 2, "assignments selecting the flush routine")
    bad = {}
    checked = 0
    for nn in nones:
        # is this `= None` the value that reaches the run?  (no other selection between it and the run)
        others = [x for x in sel if x is not nn]
        if g.path(nn, rn, avoid=others, follow_exc=False) is None:
            continue
        # the conditions under which this `= None` is the value that reaches the run: its own guards plus the
        # outcomes of the tests passed on the way (every loop-free path that avoids the other selections)
        base = guards_of(g, nn)
        avoid_ids = {x.id for x in others}
        paths = []

        def dfs(node, conds, seen):
            if len(paths) > 64:
                return
            if node is rn:
                paths.append(list(conds))
                return
            for (sx, lab) in node.succ:
                if lab == "exc" or sx.id in avoid_ids or sx.id in seen:
                    continue
                extra = [(sx.ast, sx.polarity)] if sx.kind == "branch" else []
                dfs(sx, conds + extra, seen | {sx.id})
        dfs(nn, [], {nn.id})
        if not paths:
            continue
        leaves = []
        for (t, pol) in base + [c for pth in paths for c in pth]:
            for lf in formula_leaves(t):
                if lf not in leaves:
                    leaves.append(lf)
        for (pf, ps) in Ps:
            for x in ps:
                for lf in formula_leaves(x):
                    if lf not in leaves:
                        leaves.append(lf)
        dom = {}
        for lf in leaves:
            if lf == "self.total_outbufs_len":
                dom[lf] = (0, 1, 2, 3)
            elif lf.endswith("outbuf_high_watermark") or lf.endswith("send_bytes"):
                dom[lf] = (0, 1, 2, 3)
            elif lf == "self.requests":
                dom[lf] = ((), ("task",))
            elif lf == "len(self.requests)":
                dom[lf] = (0, 1)
            else:
                dom[lf] = (False, True)
        for vals in itertools.product(*[dom[lf] for lf in leaves]):
            env = dict(zip(leaves, vals))
            try:
                if not all(bool(formula_eval(t, env)) == pol for (t, pol) in base):
                    continue
                if not any(all(bool(formula_eval(t, env)) == pol for (t, pol) in pth) for pth in paths):
                    continue
                paused = any(all(bool(formula_eval(x, env)) for x in ps) for (pf, ps) in Ps)
            except (KeyError, TypeError) as ex:
                raise AnalysisError("cannot evaluate the flush selection: %s" % ex)
            checked += 1
            if paused:
                sb = next((env[k] for k in env if k.endswith("send_bytes")), None)
                mk = next((env[k] for k in env if k.endswith("outbuf_high_watermark")), None)
                cls = "send_bytes-above-mark" if (sb is not None and mk is not None and sb > mk + 1) else "within-mark"
                bad.setdefault(cls, env)
    if not nones:
        ctx.r.ok(rid, "handle_write always selects a flush routine", hw.loc())
    for cls, env in sorted(bad.items()):
        ctx.r.violation(rid, key_of(hw, None, "drain-starved::" + cls),
                        "handle_write selects no flush routine although a producer can be paused at the mark (%s): the I/O thread never drains, the producer waits forever while the client is writable"
                        % ", ".join("%s=%r" % (k.replace("self.", "").replace("adj.", ""), v) for k, v in env.items()), hw.loc(nones[0].ast) if nones else hw.loc())
    if nones and not bad:
        ctx.r.ok(rid, "no flush is skipped while the producer's wait predicate holds (%d settings evaluated)" % checked, hw.loc(nones[0].ast))


def rule_r7(ctx):
    """Shared with C04.R1: 'never corrupts or reorders the output' - every access to the output state (buffer list,
    counters) by the producer and by the draining I/O thread holds the output lock along its call chain."""
    from . import c04
    c04.rule_r1(ctx, rid="C12.R7")


def rule_r8(ctx, rid="C12.R8"):
    ctx.r.rule(rid, "a disconnect noticed by the I/O thread's flush tears the channel down: on every call chain from handle_write the socket send runs with do_close=True (while a producer is paused the channel is not read, so this is the only way the disconnect is learnt and the producer released)")
    from ..locks import thread_roles
    p = ctx.p
    io = thread_roles(p)["IO"]
    keys = io.reaches("wasyncore.dispatcher.send")
    n = 0
    bad = {}
    for k in keys:
        # the chain of states back to the role's root
        chain = []
        kk = k
        guard = 0
        while kk is not None and guard < 80:
            chain.append(kk)
            kk = io.states[kk][1]
            guard += 1
        quals = [c[0] for c in chain]
        if "channel.HTTPChannel.handle_write" not in quals:
            continue
        n += 1
        ctxd = dict(k[2])
        if ctxd.get("do_close") is True:
            continue
        # the first function on the way (from handle_write down) whose own do_close is not True
        origin = None
        for c in reversed(chain):
            if "do_close" in dict(c[2]) and dict(c[2])["do_close"] is not True:
                origin = c[0]
                break
        bad.setdefault(origin or "?", io.chain(k))
    ctx.r.floor(rid, n, 2, "I/O-thread call chains from handle_write to the socket send")
    if not bad:
        ctx.r.ok(rid, "all %d chains from handle_write reach send() with do_close=True" % n, "src/waitress/channel.py")
    for origin, ch in sorted(bad.items()):
        ctx.r.violation(rid, "io-flush-never-closes::" + origin,
                        "the I/O thread's flush reaches the socket send with do_close not True (first lost in %s): a disconnect seen while sending is swallowed, the channel is never torn down and a producer paused at the watermark waits forever"
                        % origin, p.functions[origin].loc() if origin in p.functions else "src/waitress/channel.py", {"call_chain": ch})


def rule_r9(ctx):
    """Shared with C13.R5: 'released promptly ... if the client disconnects' - a socket error met by a flush always marks
    the channel for closing (the teardown is what notifies the paused producer)."""
    from . import c13
    c13.rule_r5(ctx, rid="C12.R9")


def rule_r10(ctx, rid="C12.R10"):
    ctx.r.rule(rid, "no thread blocks on a lock it already holds: a lock that is not re-entrant (threading.Lock, or a Condition built on one) is never acquired (with / blocking acquire) where the same thread may hold it - in the same function or along a call chain (the producer takes the output lock in write_soon and again in the pause helper: with a plain Lock it would stop at the mark for ever, and neither a drain nor a disconnect could release it)")
    from ..locks import get_locks, reacquisitions
    lk = get_locks(ctx.p)
    bad, nsites = reacquisitions(ctx.p)
    kinds = sorted("%s:%s" % kv for kv in lk.table.kind.items())
    ctx.r.floor(rid, len(kinds), 2, "lock objects of the package")
    if not bad:
        ctx.r.ok(rid, "locks %s; %d blocking acquisitions of non-reentrant locks, none nested" % (", ".join(kinds), nsites), "src/waitress")
    seen = set()
    for lid, f, st, how in bad:
        k = key_of(f, None, "self-deadlock::" + lid)
        if k in seen:
            continue
        seen.add(k)
        ctx.r.violation(rid, k, "%s acquires %s, which is not re-entrant, while the same thread may hold it (%s): the thread blocks on itself for ever" % (f.qual, lid, how), f.loc(st))


def rule_r11(ctx):
    """Shared with C17.R1: when an output buffer overflows to a file the whole backlog is copied (from offset 0) - the bound on buffered output is kept by moving it to disk, not by losing bytes or counting bytes that are gone."""
    from . import c17
    c17.rule_r1(ctx, rid="C12.R11")
    # ... and skip(n) drops exactly the n bytes that were sent: total_outbufs_len is decreased by n, so a buffer that
    # forgets more than n leaves the figure above what is buffered for good - the producer is paused on bytes that do
    # not exist and no drain can ever release it
    c17.rule_r3(ctx, rid="C12.R11")


def rule_r12(ctx, rid="C12.R12"):
    ctx.r.rule(rid, "a producer pauses holding nothing the I/O thread needs: along every worker call chain to a wait() on the output condition, the locks held besides the condition's own are locks the I/O thread never takes (while the worker sleeps with such a lock, the I/O thread blocks on it in received() and never reaches the flush that would notify)")
    from ..locks import get_locks, thread_roles
    p = ctx.p
    lk = get_locks(p)
    roles = thread_roles(p)
    io, wk = roles["IO"], roles["WORKER"]
    io_locks = set()
    for key in io.states:
        io_locks |= set(key[3])
        f0 = p.functions.get(key[0])
        if f0 is not None:
            for hs in lk.lexical(f0).values():
                io_locks |= set(hs)
    n = 0
    seen = set()
    for (f, g, nd, c) in _cond_calls(ctx, "wait"):
        own = lk.table.resolve(f, c.func.value, lk.cg)
        st = lk.stmt_of_node(f, nd)
        lex = lk.held_lex(f, st) if st is not None else frozenset()
        for key in wk.reaches(f.qual):
            if nd.id not in wk.live_nodes[key]:
                continue
            n += 1
            foreign = (set(key[3]) | set(lex)) - {own}
            clash = sorted(foreign & io_locks)
            if clash and (f.qual, tuple(clash)) not in seen:
                seen.add((f.qual, tuple(clash)))
                ctx.r.violation(rid, key_of(f, None, "waits-holding::" + ",".join(clash)), "a worker can wait on %s while holding %s, which the I/O thread also takes: the I/O thread blocks there, never flushes, never notifies - producer and loop deadlock although the client is reading" % (own, ", ".join(clash)),
                                f.loc(nd.ast), {"call_chain": wk.chain(key)})
    ctx.r.floor(rid, n, 2, "worker call chains reaching a wait on the output condition")
    if not seen:
        ctx.r.ok(rid, "%d worker chains wait holding only locks the I/O thread never takes (I/O-side locks: %s)" % (n, ", ".join(sorted(io_locks))), "src/waitress/channel.py")


def rule_r13(ctx):
    """Shared with C05.R4: a paused producer is released by the I/O thread's drain, and the I/O thread drains only channels
    that report themselves writable - writable() must hold whenever output is pending, whatever the thresholds are."""
    from . import c05
    c05.rule_r4(ctx, rid="C12.R13")


RULES = [rule_r1, rule_r2, rule_r3, rule_r4, rule_r5, rule_r6, rule_r7, rule_r8, rule_r9, rule_r10, rule_r11, rule_r12, rule_r13]

from ..selftest import M, T, V  # noqa: E402

selftest = [
    M("plain-lock-condition", "channel.py", "self.outbuf_lock = threading.Condition()", "self.outbuf_lock = threading.Condition(threading.Lock())", "R10"),
    T("rlock-condition", "channel.py", "self.outbuf_lock = threading.Condition()", "self.outbuf_lock = threading.Condition(threading.RLock())"),
    M("notify-strict-less", "channel.py", "if self.total_outbufs_len <= self.adj.outbuf_high_watermark:\n                    self.outbuf_lock.notify()", "if self.total_outbufs_len < self.adj.outbuf_high_watermark:\n                    self.outbuf_lock.notify()", "R2"),
    M("notify-only-empty", "channel.py", "if self.total_outbufs_len <= self.adj.outbuf_high_watermark:\n                    self.outbuf_lock.notify()", "if self.total_outbufs_len == 0:\n                    self.outbuf_lock.notify()", None),
    M("wait-ge", "channel.py", "                    self.connected\n                    and self.total_outbufs_len > self.adj.outbuf_high_watermark", "                    self.connected\n                    and self.total_outbufs_len >= self.adj.outbuf_high_watermark", "R2"),
    M("wait-loop-no-connected", "channel.py", "                    self.connected\n                    and self.total_outbufs_len > self.adj.outbuf_high_watermark", "                    self.total_outbufs_len > self.adj.outbuf_high_watermark", "R3"),
    M("notify-before-disconnect", "channel.py", "            self.total_outbufs_len = 0\n            self.connected = False\n            self.outbuf_lock.notify()", "            self.total_outbufs_len = 0\n            self.outbuf_lock.notify()\n            self.connected = False", "R3"),
    M("no-notify-on-close", "channel.py", "            self.connected = False\n            self.outbuf_lock.notify()\n", "            self.connected = False\n", "R3"),
    M("append-before-wait", "channel.py", "            with self.outbuf_lock:\n                self._flush_outbufs_below_high_watermark()\n\n                if not self.connected:\n                    raise ClientDisconnected\n                num_bytes = len(data)\n", "            with self.outbuf_lock:\n                num_bytes = len(data)\n                if not self.connected:\n                    raise ClientDisconnected\n", "R1"),
    M("no-postwake-check", "channel.py", "                self._flush_outbufs_below_high_watermark()\n\n                if not self.connected:\n                    raise ClientDisconnected\n", "                self._flush_outbufs_below_high_watermark()\n", "R1"),
    M("wait-without-pull", "channel.py", "                    self.server.pull_trigger()\n                    self.outbuf_lock.wait()\n\n                    return", "                    self.outbuf_lock.wait()\n\n                    return", "R5"),
    M("loop-wait-without-pull", "channel.py", "                ):\n                    self.server.pull_trigger()\n                    self.outbuf_lock.wait()", "                ):\n                    self.outbuf_lock.wait()", "R5"),
    M("flush-failure-unmarked", "channel.py", "                self.logger.exception(\"Unexpected exception when flushing\")\n                self.will_close = True\n", "                self.logger.exception(\"Unexpected exception when flushing\")\n", "R5"),
    M("notify-outside-lock", "channel.py", "                if self.total_outbufs_len <= self.adj.outbuf_high_watermark:\n                    self.outbuf_lock.notify()\n            finally:\n                self.outbuf_lock.release()", "                pass\n            finally:\n                self.outbuf_lock.release()\n            if self.total_outbufs_len <= self.adj.outbuf_high_watermark:\n                self.outbuf_lock.notify()", "R4"),
    T("notify-not-greater", "channel.py", "if self.total_outbufs_len <= self.adj.outbuf_high_watermark:\n                    self.outbuf_lock.notify()", "if not self.total_outbufs_len > self.adj.outbuf_high_watermark:\n                    self.outbuf_lock.notify()"),
    T("notify_all", "channel.py", "            self.connected = False\n            self.outbuf_lock.notify()\n", "            self.connected = False\n            self.outbuf_lock.notify_all()\n"),
    T("mark-swapped-sides", "channel.py", "if self.total_outbufs_len <= self.adj.outbuf_high_watermark:\n                    self.outbuf_lock.notify()", "if self.adj.outbuf_high_watermark >= self.total_outbufs_len:\n                    self.outbuf_lock.notify()"),
    T("always-notify", "channel.py", "                if self.total_outbufs_len <= self.adj.outbuf_high_watermark:\n                    self.outbuf_lock.notify()", "                self.outbuf_lock.notify()"),
]
