"""C03 — responses are well framed; persistence is signalled truthfully."""
from __future__ import annotations

import ast
import itertools

from ..callgraph import get_callgraph
from ..cfg import cfg_of
from ..locks import accesses, get_locks
from ..model import AnalysisError, NotConst, dotted, norm, walk_own
from .common import cmp_fact, find_calls, guards_of, key_of, mentions, mentions_attr, resolve_locals

EXPLANATION = (
    "Finite abstract evaluation of the response-header decision ladder: build_response_header touches its inputs only "
    "through comparisons, so the CFG from the version test to the exits is executed for every assignment of the atoms "
    "(version in {1.0,1.1,other}, request Connection in {keep-alive,close,other}, Content-Length known, has_body, already "
    "closing) and every end state is compared with an oracle table written from RFC 9112 (self-delimited unless closing, "
    "chunked iff 1.1/body/no length, Keep-Alive only when staying open, never CL+TE, unknown version raises). Further "
    "rules check on all paths: closes are announced through the one announcing writer unless after-the-fact, the chunk "
    "coding shape and terminator, the Content-Length clamp, the too-few-bytes close, file-wrapper length reconciliation, "
    "error responses close, and the relay close_on_finish -> close_when_flushed -> will_close -> handle_close. Byte-exact "
    "recoverability by a client and EOF timing are not decided."
)


# ----------------------------------------------------------------------
# R1: decision table

class St:
    __slots__ = ("V", "K", "CLH", "HB", "COF", "KA", "TE", "CH", "CLOSEHDR")

    def __init__(self, V, K, CLH, HB, COF):
        self.V, self.K, self.CLH, self.HB, self.COF = V, K, CLH, HB, COF
        self.KA = self.TE = self.CH = False
        self.CLOSEHDR = COF  # an already-closing task has announced it (set_close_on_finish)

    def key(self):
        return (self.V, self.K, self.CLH, self.HB, self.COF, self.KA, self.TE, self.CH)

    def copy(self):
        s = St(self.V, self.K, self.CLH, self.HB, self.COF)
        s.KA, s.TE, s.CH = self.KA, self.TE, self.CH
        return s


def _const_str(e):
    return e.value if isinstance(e, ast.Constant) and isinstance(e.value, str) else None


def _eval_test(t, st, names):
    """Truth of test expr under state, or None if not about the atoms."""
    if isinstance(t, ast.Compare) and len(t.ops) == 1 and (isinstance(t.left, ast.Name) or dotted(t.left) == "self.version"):
        # the version may be read through a local or as self.version directly
        nm = t.left.id if isinstance(t.left, ast.Name) else "self.version"
        c = t.comparators[0]
        if nm == names["version"] and _const_str(c) is not None and isinstance(t.ops[0], (ast.Eq, ast.NotEq)):
            v = (st.V == c.value)
            return v if isinstance(t.ops[0], ast.Eq) else not v
        if nm == names["connection"] and _const_str(c) is not None and isinstance(t.ops[0], (ast.Eq, ast.NotEq)):
            v = (st.K == c.value)
            return v if isinstance(t.ops[0], ast.Eq) else not v
        if nm == names["clh"] and isinstance(c, ast.Constant) and c.value is None:
            isnone = not st.CLH
            return isnone if isinstance(t.ops[0], ast.Is) else not isnone
    if isinstance(t, ast.Name) and t.id == names["clh"]:
        return st.CLH
    d = dotted(t)
    if d == "self.has_body":
        return st.HB
    if d == "self.close_on_finish":
        return st.COF
    return None


def _tuple_const(call):
    """('Connection', 'Keep-Alive') from  x.append(("Connection", "Keep-Alive"))"""
    if call.args and isinstance(call.args[0], ast.Tuple) and len(call.args[0].elts) == 2:
        a, b = call.args[0].elts
        return (_const_str(a), _const_str(b))
    return None


def rule_r1(ctx, rid="C03.R1"):
    ctx.r.rule(rid, "decision table of build_response_header: every feasible path over the atoms version/Connection/Content-Length-known/has_body/already-closing meets the RFC oracle")
    p = ctx.p
    f = p.func("task.Task.build_response_header")
    g = cfg_of(f)
    # names of the locals
    names = {"version": None, "connection": None, "clh": None}
    for node in walk_own(f.node):
        if isinstance(node, ast.Assign) and len(node.targets) == 1 and isinstance(node.targets[0], ast.Name):
            t = node.targets[0].id
            v = norm(node.value)
            if v == "self.version":
                names["version"] = t
            elif "'CONNECTION'" in v and (".get(" in v or isinstance(node.value, ast.Subscript)):
                names["connection"] = t  # headers.get('CONNECTION', '') or headers['CONNECTION'] (inside try/except KeyError)
            elif isinstance(node.value, ast.Constant) and node.value.value is None and "content_length" in t:
                names["clh"] = t
    if names["version"] is None and any(isinstance(x, ast.Compare) and dotted(x.left) == "self.version" for x in ast.walk(f.node)):
        names["version"] = "self.version"
    if None in names.values():
        raise AnalysisError("cannot identify the ladder's locals: %s" % names)
    # ladder entry: first test node on `version`
    vtests = [n for n in g.nodes if n.kind == "test" and isinstance(n.ast, ast.Compare) and dotted(n.ast.left) == names["version"]]
    if not vtests:
        raise AnalysisError("no version test in build_response_header")
    entry = None
    for t in vtests:
        if all(g.dominates(t, o) for o in vtests):
            entry = t
    if entry is None:
        raise AnalysisError("version tests have no common dominator")
    # no assignment to the atom variables after the ladder entry
    for node in g.nodes:
        if node.kind == "stmt" and isinstance(node.ast, ast.Assign) and node.id in g.reach(entry):
            for t in node.ast.targets:
                if isinstance(t, ast.Name) and t.id in (names["version"], names["connection"], names["clh"]):
                    raise AnalysisError("atom variable %s reassigned inside the ladder" % t.id)
    # side fact: CLH => has_body
    for node in g.nodes:
        if node.kind == "stmt" and isinstance(node.ast, ast.Assign) and any(isinstance(t, ast.Name) and t.id == names["clh"] for t in node.ast.targets):
            if isinstance(node.ast.value, ast.Constant) and node.ast.value.value is None:
                continue
            if any(pol and dotted(t) == "self.has_body" for (t, pol) in guards_of(g, node)):
                ctx.r.ok(rid, "Content-Length header variable only set when the response has a body", f.loc(node.ast))
            else:
                ctx.r.violation(rid, key_of(f, node.ast, "clh-without-body"), "a Content-Length is kept for a response that must not have a body (1xx/204/304)", f.loc(node.ast))
    results = {}
    n_paths = 0
    for V, K, CLH, HB, COF in itertools.product(("1.0", "1.1", "2.0"), ("keep-alive", "close", ""), (False, True), (False, True), (False, True)):
        if CLH and not HB:
            continue
        init = St(V, K, CLH, HB, COF)
        # explore
        stack = [(entry, init)]
        seen = set()
        ends = []
        while stack:
            node, st = stack.pop()
            k = (node.id, st.key())
            if k in seen:
                continue
            seen.add(k)
            if node is g.exit:
                ends.append(("return", st))
                continue
            if node is g.raise_exit:
                ends.append(("raise", st))
                continue
            st2 = st
            if node.kind == "stmt":
                a = node.ast
                for c in [x for x in ast.walk(a) if isinstance(x, ast.Call)]:
                    d = dotted(c.func) or ""
                    if d == "self.set_close_on_finish":
                        st2 = st2.copy()
                        st2.COF = True
                    elif d.endswith("response_headers.append"):
                        tc = _tuple_const(c)
                        if tc and tc[0] and tc[0].lower() == "connection" and tc[1] and tc[1].lower() == "keep-alive":
                            st2 = st2.copy()
                            st2.KA = True
                        elif tc and tc[0] and tc[0].lower() == "transfer-encoding":
                            st2 = st2.copy()
                            st2.TE = (tc[1] or "").lower() == "chunked" or st2.TE
                        elif tc and tc[0] and tc[0].lower() == "connection" and tc[1] and tc[1].lower() == "close":
                            st2 = st2.copy()
                if isinstance(a, ast.Assign) and any(dotted(t) == "self.chunked_response" for t in a.targets) and isinstance(a.value, ast.Constant):
                    st2 = st2.copy()
                    st2.CH = bool(a.value.value)
                if isinstance(a, ast.Assign) and any(dotted(t) == "self.close_on_finish" for t in a.targets) and isinstance(a.value, ast.Constant):
                    st2 = st2.copy()
                    st2.COF = bool(a.value.value)
                if isinstance(a, ast.Raise):
                    for (s, l) in node.succ:
                        if l == "exc":
                            stack.append((s, st2))
                    continue
            if node.kind == "test":
                tv = _eval_test(node.ast, st, names)
                for (s, l) in node.succ:
                    if l == "exc":
                        continue
                    if tv is None or (l == "T") == tv:
                        stack.append((s, st2))
                continue
            for (s, l) in node.succ:
                if l == "exc":
                    continue  # exceptions other than the explicit raise are not part of the table
                stack.append((s, st2))
        for kind, st in ends:
            n_paths += 1
            errs = []
            if V not in ("1.0", "1.1"):
                if kind != "raise":
                    errs.append("o6: unknown version does not raise")
            else:
                if kind == "raise":
                    errs.append("o6: raises for a supported version")
                else:
                    if not st.COF and not (CLH or st.CH or not HB):
                        errs.append("o1: connection kept open but the response is not self-delimited")
                    if st.CH and not (st.TE and V == "1.1" and HB and not CLH):
                        errs.append("o2: chunked flag without matching header/version/body")
                    if st.TE and not st.CH:
                        errs.append("o2: Transfer-Encoding announced but body not chunk-coded")
                    if V == "1.0" and not st.COF and not (st.KA and K == "keep-alive" and CLH):
                        errs.append("o3: HTTP/1.0 connection kept open without Keep-Alive/length")
                    if st.KA and (st.COF or V != "1.0"):
                        errs.append("o3: Connection: Keep-Alive on a response that closes%s" % (" (already closing on entry)" if COF else ""))
                    if ((V == "1.1" and K == "close") or (V == "1.0" and K != "keep-alive")) and not st.COF:
                        errs.append("o4: client asked to close (or 1.0 without keep-alive) but the connection stays open")
                    if CLH and st.TE:
                        errs.append("o5: both Content-Length and Transfer-Encoding")
                    if COF and not st.COF:
                        errs.append("close decision revoked")
            label = "version=%s connection=%r length-known=%s has_body=%s already-closing=%s" % (V, K, CLH, HB, COF)
            for e in errs:
                results.setdefault(e.split(":")[0] + "::" + e, []).append(label)
            if not errs:
                ctx.r.ok(rid, "path %s -> %s closing=%s chunked=%s keep-alive=%s" % (label, kind, st.COF, st.CH, st.KA), f.loc())
    for e, labels in sorted(results.items()):
        code, msg = e.split("::", 1)
        ctx.r.violation(rid, key_of(f, None, "decision::" + msg.split(" (")[0]), "%s on %d path(s), e.g. %s" % (msg, len(labels), labels[0]), f.loc())
    ctx.r.floor(rid, n_paths, 40, "feasible ladder paths")


def rule_r2(ctx):
    rid = "C03.R2"
    ctx.r.rule(rid, "closing is announced when it can be: close_on_finish is set through set_close_on_finish (which appends Connection: close before the head is written) except after a caught failure/disconnect")
    p = ctx.p
    f = p.func("task.Task.set_close_on_finish")
    g = cfg_of(f)
    sets = [n for n in g.nodes if n.kind == "stmt" and isinstance(n.ast, ast.Assign) and any(dotted(t) == "self.close_on_finish" for t in n.ast.targets)
            and isinstance(n.ast.value, ast.Constant) and n.ast.value.value is True]
    if sets and g.path(g.entry, g.exit, avoid=sets, follow_exc=False) is None:
        ctx.r.ok(rid, "set_close_on_finish sets the flag on every path", f.loc(sets[0].ast))
    else:
        ctx.r.violation(rid, key_of(f, None, "flag-not-set"), "set_close_on_finish does not always set close_on_finish", f.loc())
    apps = [(n, c) for n, c in find_calls(g, lambda c: (dotted(c.func) or "").endswith("response_headers.append")) if _tuple_const(c) and (_tuple_const(c)[0] or "").lower() == "connection"]
    ok = False
    for n, c in apps:
        tc = _tuple_const(c)
        if (tc[1] or "").lower() == "close" and any((not pol) and dotted(t) == "self.wrote_header" for (t, pol) in guards_of(g, n)):
            ok = True
    if ok:
        ctx.r.ok(rid, "Connection: close appended while the head is not yet written", f.loc())
    else:
        ctx.r.violation(rid, key_of(f, None, "close-not-announced"), "set_close_on_finish does not append 'Connection: close' before the head is written", f.loc())
    # other writers
    task = p.cls("task.Task")
    n = 0
    for a in accesses(p, "close_on_finish", [task]):
        if a.kind != "write" or a.func.qual == f.qual:
            continue
        if not (isinstance(a.stmt, ast.Assign) and isinstance(a.stmt.value, ast.Constant) and a.stmt.value.value is True):
            continue
        n += 1
        g2 = cfg_of(a.func)
        in_handler = any(isinstance(h, ast.ExceptHandler) and any(x is a.stmt for x in ast.walk(h)) for h in ast.walk(a.func.node))
        nodes = g2.nodes_of(a.stmt)
        from .common import resolve_locals
        # `connected` read into a local once counts as well (the store is after-the-fact either way)
        not_conn = nodes and all(any((not pol) and (dotted(t) == "self.connected" or dotted(resolve_locals(a.func, t)) == "self.connected") for (t, pol) in guards_of(g2, nd)) for nd in nodes)
        if in_handler or not_conn:
            ctx.r.ok(rid, "direct close_on_finish store in %s is after-the-fact (%s)" % (a.func.name, "exception handler" if in_handler else "client gone"), a.loc)
        else:
            ctx.r.violation(rid, key_of(a.func, a.stmt, "unannounced-close"), "%s sets close_on_finish directly on a normal path: the response will not carry 'Connection: close'" % a.func.qual, a.loc)
    ctx.r.floor(rid, n, 4, "direct close_on_finish stores")


def _flatten_concat(e, env, depth=0):
    if isinstance(e, ast.BinOp) and isinstance(e.op, ast.Add):
        return _flatten_concat(e.left, env, depth) + _flatten_concat(e.right, env, depth)
    if isinstance(e, ast.Name) and e.id in env and depth < 5:
        out = []
        for x in env[e.id]:
            out += _flatten_concat(x, {k: v for k, v in env.items() if k != e.id}, depth + 1)
        return out
    return [e]


def rule_r3(ctx):
    rid = "C03.R3"
    ctx.r.rule(rid, "chunk coding: chunked write sends hex(len(data)) CRLF data CRLF of the same data; finish sends '0 CRLF CRLF' iff chunked, after the head")
    p = ctx.p
    f = p.func("task.Task.write")
    g = cfg_of(f)
    data = f.params[1]
    # statements on the chunked branch building the value written
    branch = [n for n in g.nodes if n.kind == "branch" and n.polarity and dotted(n.ast) == "self.chunked_response"]
    if not branch:
        ctx.r.violation(rid, key_of(f, None, "no-chunked-branch"), "write() has no chunked branch", f.loc())
    else:
        b = branch[0]
        # chunk coding takes precedence: the chunked branch is guarded only by data / has_body / chunked_response
        extra = [(norm(t), pol) for (t, pol) in guards_of(g, b) if dotted(t) not in (data, "self.has_body", "self.chunked_response", "self.complete", "self.wrote_header")]
        if extra:
            ctx.r.violation(rid, key_of(f, None, "chunking-preempted"),
                            "the chunk coding of write() only applies under %s: a response announced as chunked can be written raw (e.g. once execute() learned a length after the head was sent)" % extra, f.loc(b.ast))
        else:
            ctx.r.ok(rid, "chunk coding applies whenever the response was announced as chunked", f.loc(b.ast))
        # a chunk of length 0 is the terminator: the chunk coding is applied to non-empty data only (write(b"") is used
        # by the server itself to emit the head, and applications may call the write callable with b"")
        if any(pol and dotted(t) == data for (t, pol) in guards_of(g, b)):
            ctx.r.ok(rid, "no chunk is emitted for empty data", f.loc(b.ast))
        else:
            ctx.r.violation(rid, key_of(f, None, "empty-chunk"), "write() applies the chunk coding to empty data: `0 CRLF CRLF` is emitted in mid-response, the client takes it for the end of the body and the rest as the next response", f.loc(b.ast))
        parts = []
        var = None
        for n in g.nodes:
            if n.kind == "stmt" and g.dominates(b, n) and isinstance(n.ast, (ast.Assign, ast.AugAssign)):
                other = [x for x in g.nodes if x.kind == "branch" and x.ast is b.ast and not x.polarity]
                if other and n.id in g.reach(other[0]) and not g.dominates(b, n):
                    continue
                if isinstance(n.ast, ast.Assign) and isinstance(n.ast.targets[0], ast.Name):
                    var = n.ast.targets[0].id
                    parts = _flatten_concat(n.ast.value, {})
                elif isinstance(n.ast, ast.AugAssign) and isinstance(n.ast.target, ast.Name) and n.ast.target.id == var:
                    parts += _flatten_concat(n.ast.value, {})
        shape = []
        expanded = []
        for x in parts:
            # b"%X\r\n" % len(data): a template whose pieces are parts of their own
            if isinstance(x, ast.BinOp) and isinstance(x.op, ast.Mod) and isinstance(x.left, ast.Constant) and isinstance(x.left.value, bytes) \
                    and norm(x.right) in ("len(%s)" % data, "(len(%s),)" % data):
                import re as _re
                fmt = x.left.value
                pos = 0
                okfmt = True
                for mm in _re.finditer(rb"%(.)", fmt):
                    if fmt[pos:mm.start()]:
                        expanded.append(ast.copy_location(ast.Constant(value=fmt[pos:mm.start()]), x))
                    if mm.group(1) in (b"x", b"X"):
                        expanded.append(ast.copy_location(ast.Call(func=ast.Name(id="hex", ctx=ast.Load()), args=[x.right], keywords=[]), x))
                    else:
                        okfmt = False
                    pos = mm.end()
                if fmt[pos:]:
                    expanded.append(ast.copy_location(ast.Constant(value=fmt[pos:]), x))
                if not okfmt or len(_re.findall(rb"%[xX]", fmt)) != 1:
                    expanded.append(x)
            else:
                expanded.append(x)
        for x in expanded:
            t = norm(x)
            if isinstance(x, (ast.Name, ast.Attribute)) and not (isinstance(x, ast.Name) and x.id == data):
                # a module / class constant standing for the bytes
                try:
                    cv = p.fold(x, f.module)
                except NotConst:
                    cv = None
                if isinstance(cv, bytes):
                    x = ast.copy_location(ast.Constant(value=cv), x)
            if isinstance(x, ast.Constant) and x.value == b"\r\n":
                shape.append("CRLF")
            elif isinstance(x, ast.Name) and x.id == data:
                shape.append("DATA")
            elif "len(%s)" % data in t and ("hex(" in t or "%x" in t.lower() or ":x" in t.lower() or "format(" in t):
                shape.append("HEXLEN")
            else:
                shape.append("?" + t[:30])
        if shape == ["HEXLEN", "CRLF", "DATA", "CRLF"]:
            ctx.r.ok(rid, "chunk = hex(len(data)) CRLF data CRLF", f.loc(b.ast))
        else:
            ctx.r.violation(rid, key_of(f, None, "chunk-shape"), "chunked write builds %s, expected HEXLEN CRLF DATA CRLF" % shape, f.loc(b.ast))
        # that value is what is written
        ws = [n for n, c in find_calls(g, lambda c: (dotted(c.func) or "").endswith("write_soon") and c.args and isinstance(c.args[0], ast.Name) and c.args[0].id == var)]
        if ws:
            ctx.r.ok(rid, "the chunk-coded value is handed to the channel", f.loc(ws[0].ast))
        else:
            ctx.r.violation(rid, key_of(f, None, "chunk-not-written"), "the chunk-coded value is not what write() sends", f.loc())
    fin = p.func("task.Task.finish")
    gf = cfg_of(fin)
    terms = []
    for n, c in find_calls(gf, lambda c: (dotted(c.func) or "").endswith("write_soon")):
        try:
            v = p.fold(c.args[0], fin.module)
        except NotConst:
            v = None
        terms.append((n, v))
    good = [(n, v) for (n, v) in terms if v == b"0\r\n\r\n"]
    if not good:
        ctx.r.violation(rid, key_of(fin, None, "no-terminator"), "finish() does not send the chunked terminator b'0\\r\\n\\r\\n' (sends %s)" % [v for _, v in terms], fin.loc())
    for n, v in good:
        gs = guards_of(gf, n)
        if any(pol and dotted(t) == "self.chunked_response" for (t, pol) in gs) and len(gs) == 1:
            ctx.r.ok(rid, "terminator sent iff the response is chunked", fin.loc(n.ast))
        else:
            ctx.r.violation(rid, key_of(fin, None, "terminator-guard"), "terminator guarded by %s" % [(norm(t), pol) for (t, pol) in gs], fin.loc(n.ast))
        hw = [m for m, c in find_calls(gf, lambda c: dotted(c.func) == "self.write")]
        if hw and all(m.id not in gf.reach(n) for m in hw):
            ctx.r.ok(rid, "terminator follows the head/last data", fin.loc(n.ast))
        else:
            ctx.r.violation(rid, key_of(fin, None, "terminator-order"), "the head can be written after the terminator", fin.loc(n.ast))


def rule_r4(ctx):
    rid = "C03.R4"
    ctx.r.rule(rid, "Content-Length clamp: the bytes written are data[: cl - content_bytes_written] and the counter grows by the length of exactly that value")
    p = ctx.p
    f = p.func("task.Task.write")
    g = cfg_of(f)
    data = f.params[1]
    sl = [n for n in g.nodes if n.kind == "stmt" and isinstance(n.ast, ast.Assign) and isinstance(n.ast.value, ast.Subscript)
          and isinstance(n.ast.value.value, ast.Name) and n.ast.value.value.id == data and isinstance(n.ast.value.slice, ast.Slice)]
    if not sl:
        ctx.r.violation(rid, key_of(f, None, "no-clamp"), "write() does not clamp the data to the declared Content-Length", f.loc())
        return
    for n in sl:
        s = n.ast.value.slice
        up = norm(s.upper) if s.upper is not None else None
        ok = s.lower is None and s.upper is not None and isinstance(s.upper, ast.BinOp) and isinstance(s.upper.op, ast.Sub) \
            and norm(s.upper.right) == "self.content_bytes_written" and (norm(s.upper.left) in ("cl", "self.content_length"))
        if ok:
            ctx.r.ok(rid, "clamp slice is data[: cl - content_bytes_written]", f.loc(n.ast))
        else:
            ctx.r.violation(rid, key_of(f, None, "clamp-slice"), "clamp slice is %s" % norm(n.ast.value), f.loc(n.ast))
        var = n.ast.targets[0].id if isinstance(n.ast.targets[0], ast.Name) else None
        if any(cmp_fact(t, pol) in (("is", "cl", "None", False), ("is", "self.content_length", "None", False)) for (t, pol) in guards_of(g, n)):
            ctx.r.ok(rid, "clamp applies when a length was declared", f.loc(n.ast))
        else:
            ctx.r.violation(rid, key_of(f, None, "clamp-guard"), "clamp is not guarded by 'a Content-Length was declared'", f.loc(n.ast))
        incs = [m for m in g.nodes if m.kind == "stmt" and isinstance(m.ast, ast.AugAssign) and dotted(m.ast.target) == "self.content_bytes_written" and g.dominates(n, m)]
        if incs and all(isinstance(m.ast.op, ast.Add) and norm(m.ast.value) == "len(%s)" % var for m in incs):
            ctx.r.ok(rid, "counter grows by len of the clamped value", f.loc(incs[0].ast))
        else:
            ctx.r.violation(rid, key_of(f, None, "clamp-counter"), "content_bytes_written does not grow by len(%s): %s" % (var, [norm(m.ast) for m in incs]), f.loc(n.ast))
        ws = [m for m, c in find_calls(g, lambda c: (dotted(c.func) or "").endswith("write_soon") and c.args and isinstance(c.args[0], ast.Name) and c.args[0].id == var)]
        if ws:
            ctx.r.ok(rid, "the clamped value is what is sent", f.loc(ws[0].ast))
        else:
            ctx.r.violation(rid, key_of(f, None, "clamp-not-sent"), "write() sends something else than the clamped value", f.loc(n.ast))


def rule_r5(ctx):
    rid = "C03.R5"
    ctx.r.rule(rid, "too few bytes: after the body iteration every path with a declared length compares bytes written with it and closes on mismatch (HEAD exempt)")
    p = ctx.p
    f = p.func("task.WSGITask.execute")
    g = cfg_of(f)
    loops = [n for n in g.nodes if n.kind == "iter" and dotted(n.ast.iter) == "app_iter"]
    if not loops:
        raise AnalysisError("execute() no longer iterates app_iter")
    tests = [n for n in g.nodes if n.kind == "test" and isinstance(n.ast, ast.Compare) and mentions_attr(n.ast, "content_bytes_written") and isinstance(n.ast.ops[0], (ast.NotEq, ast.Lt, ast.Eq))]
    if not tests:
        ctx.r.violation(rid, key_of(f, None, "no-short-body-check"), "execute() never compares bytes written with the declared Content-Length", f.loc())
        return
    for lp in loops:
        done = [s for (s, l) in lp.succ if l == "done"]
        nolen = [n for n in g.nodes if n.kind == "branch" and cmp_fact(n.ast, n.polarity) in (("is", "cl", "None", True), ("is", "self.content_length", "None", True))]
        nolen += [n for n in g.nodes if n.kind == "branch" and n.polarity and isinstance(n.ast, ast.Compare) and norm(n.ast) in ("cl is None", "self.content_length is None")]
        pth = g.path(done[0], g.exit, avoid=tests + nolen, follow_exc=False) if done else None
        if pth is None:
            ctx.r.ok(rid, "every normal path after the iteration reaches the short-body comparison (or has no declared length)", f.loc(lp.ast))
        else:
            ctx.r.violation(rid, key_of(f, None, "short-body-check-skipped"), "a path after the body iteration skips the short-body comparison: %s" % g.describe_path(pth), f.loc(lp.ast))
    for t in tests:
        br = [x for x in g.nodes if x.kind == "branch" and x.ast is t.ast and x.polarity == (not isinstance(t.ast.ops[0], ast.Eq))]
        closes = [n for n, c in find_calls(g, lambda c: dotted(c.func) == "self.set_close_on_finish")]
        if br and any(g.dominates(br[0], c) for c in closes):
            # extra guards allowed: HEAD exemption only
            c0 = [c for c in closes if g.dominates(br[0], c)][0]
            extra = [(norm(x), pol) for (x, pol) in guards_of(g, c0) if x is not t.ast and not ((cmp_fact(x) or ())[:3] == ("is", "cl", "None")) and g.dominates(t, [n for n in g.nodes if n.kind == "branch" and n.ast is getattr(x, "_guard_of", x)][0])]
            bad = [e for e in extra if "HEAD" not in e[0]]
            if bad:
                ctx.r.violation(rid, key_of(f, None, "short-body-extra-guard"), "the too-few-bytes close is additionally guarded by %s" % bad, f.loc(c0.ast))
            else:
                ctx.r.ok(rid, "mismatch closes the connection (HEAD exempt)", f.loc(c0.ast))
        else:
            ctx.r.violation(rid, key_of(f, None, "short-body-no-close"), "a short body does not close the connection", f.loc(t.ast))


def rule_r6(ctx, rid="C03.R6"):
    ctx.r.rule(rid, "file wrapper: the declared length is reconciled with prepare()'s result before the head is generated; ReadOnlyFileBasedBuffer.get bounds every read by remain")
    p = ctx.p
    f = p.func("task.WSGITask.execute")
    g = cfg_of(f)
    prep = [n for n in g.nodes if n.kind == "stmt" and isinstance(n.ast, ast.Assign) and isinstance(n.ast.value, ast.Call) and isinstance(n.ast.value.func, ast.Attribute) and n.ast.value.func.attr == "prepare"]
    if not prep:
        raise AnalysisError("execute() no longer calls prepare()")
    pn = prep[0]
    size = pn.ast.targets[0].id
    stores = [n for n in g.nodes if n.kind == "stmt" and isinstance(n.ast, ast.Assign) and any(dotted(t) == "self.content_length" for t in n.ast.targets) and norm(n.ast.value) == size and g.dominates(pn, n)]
    heads = [n for n, c in find_calls(g, lambda c: dotted(c.func) == "self.write") if g.dominates(pn, n)]
    if not stores or not heads:
        ctx.r.violation(rid, key_of(f, None, "no-reconcile"), "the file wrapper branch does not store prepare()'s size as the content length before writing the head", f.loc(pn.ast))
    else:
        neq = [n for n in g.nodes if n.kind == "branch" and (cmp_fact(n.ast, n.polarity) or ("",))[0] == "==" and cmp_fact(n.ast, n.polarity)[3] is False and size in norm(n.ast) and g.dominates(pn, n)]
        ok = neq and all(g.path(neq[0], h, avoid=stores, follow_exc=False) is None for h in heads)
        if ok:
            ctx.r.ok(rid, "whenever declared length != prepared size the content length is replaced before the head", f.loc(stores[0].ast))
        else:
            ctx.r.violation(rid, key_of(f, None, "reconcile-bypass"), "the head can be generated with a declared length that differs from the prepared size", f.loc(pn.ast))
        rm = [n for n, c in find_calls(g, lambda c: dotted(c.func) == "self.remove_content_length_header")]
        if rm and all(g.path(neq[0], h, avoid=rm + [x for x in g.nodes if x.kind == "branch" and cmp_fact(x.ast, x.polarity) == ("is", "cl", "None", True)], follow_exc=False) is None for h in heads) if neq else False:
            ctx.r.ok(rid, "a conflicting application Content-Length header is removed", f.loc(rm[0].ast))
        else:
            ctx.r.violation(rid, key_of(f, None, "stale-cl-header"), "a conflicting application-supplied Content-Length header can survive", f.loc(pn.ast))
    fb = p.func("buffers.ReadOnlyFileBasedBuffer.get")
    gb = cfg_of(fb)
    reads = [n for n, c in find_calls(gb, lambda c: isinstance(c.func, ast.Attribute) and c.func.attr == "read")]
    clamp = [n for n in gb.nodes if n.kind == "stmt" and isinstance(n.ast, ast.Assign) and isinstance(n.ast.targets[0], ast.Name) and n.ast.targets[0].id == fb.params[1] and norm(n.ast.value) == "self.remain"]
    for rn in reads:
        c = [x for x in ast.walk(rn.ast) if isinstance(x, ast.Call) and isinstance(x.func, ast.Attribute) and x.func.attr == "read"][0]
        argok = c.args and isinstance(c.args[0], ast.Name) and c.args[0].id == fb.params[1]
        # every path to the read passes the clamp or the false branch of `numbytes > remain`
        le = [x for x in gb.nodes if x.kind == "branch" and isinstance(x.ast, ast.Compare) and (
            (not x.polarity and norm(x.ast).replace(" ", "") in ("%s>self.remain" % fb.params[1], "self.remain<%s" % fb.params[1])) or
            (x.polarity and norm(x.ast).replace(" ", "") in ("%s<=self.remain" % fb.params[1], "self.remain>=%s" % fb.params[1])))]
        guarded = bool(argok and (clamp or le) and gb.path(gb.entry, rn, avoid=clamp + le, follow_exc=False) is None)
        if guarded:
            ctx.r.ok(rid, "read size clamped to remain", fb.loc(rn.ast))
        else:
            ctx.r.violation(rid, key_of(fb, None, "read-unbounded"), "ReadOnlyFileBasedBuffer.get can read more than the prepared size", fb.loc(rn.ast))


def rule_r7(ctx, rid="C03.R7"):
    ctx.r.rule(rid, "error responses always close: in ErrorTask.execute the announcing close dominates the write")
    p = ctx.p
    f = p.func("task.ErrorTask.execute")
    g = cfg_of(f)
    cl = [n for n, c in find_calls(g, lambda c: dotted(c.func) == "self.set_close_on_finish")]
    wr = [n for n, c in find_calls(g, lambda c: dotted(c.func) == "self.write")]
    if not wr:
        raise AnalysisError("ErrorTask.execute no longer writes")
    for w in wr:
        if any(g.dominates(c, w) for c in cl):
            ctx.r.ok(rid, "set_close_on_finish() dominates the error write", f.loc(w.ast))
        else:
            ctx.r.violation(rid, key_of(f, None, "error-not-closing"), "an error response can be written without closing the connection", f.loc(w.ast))


def rule_error_route(ctx, rid="C03.R9"):
    ctx.r.rule(rid, "a request with an error verdict is always routed to the error task")
    p = ctx.p
    f = p.func("channel.HTTPChannel.service")
    g = cfg_of(f)
    et = [n for n, c in find_calls(g, lambda c: dotted(c.func) == "self.error_task_class") if not any(isinstance(h, ast.ExceptHandler) and any(x is c for x in ast.walk(h)) for h in ast.walk(f.node))]
    nt = [n for n, c in find_calls(g, lambda c: dotted(c.func) == "self.task_class")]
    if not et or not nt:
        raise AnalysisError("service() no longer constructs both task kinds")
    for n in nt:
        if any((not pol) and isinstance(t, ast.Attribute) and t.attr == "error" for (t, pol) in guards_of(g, n)):
            ctx.r.ok(rid, "application task only for requests without an error verdict", f.loc(n.ast))
        else:
            ctx.r.violation(rid, key_of(f, None, "error-request-to-app"), "a refused request can be handed to the application task", f.loc(n.ast))
    for n in et:
        if any(pol and isinstance(t, ast.Attribute) and t.attr == "error" for (t, pol) in guards_of(g, n)):
            ctx.r.ok(rid, "error verdict selects the error task", f.loc(n.ast))
        else:
            ctx.r.violation(rid, key_of(f, None, "error-task-guard"), "the error task is not selected by request.error", f.loc(n.ast))
    rule_r7(ctx, rid=rid)


def rule_r8(ctx, rid="C03.R8"):
    ctx.r.rule(rid, "relay chain: task.close_on_finish => channel.close_when_flushed (on every path) => will_close once drained => handle_close")
    p = ctx.p
    cg = get_callgraph(p)
    f = p.func("channel.HTTPChannel.service")
    g = cfg_of(f)
    st = [n for n in g.nodes if n.kind == "stmt" and isinstance(n.ast, ast.Assign) and any(dotted(t) == "self.close_when_flushed" for t in n.ast.targets)]
    tests = [n for n in g.nodes if n.kind == "test" and mentions_attr(n.ast, "close_on_finish")]
    execs = [n for n, c in find_calls(g, lambda c: any(t.qual == "task.Task.service" for t in cg.callees(c)))]
    if not st:
        ctx.r.violation(rid, key_of(f, None, "no-relay"), "service() never sets close_when_flushed", f.loc())
    for s in st:
        if any(pol and mentions_attr(t, "close_on_finish") for (t, pol) in guards_of(g, s)) or True:
            # the branch taken when close_on_finish is true must always pass the store
            tb = [x for x in g.nodes if x.kind == "branch" and x.polarity and mentions_attr(x.ast, "close_on_finish") and s.id in g.reach(x, follow_exc=False)]
            if tb and all(g.path(x, g.exit, avoid=[s], follow_exc=False) is None for x in tb):
                ctx.r.ok(rid, "close_on_finish always leads to close_when_flushed", f.loc(s.ast))
            else:
                ctx.r.violation(rid, key_of(f, None, "relay-skipped"), "a path with close_on_finish set leaves service() without close_when_flushed", f.loc(s.ast))
        if not (isinstance(s.ast.value, ast.Constant) and s.ast.value.value is True):
            ctx.r.violation(rid, key_of(f, None, "relay-value"), "close_when_flushed is assigned %s instead of True" % norm(s.ast.value), f.loc(s.ast))
    for e in execs[:1]:
        if tests and g.path(e, g.exit, avoid=tests, follow_exc=False) is None:
            ctx.r.ok(rid, "every normal path after the task reaches the close_on_finish test", f.loc(e.ast))
        else:
            ctx.r.violation(rid, key_of(f, None, "relay-test-skipped"), "a normal path after the task skips the close_on_finish test", f.loc(e.ast))
    from .c05 import rule_r4 as relay
    from .c11 import rule_r3 as teardown
    before = len(ctx.r.violations)
    relay(ctx, rid=rid)
    teardown(ctx, rid=rid)


def rule_buffers(ctx):
    """Shared with C17: the output buffers deliver the application's bytes once, in order (representation invariant
    of the file-based buffers incl. the migration between representations)."""
    from . import c17
    c17.rule_r1(ctx, rid="C03.R10")
    c17.rule_r2(ctx, rid="C03.R10")
    c17.rule_r3(ctx, rid="C03.R10")
    c17.rule_r4(ctx, rid="C03.R10")


_FRAMING_NAMES = {"content-length", "connection", "transfer-encoding"}


def _case_normaliser(e):
    """The case normalisation an expression applies to a header name, as a
    function on str, or None: x.lower() / upper() / casefold() / capitalize() /
    title() and the per-segment capitalisation '-'.join(p.capitalize() for p in x.split('-'))."""
    if isinstance(e, ast.Call) and isinstance(e.func, ast.Attribute) and not e.args and e.func.attr in ("lower", "upper", "casefold", "capitalize", "title"):
        return getattr(str, e.func.attr)
    if isinstance(e, ast.Call) and isinstance(e.func, ast.Attribute) and e.func.attr == "join" and isinstance(e.func.value, ast.Constant) and e.func.value.value == "-" \
            and len(e.args) == 1 and isinstance(e.args[0], (ast.ListComp, ast.GeneratorExp)):
        c = e.args[0]
        if isinstance(c.elt, ast.Call) and isinstance(c.elt.func, ast.Attribute) and c.elt.func.attr == "capitalize" and len(c.generators) == 1 \
                and isinstance(c.generators[0].iter, ast.Call) and isinstance(c.generators[0].iter.func, ast.Attribute) and c.generators[0].iter.func.attr == "split":
            return lambda v: "-".join(x.capitalize() for x in v.split("-"))
    return None


def rule_r11(ctx, rid="C03.R11"):
    ctx.r.rule(rid, "framing header names written by the application are recognised in any letter case: every comparison with 'Content-Length' / 'Connection' / 'Transfer-Encoding' in the response path is made on a case-normalised name, against a constant in that normal form")
    from .common import def_nodes
    p = ctx.p
    n = 0
    for f in sorted(p.functions.values(), key=lambda f: f.qual):
        if f.module.name != "task":
            continue
        g = cfg_of(f)
        for node in g.nodes:
            if node.ast is None or node.kind not in ("stmt", "test", "iter"):
                continue
            root = node.ast.iter if node.kind == "iter" else node.ast
            if isinstance(root, (ast.FunctionDef, ast.AsyncFunctionDef, ast.ClassDef)):
                continue  # closures are functions of their own
            for c in ast.walk(root):
                if isinstance(c, ast.Compare) and len(c.ops) == 1 and isinstance(c.ops[0], (ast.In, ast.NotIn)) and isinstance(c.comparators[0], ast.Constant) \
                        and isinstance(c.comparators[0].value, str) and c.comparators[0].value.lower() in _FRAMING_NAMES:
                    # `name in "content-length"`: a substring test (a parenthesised string is not a tuple)
                    n += 1
                    ctx.r.violation(rid, key_of(f, None, "substring-name-test::" + c.comparators[0].value.lower()),
                                    "%s tests %s: membership in a *string* is a substring test - every header whose name is a fragment of %r (e.g. 'Content', 'Length') is taken for it"
                                    % (f.qual, norm(c), c.comparators[0].value), f.loc(c))
                    continue
                if not (isinstance(c, ast.Compare) and len(c.ops) == 1 and isinstance(c.ops[0], (ast.Eq, ast.NotEq))):
                    continue
                sides = [c.left, c.comparators[0]]
                const = [x for x in sides if isinstance(x, ast.Constant) and isinstance(x.value, str) and x.value.lower() in _FRAMING_NAMES]
                if len(const) != 1:
                    continue
                other = sides[1] if sides[0] is const[0] else sides[0]
                n += 1
                fn = _case_normaliser(other)
                if fn is None and isinstance(other, ast.Name):
                    # the name must hold a normalised value here: a normalising definition dominates the comparison
                    # and no other definition of the name lies between it and the comparison
                    defs = def_nodes(g, other.id)
                    norm_defs = [d for d in defs if d.kind == "stmt" and isinstance(d.ast, ast.Assign) and _case_normaliser(d.ast.value) is not None and g.dominates(d, node)]
                    for d in norm_defs:
                        between = [x for x in defs if x is not d and x.id in g.reach(d) and node.id in g.reach(x, avoid=[d])]
                        if not between:
                            fn = _case_normaliser(d.ast.value)
                            break
                if fn is None:
                    ctx.r.violation(rid, key_of(f, None, "case-sensitive-name::" + const[0].value.lower()),
                                    "%s compares %s with %r without case normalisation: an application spelling the header differently keeps a framing header the server believes it removed / never sees one that is there"
                                    % (f.qual, norm(other), const[0].value), f.loc(c))
                elif fn(const[0].value) != const[0].value:
                    ctx.r.violation(rid, key_of(f, None, "unreachable-constant::" + const[0].value.lower()),
                                    "%s compares a normalised name with %r, which is not in that normal form: the test never matches" % (f.qual, const[0].value), f.loc(c))
                else:
                    ctx.r.ok(rid, "%s: %s matched in any case" % (f.name, const[0].value), f.loc(c))
    ctx.r.floor(rid, n, 4, "comparisons of response header names with framing names")


def rule_r12(ctx):
    """Shared with C04.R8 (flush accounting: a partial send must not lose response bytes) and C04.R4 (single dispatch: a
    request served twice puts two responses on the wire)."""
    from . import c04
    c04.rule_r8(ctx, rid="C03.R12")
    c04.rule_r4(ctx, rid="C03.R12")


def rule_r13(ctx, rid="C03.R13"):
    ctx.r.rule(rid, "a length the application declared is never replaced by a guessed one: in WSGITask.execute the store `self.content_length = <length of the only chunk>` is reached only when no length was declared (`self.content_length is None` - a declared 0 is a declaration), the file-wrapper path only stores what prepare() returned")
    p = ctx.p
    f = p.func("task.WSGITask.execute")
    g = cfg_of(f)
    stores = [n for n in g.nodes if n.kind == "stmt" and isinstance(n.ast, ast.Assign) and any(dotted(t) == "self.content_length" for t in n.ast.targets)]
    ctx.r.floor(rid, len(stores), 2, "stores of content_length in WSGITask.execute")
    for n in stores:
        v = n.ast.value
        src = resolve_locals(f, v) if isinstance(v, ast.Name) else v
        if isinstance(src, ast.Call) and isinstance(src.func, ast.Attribute) and src.func.attr == "prepare":
            ctx.r.ok(rid, "file wrapper: the length becomes what prepare() can deliver", f.loc(n.ast))
            continue
        gs = guards_of(g, n)
        strict = any(pol and isinstance(t, ast.Compare) and len(t.ops) == 1 and isinstance(t.ops[0], ast.Is) and dotted(t.left) == "self.content_length"
                     and isinstance(t.comparators[0], ast.Constant) and t.comparators[0].value is None for (t, pol) in gs)
        if strict:
            ctx.r.ok(rid, "a length is inferred only when none was declared", f.loc(n.ast))
        else:
            loose = [norm(t) for (t, pol) in gs if "content_length" in norm(t)]
            ctx.r.violation(rid, key_of(f, None, "declared-length-replaced"), "`%s` is not guarded by `self.content_length is None` (guards on the length: %s): a declared Content-Length - 0 for instance - is replaced after the head announced it, the body bytes follow a head that says there are none and run into the next response" % (norm(n.ast), loose or "none"), f.loc(n.ast))


def rule_r14(ctx):
    """Shared with C09.R9: a response that could not be delimited as announced (OSError while sending, swallowed in Task.service) always closes the connection."""
    from . import c09
    c09.rule_r9(ctx, rid="C03.R14")


def rule_r15(ctx):
    """Shared with C08.R3: the framing of the response is the server's - an application-supplied Transfer-Encoding or
    Connection (hop-by-hop names) is refused, else the head announces a coding the body does not have."""
    from . import c08
    c08.rule_r3(ctx, rid="C03.R15")


RULES = [rule_r1, rule_r2, rule_r3, rule_r4, rule_r5, rule_r6, rule_r7, rule_r8, rule_error_route, rule_buffers, rule_r11, rule_r12, rule_r13, rule_r14, rule_r15]

from ..selftest import M, T, V  # noqa: E402

selftest = [
    M("empty-chunk", "task.py", "        if data and self.has_body:", "        if self.has_body:", "R3"),
    M("keepalive-without-length", "task.py", "                if not content_length_header or self.close_on_finish:\n                    self.set_close_on_finish()\n                else:\n                    self.response_headers.append((\"Connection\", \"Keep-Alive\"))", "                self.response_headers.append((\"Connection\", \"Keep-Alive\"))", "R1"),
    M("keepalive-when-closing", "task.py", "if not content_length_header or self.close_on_finish:", "if not content_length_header:", "R1"),
    M("chunked-for-204", "task.py", "                if self.has_body:\n                    self.response_headers.append((\"Transfer-Encoding\", \"chunked\"))\n                    self.chunked_response = True", "                if True:\n                    self.response_headers.append((\"Transfer-Encoding\", \"chunked\"))\n                    self.chunked_response = True", "R1"),
    M("close-ignored-11", "task.py", "            if connection == \"close\":\n                self.set_close_on_finish()\n\n            if not content_length_header:", "            if not content_length_header:", "R1"),
    M("chunked-10", "task.py", "        elif version == \"1.1\":\n            if connection == \"close\":", "        if version in (\"1.0\", \"1.1\") and False:\n            pass\n        elif version == \"1.1\" or version == \"1.0\":\n            if connection == \"close\":", None),
    M("counter-wrong", "task.py", "                self.content_bytes_written += len(towrite)\n", "                self.content_bytes_written += len(data)\n", "R4"),
    M("no-clamp", "task.py", "                towrite = data[: cl - self.content_bytes_written]\n", "                towrite = data[:cl]\n", "R4"),
    M("terminator-always", "task.py", "        if self.chunked_response:\n            # not self.write, it will chunk it!\n            self.channel.write_soon(b\"0\\r\\n\\r\\n\")", "        self.channel.write_soon(b\"0\\r\\n\\r\\n\")", "R3"),
    M("terminator-missing-crlf", "task.py", "self.channel.write_soon(b\"0\\r\\n\\r\\n\")", "self.channel.write_soon(b\"0\\r\\n\")", "R3"),
    M("chunk-no-trailing-crlf", "task.py", "                towrite += data + b\"\\r\\n\"\n", "                towrite += data\n", "R3"),
    M("chunk-len-of-other", "task.py", "towrite = hex(len(data))[2:].upper().encode(\"latin-1\") + b\"\\r\\n\"", "towrite = hex(len(towrite))[2:].upper().encode(\"latin-1\") + b\"\\r\\n\"", "R3"),
    M("errortask-no-close", "task.py", "        self.response_headers.extend(headers)\n        self.set_close_on_finish()\n        self.content_length = len(body)", "        self.response_headers.extend(headers)\n        self.content_length = len(body)", "R7"),
    M("short-body-no-close", "task.py", "                    self.set_close_on_finish()\n                    if self.request.command != \"HEAD\":\n                        self.logger.warning(", "                    if self.request.command != \"HEAD\":\n                        self.logger.warning(", "R5"),
    M("direct-close-store", "task.py", "                    # to service content-length\n                    self.set_close_on_finish()", "                    # to service content-length\n                    self.close_on_finish = True", None),
    M("filewrapper-keeps-declared", "task.py", "                    if cl != size:\n                        if cl is not None:\n                            self.remove_content_length_header()\n                        self.content_length = size\n", "", "R6"),
    M("readonly-get-unbounded", "buffers.py", "        if numbytes == -1 or numbytes > self.remain:\n            numbytes = self.remain\n        file = self.file\n        if not skip:\n            read_pos = file.tell()\n        res = file.read(numbytes)\n        if skip:\n            self.remain -= len(res)", "        if numbytes == -1:\n            numbytes = self.remain\n        file = self.file\n        if not skip:\n            read_pos = file.tell()\n        res = file.read(numbytes)\n        if skip:\n            self.remain -= len(res)", "R6"),
    M("relay-not-on-finish", "channel.py", "        if task.close_on_finish or self.will_close:\n            with self.requests_lock:\n                self.close_when_flushed = True\n", "        if task.close_on_finish or self.will_close:\n            with self.requests_lock:\n                self.close_when_flushed = bool(self.requests)\n", None),
    M("error-request-to-app", "channel.py", "        if request.error:\n            task = self.error_task_class(self, request)\n        else:\n            task = self.task_class(self, request)", "        if request.error and request.completed is False:\n            task = self.error_task_class(self, request)\n        else:\n            task = self.task_class(self, request)", "R9"),

    T("reorder-appends", "task.py", "                if self.has_body:\n                    self.response_headers.append((\"Transfer-Encoding\", \"chunked\"))\n                    self.chunked_response = True", "                if self.has_body:\n                    self.chunked_response = True\n                    self.response_headers.append((\"Transfer-Encoding\", \"chunked\"))"),
    T("close-test-hoisted", "task.py", "                if not self.close_on_finish:\n                    self.set_close_on_finish()\n\n            # under HTTP 1.1 keep-alive", "                self.set_close_on_finish()\n\n            # under HTTP 1.1 keep-alive"),
    T("chunk-single-expr", "task.py", "                towrite = hex(len(data))[2:].upper().encode(\"latin-1\") + b\"\\r\\n\"\n                towrite += data + b\"\\r\\n\"\n", "                towrite = hex(len(data))[2:].upper().encode(\"latin-1\") + b\"\\r\\n\" + data + b\"\\r\\n\"\n"),
]
