"""C08 — applications cannot split or inject into the response head."""
from __future__ import annotations

import ast

from ..cfg import cfg_of
from ..locks import accesses
from ..model import AnalysisError, NotConst, dotted, norm, walk_own
from .common import find_calls, guards_of, key_of, leads_only_to_raise, mentions, resolve_locals, str_template, template_text

EXPLANATION = (
    "Taint / dominance analysis of the response head. All writers of Task.status and Task.response_headers in the "
    "package are enumerated; the only application-tainted stores (status and extend(headers) inside the start_response "
    "closure) must be dominated, on the very value stored, by an isinstance(str)-else-raise test and by tests that raise "
    "if CR or LF occurs (both characters; for the header list: name and value, in a loop over the same iterable that no "
    "path can leave early); the exc_info re-call takes the same route; hop-by-hop names (the folded set must equal RFC "
    "2616 13.5.1's eight) raise; the serialiser adds CR/LF only from the line-terminator constants, normalises names by "
    "the case expression only and passes values through; wrote_header is set only after the head was built and handed "
    "to the channel; error responses are built from class constants. Header iterables that yield different items on a "
    "second iteration are outside the property's quantifier and outside the rule."
)

HOP = {"connection", "keep-alive", "proxy-authenticate", "proxy-authorization", "te", "trailer", "transfer-encoding", "upgrade"}


class _MethodView:
    """A method standing in for the closure: the same function with `self` left out of the parameter list."""

    def __init__(self, f):
        self.__dict__["_f"] = f

    def __getattr__(self, k):
        if k == "params":
            return self._f.params[1:]
        return getattr(self._f, k)


def _closure(ctx):
    """The callable the application receives as start_response: the closure of WSGITask.execute, or - when somebody
    turned it into a method - the method whose bound form execute() hands over."""
    p = ctx.p
    f = p.functions.get("task.WSGITask.execute.start_response")
    if f is not None:
        return f, cfg_of(f)
    ex = p.func("task.WSGITask.execute")
    for c in ast.walk(ex.node):
        if isinstance(c, ast.Call) and (dotted(c.func) or "").endswith(".application") and len(c.args) == 2:
            a = c.args[1]
            src = resolve_locals(ex, a) if isinstance(a, ast.Name) else a
            if isinstance(src, ast.Attribute) and isinstance(src.value, ast.Name) and src.value.id == ex.params[0] and ex.cls is not None:
                for k in ex.cls.mro:
                    m = k.methods.get(src.attr)
                    if m is not None and not m.is_staticmethod and not m.is_classmethod and len(m.params) >= 3:
                        return _MethodView(m), cfg_of(m)
    raise AnalysisError("anchor vanished: the start_response callable handed to the application by WSGITask.execute")


def _raising_tests(g, var):
    """facts {'str','LF','CR'} established for variable var by tests whose failing side only raises;
    returns {fact: test node}"""
    facts = {}
    for b in g.nodes:
        if b.kind != "branch":
            continue
        t = b.ast
        if isinstance(t, ast.Call) and dotted(t.func) == "isinstance" and len(t.args) == 2 and dotted(t.args[0]) == var and dotted(t.args[1]) == "str":
            if not b.polarity and leads_only_to_raise(g, b):
                facts["str"] = b
        if isinstance(t, ast.Compare) and isinstance(t.ops[0], ast.In) and isinstance(t.left, ast.Constant) and dotted(t.comparators[0]) == var:
            if b.polarity and leads_only_to_raise(g, b):
                if t.left.value == "\n":
                    facts["LF"] = b
                elif t.left.value == "\r":
                    facts["CR"] = b
    return facts


def rule_r1(ctx):
    rid = "C08.R1"
    ctx.r.rule(rid, "every application-tainted store into the response head is dominated by str / CR / LF tests on the stored value (name and value for headers)")
    p = ctx.p
    f, g = _closure(ctx)
    status, headers = f.params[0], f.params[1]
    # status
    st = [n for n in g.nodes if n.kind == "stmt" and isinstance(n.ast, ast.Assign) and any(dotted(t) == "self.status" for t in n.ast.targets)]
    if not st:
        raise AnalysisError("start_response no longer stores the status")
    facts = _raising_tests(g, status)
    for s in st:
        if dotted(s.ast.value) != status:
            ctx.r.violation(rid, key_of(f, s.ast, "status-other-value"), "the status stored is %s, not the validated parameter" % norm(s.ast.value), f.loc(s.ast))
            continue
        for k, what in (("str", "a str"), ("LF", "free of LF"), ("CR", "free of CR")):
            b = facts.get(k)
            tn = [x for x in g.nodes if x.kind == "test" and b is not None and x.ast is b.ast]
            if b is not None and tn and g.dominates(tn[0], s):
                ctx.r.ok(rid, "status stored only after it was checked to be %s" % what, f.loc(s.ast))
            else:
                ctx.r.violation(rid, key_of(f, None, "status-unchecked::" + k), "the application's status string is stored without a dominating check that it is %s" % what, f.loc(s.ast))
    # headers
    ext = [(n, c) for n, c in find_calls(g, lambda c: dotted(c.func) in ("self.response_headers.extend", "self.response_headers.append"))]
    assigns = [n for n in g.nodes if n.kind == "stmt" and isinstance(n.ast, ast.Assign) and any(dotted(t) == "self.response_headers" for t in n.ast.targets)
               and not (isinstance(n.ast.value, ast.List) and not n.ast.value.elts)]
    if not ext and not assigns:
        raise AnalysisError("start_response no longer stores the headers")
    for n in assigns:
        ctx.r.violation(rid, key_of(f, n.ast, "headers-assigned"), "response_headers assigned from %s without the validation loop" % norm(n.ast.value), f.loc(n.ast))
    for n, c in ext:
        arg = c.args[0] if c.args else None
        # what is stored: the application's own list object (its pairs stay the application's: a pair given as a list can
        # be changed after validation), a list of fresh (name, value) tuples built in the validating loop, or a
        # comprehension building such tuples
        fresh = False
        pair_appends = []
        if dotted(arg) == headers:
            fresh = False
        elif isinstance(arg, ast.Name):
            pair_appends = [(m, c2) for m, c2 in find_calls(g, lambda c2: dotted(c2.func) == arg.id + ".append")]
            inits = [m for m in g.nodes if m.kind == "stmt" and isinstance(m.ast, ast.Assign) and dotted(m.ast.targets[0]) == arg.id]
            others = [m for m in g.nodes if m.kind == "stmt" and m.ast is not None and not isinstance(m.ast, (ast.FunctionDef, ast.ClassDef)) and any(isinstance(y, ast.Name) and y.id == arg.id for y in ast.walk(m.ast))
                      and m not in inits and m is not n and m not in [x for x, _ in pair_appends]]
            if not (pair_appends and len(inits) == 1 and isinstance(inits[0].ast.value, ast.List) and not inits[0].ast.value.elts and not others):
                ctx.r.violation(rid, key_of(f, None, "headers-other-value"), "%s stores something else than the validated header list" % norm(c), f.loc(n.ast))
                continue
            fresh = True
        elif isinstance(arg, (ast.ListComp, ast.GeneratorExp)) and len(arg.generators) == 1 and dotted(arg.generators[0].iter) == headers and not arg.generators[0].ifs \
                and isinstance(arg.elt, ast.Tuple) and isinstance(arg.generators[0].target, ast.Tuple) and [norm(e) for e in arg.elt.elts] == [norm(e) for e in arg.generators[0].target.elts]:
            fresh = True
        else:
            ctx.r.violation(rid, key_of(f, None, "headers-other-value"), "%s stores something else than the validated header list" % norm(c), f.loc(n.ast))
            continue
        loops = [it for it in g.nodes if it.kind == "iter" and dotted(it.ast.iter) == headers and g.dominates(it, n)]
        if loops and pair_appends:
            lt = loops[0].ast.target
            want = [norm(e) for e in lt.elts] if isinstance(lt, ast.Tuple) else None
            for m, c2 in pair_appends:
                a0 = c2.args[0] if c2.args else None
                if not (isinstance(a0, ast.Tuple) and want is not None and [norm(e) for e in a0.elts] == want and any(y is c2 for y in ast.walk(loops[0].ast))):
                    fresh = False
        if fresh:
            ctx.r.ok(rid, "the pairs stored are fresh (name, value) tuples of the validated strings", f.loc(n.ast))
        else:
            ctx.r.violation(rid, key_of(f, None, "app-owned-pairs"),
                            "%s stores the application's own pair objects: a pair given as a list can be changed after start_response validated it (e.g. pair[1] = 'x\\r\\nSet-Cookie: ...'), and build_response_header emits the new text" % norm(c)[:50], f.loc(n.ast))
        if not loops:
            ctx.r.violation(rid, key_of(f, None, "headers-unvalidated"), "the application's header list is stored without a validating loop over it", f.loc(n.ast))
            continue
        lp = loops[0]
        tgt = lp.ast.target
        if not (isinstance(tgt, ast.Tuple) and len(tgt.elts) == 2 and all(isinstance(e, ast.Name) for e in tgt.elts)):
            ctx.r.error(rid, "unexpected loop target %s" % norm(tgt))
            continue
        body_start = [s for (s, l) in lp.succ if l == "loop"][0]
        for var, role in ((tgt.elts[0].id, "name"), (tgt.elts[1].id, "value")):
            facts = _raising_tests(g, var)
            for k, what in (("str", "a str"), ("LF", "free of LF"), ("CR", "free of CR")):
                b = facts.get(k)
                tn = [x for x in g.nodes if x.kind == "test" and b is not None and x.ast is b.ast]
                ok = bool(tn) and any(x is tn[0].ast for x in ast.walk(lp.ast)) and g.path(body_start, lp, avoid=tn, follow_exc=False) is None
                for m, _c2 in pair_appends:
                    if tn and g.path(body_start, m, avoid=tn, follow_exc=False) is not None:
                        ok = False
                if ok:
                    ctx.r.ok(rid, "every header %s is checked to be %s on every iteration" % (role, what), f.loc(tn[0].ast))
                else:
                    ctx.r.violation(rid, key_of(f, None, "header-%s-unchecked::%s" % (role, k)),
                                    "a header %s can be stored without the check that it is %s (response splitting)" % (role, what), f.loc(lp.ast))
        # the loop can only be left by exhaustion or by raising (no break / return inside)
        early = [m for m in g.nodes if m.kind == "stmt" and isinstance(m.ast, (ast.Break, ast.Return)) and any(x is m.ast for x in ast.walk(lp.ast))]
        if early:
            ctx.r.violation(rid, key_of(f, None, "validation-loop-left-early"), "the validation loop can be left early (%s) before all headers are checked" % norm(early[0].ast), f.loc(early[0].ast))
        else:
            ctx.r.ok(rid, "the validation loop is only left by exhaustion or by raising", f.loc(lp.ast))
    # enumerate all writers in the package
    task = p.cls("task.Task")
    allowed = {"task.WSGITask.execute.start_response", _closure(ctx)[0].qual, "task.ErrorTask.execute", "task.Task.build_response_header", "task.Task.set_close_on_finish",
               "task.Task.remove_content_length_header", "task.Task.__init__"}
    n = 0
    for attr in ("status", "response_headers"):
        for a in accesses(p, attr, [task]):
            if a.kind not in ("write", "mutate"):
                continue
            n += 1
            if a.func.qual in allowed:
                ctx.r.ok(rid, "writer of %s: %s" % (attr, a.func.qual), a.loc)
            elif a.kind == "mutate" and isinstance(a.stmt, ast.Expr) and isinstance(a.stmt.value, ast.Call) and isinstance(a.stmt.value.func, ast.Attribute) \
                    and a.stmt.value.func.attr == "append" and len(a.stmt.value.args) == 1 and isinstance(a.stmt.value.args[0], ast.Tuple) \
                    and all(isinstance(e, ast.Constant) and isinstance(e.value, str) and "\r" not in e.value and "\n" not in e.value for e in a.stmt.value.args[0].elts):
                # a server-side helper adding one of the server's own constant fields: nothing of the application in it
                ctx.r.ok(rid, "writer of %s: %s appends a constant server field %s" % (attr, a.func.qual, norm(a.stmt.value.args[0])), a.loc)
            else:
                ctx.r.violation(rid, key_of(a.func, a.stmt, "unknown-head-writer::" + attr), "%s writes the response %s outside the analysed writers" % (a.func.qual, attr), a.loc)
    ctx.r.floor(rid, n, 8, "writers of status / response_headers")


def rule_r2(ctx):
    rid = "C08.R2"
    ctx.r.rule(rid, "the exc_info re-call takes the same route: no return before the validators; previous headers are cleared before the new ones are stored")
    f, g = _closure(ctx)
    ext = [n for n, c in find_calls(g, lambda c: dotted(c.func) == "self.response_headers.extend")]
    rets = [n for n in g.nodes if n.kind == "stmt" and isinstance(n.ast, ast.Return)]
    for r in rets:
        if ext and any(g.dominates(e, r) for e in ext):
            ctx.r.ok(rid, "return only after validation and store", f.loc(r.ast))
        else:
            ctx.r.violation(rid, key_of(f, None, "early-return"), "start_response can return before the status/headers were validated and stored", f.loc(r.ast))
    clears = [n for n in g.nodes if n.kind == "stmt" and isinstance(n.ast, ast.Assign) and any(dotted(t) == "self.response_headers" for t in n.ast.targets)
              and isinstance(n.ast.value, ast.List) and not n.ast.value.elts]
    if clears and all(any(e.id in g.reach(c) for e in ext) and not any(c.id in g.reach(e) for e in ext) for c in clears):
        ctx.r.ok(rid, "headers of the first call are cleared before the re-call's headers are stored", f.loc(clears[0].ast))
    else:
        ctx.r.violation(rid, key_of(f, None, "no-clear-on-recall"), "start_response(exc_info) does not clear the previous headers before storing the new ones", f.loc())
    for c in clears:
        if any(pol and dotted(t) == f.params[2] for (t, pol) in guards_of(g, c)) and any((not pol) and dotted(t) == "self.wrote_header" for (t, pol) in guards_of(g, c)):
            ctx.r.ok(rid, "clearing happens on the exc_info path before output began", f.loc(c.ast))
        else:
            ctx.r.violation(rid, key_of(f, None, "clear-guard"), "the clearing of previous headers is not on the 'exc_info and head not yet written' path", f.loc(c.ast))


def rule_r3(ctx, rid="C08.R3"):
    ctx.r.rule(rid, "hop-by-hop header names (exactly RFC 2616 13.5.1's eight, lower-cased comparison) are refused")
    p = ctx.p
    f, g = _closure(ctx)
    hop = p.const("task", "hop_by_hop")
    if set(hop) == HOP:
        ctx.r.ok(rid, "hop_by_hop == the eight RFC names", "src/waitress/task.py")
    else:
        ctx.r.violation(rid, "hop-set::" + ",".join(sorted(HOP ^ set(hop))), "hop_by_hop differs from RFC 2616 13.5.1: %s" % sorted(HOP ^ set(hop)), "src/waitress/task.py")
    ok = False
    for b in g.nodes:
        if b.kind == "branch" and b.polarity and isinstance(b.ast, ast.Compare) and isinstance(b.ast.ops[0], ast.In):
            try:
                v = p.fold(b.ast.comparators[0], f.module)
            except NotConst:
                continue
            if isinstance(v, frozenset) and "connection" in v:
                var = dotted(b.ast.left)
                # var = <name>.lower()
                low = any(isinstance(n, ast.Assign) and any(isinstance(t, ast.Name) and t.id == var for t in n.targets) and isinstance(n.value, ast.Call)
                          and isinstance(n.value.func, ast.Attribute) and n.value.func.attr == "lower" for n in walk_own(f.node))
                if leads_only_to_raise(g, b) and low:
                    ok = True
                    # reached for every name other than content-length: the test is in the loop, not under extra guards
                    extra = [(norm(t), pol) for (t, pol) in guards_of(g, b) if t is not b.ast and not (isinstance(t, ast.Compare) and "content-length" in norm(t)) and not dotted(t) == f.params[2]]
                    extra = [e for e in extra if "isinstance" not in e[0] and "'\\n'" not in e[0] and "'\\r'" not in e[0]]
                    if extra:
                        ctx.r.violation(rid, key_of(f, None, "hop-test-guarded"), "the hop-by-hop test only runs under %s" % extra, f.loc(b.ast))
    if ok:
        ctx.r.ok(rid, "lower-cased header name in hop_by_hop raises", f.loc())
    else:
        ctx.r.violation(rid, key_of(f, None, "hop-not-refused"), "hop-by-hop headers supplied by the application are not refused", f.loc())


def rule_r4(ctx):
    rid = "C08.R4"
    ctx.r.rule(rid, "the serialiser adds CR/LF only from the line-terminator constants, changes names only by case and passes values through")
    p = ctx.p
    f = p.func("task.Task.build_response_header")
    allowed = {"\r\n", "%s\r\n\r\n", "\r\n\r\n"}
    n = 0
    for c in ast.walk(f.node):
        if isinstance(c, ast.Constant) and isinstance(c.value, (str, bytes)):
            v = c.value if isinstance(c.value, str) else c.value.decode("latin-1")
            if "\r" in v or "\n" in v:
                n += 1
                if v in allowed:
                    ctx.r.ok(rid, "line terminator constant %r" % v, f.loc(c))
                else:
                    ctx.r.violation(rid, key_of(f, None, "crlf-constant::" + repr(v)), "build_response_header embeds CR/LF through the constant %r" % v, f.loc(c))
    ctx.r.floor(rid, n, 2, "CR/LF-bearing constants in the serialiser")
    # normalisation loop
    loops = [x for x in ast.walk(f.node) if isinstance(x, ast.For) and dotted(x.iter) == "self.response_headers"]
    if not loops:
        raise AnalysisError("build_response_header no longer iterates the response headers")
    lp = loops[0]
    if not (isinstance(lp.target, ast.Tuple) and len(lp.target.elts) == 2):
        raise AnalysisError("unexpected loop target in build_response_header")
    hn, hv = lp.target.elts[0].id, lp.target.elts[1].id
    for st in ast.walk(lp):
        if isinstance(st, ast.Assign) and any(isinstance(t, ast.Name) and t.id == hv for t in st.targets):
            ctx.r.violation(rid, key_of(f, st, "value-rewritten"), "a header value is rewritten by the serialiser: %s" % norm(st), f.loc(st))
        if isinstance(st, ast.Assign) and any(isinstance(t, ast.Name) and t.id == hn for t in st.targets):
            meths = {c.func.attr for c in ast.walk(st.value) if isinstance(c, ast.Call) and isinstance(c.func, ast.Attribute)}
            if meths <= {"join", "capitalize", "split", "title", "lower", "upper"}:
                ctx.r.ok(rid, "header names are only case-normalised (%s)" % sorted(meths), f.loc(st))
            else:
                ctx.r.violation(rid, key_of(f, None, "name-rewritten"), "a header name is changed by more than letter case: %s" % norm(st)[:70], f.loc(st))
    early = [x for x in ast.walk(lp) if isinstance(x, (ast.Break, ast.Return))]
    if early:
        ctx.r.violation(rid, key_of(f, None, "headers-loop-left-early"), "the loop over the application's headers can be left early (%s): the headers after that one are dropped from the response head" % norm(early[0]), f.loc(early[0]))
    else:
        ctx.r.ok(rid, "the loop over the application's headers visits every header", f.loc(lp))
    gl = cfg_of(f)
    for cn in [x for x in gl.nodes if x.kind == "stmt" and isinstance(x.ast, ast.Continue) and any(y is x.ast for y in ast.walk(lp))]:
        gs = guards_of(gl, cn)
        is_cl = any(pol and isinstance(t, ast.Compare) and "Content-Length" in norm(t) for (t, pol) in gs)
        no_body = any((not pol) and "has_body" in norm(t) for (t, pol) in gs)
        if is_cl and no_body:
            ctx.r.ok(rid, "the only header the serialiser drops is Content-Length on a status without a body", f.loc(cn.ast))
        else:
            ctx.r.violation(rid, key_of(f, None, "header-dropped"), "an application header is dropped under %s" % [(norm(t), pol) for (t, pol) in gs], f.loc(cn.ast))
    apps = [c for c in ast.walk(lp) if isinstance(c, ast.Call) and isinstance(c.func, ast.Attribute) and c.func.attr == "append" and c.args and isinstance(c.args[0], ast.Tuple)]
    # the name of the pair: the loop variable, or a local of the loop that holds nothing but its case-normalised form
    name_ok = {hn}
    for st in ast.walk(lp):
        if isinstance(st, ast.Assign) and len(st.targets) == 1 and isinstance(st.targets[0], ast.Name) and st.targets[0].id not in (hn, hv):
            meths = {c.func.attr for c in ast.walk(st.value) if isinstance(c, ast.Call) and isinstance(c.func, ast.Attribute)}
            srcs = {x.id for x in ast.walk(st.value) if isinstance(x, ast.Name) and isinstance(x.ctx, ast.Load)} - {y.id for g2 in ast.walk(st.value) if isinstance(g2, ast.comprehension) for y in ast.walk(g2.target) if isinstance(y, ast.Name)}
            others = [o for o in ast.walk(lp) if o is not st and isinstance(o, (ast.Assign, ast.AugAssign)) and any(isinstance(t, ast.Name) and t.id == st.targets[0].id for t in ast.walk(o))  and any(isinstance(t, ast.Name) and isinstance(t.ctx, ast.Store) and t.id == st.targets[0].id for t in ast.walk(o))]
            if meths and meths <= {"join", "capitalize", "split", "title"} and srcs == {hn} and not others:
                name_ok.add(st.targets[0].id)
    if apps and all(len(c.args[0].elts) == 2 and dotted(c.args[0].elts[0]) in name_ok and dotted(c.args[0].elts[1]) == hv for c in apps):
        ctx.r.ok(rid, "normalised (name, value) pairs keep the value untouched", f.loc(apps[0]))
    else:
        ctx.r.violation(rid, key_of(f, None, "pair-rewritten"), "the serialiser re-appends something else than (name, value)", f.loc(lp))
    # the line format
    fmts = [c for c in ast.walk(f.node) if isinstance(c, (ast.BinOp, ast.JoinedStr, ast.Call)) and template_text(str_template(c), names=False) == "{}: {}"
            and not any(pt[2] != "s" for pt in str_template(c) if not isinstance(pt, str))]
    if fmts:
        ctx.r.ok(rid, "lines are formatted as 'name: value'", f.loc(fmts[0]))
    else:
        ctx.r.violation(rid, key_of(f, None, "line-format"), "header lines are no longer formatted by the '%s: %s' template", f.loc())
    # ... one line per stored pair: what is formatted is the header list itself, at most sorted - nothing that can drop
    # or merge entries (set(), dict.fromkeys, a filter) stands between the list and the lines
    for fm in fmts:
        src = None
        for x in ast.walk(f.node):
            if isinstance(x, (ast.ListComp, ast.GeneratorExp)) and any(y is fm for y in ast.walk(x.elt)) and len(x.generators) == 1:
                src, flt = x.generators[0].iter, x.generators[0].ifs
            elif isinstance(x, ast.For) and any(y is fm for st in x.body for y in ast.walk(st)):
                src, flt = x.iter, []
        if src is None:
            continue
        e = resolve_locals(f, src) if isinstance(src, ast.Name) else src
        e = e if e is not None else src
        if isinstance(e, ast.Call) and dotted(e.func) == "sorted" and e.args:
            inner = e.args[0]
            # the local the normalised pairs are collected in IS the header list (`self.response_headers = response_headers`)
            aliased = isinstance(inner, ast.Name) and any(isinstance(a, ast.Assign) and any(dotted(t) == "self.response_headers" for t in a.targets) and dotted(a.value) == inner.id for a in ast.walk(f.node))
            inner = (resolve_locals(f, inner) or inner) if isinstance(inner, ast.Name) and not aliased else inner
        else:
            inner = e
        if dotted(inner) in ("self.response_headers", "response_headers") and not flt:
            ctx.r.ok(rid, "every stored (name, value) pair becomes one line (the list itself, sorted)", f.loc(fm))
        else:
            ctx.r.violation(rid, key_of(f, None, "lines-not-from-the-list"), "the header lines are produced from `%s`, not from the header list itself: entries the application supplied can be dropped or merged (repeated fields such as Set-Cookie or Warning)" % norm(inner)[:60], f.loc(fm))
    # server-added fields: values are constants, str(int), ident or the date helper
    for c in ast.walk(f.node):
        if isinstance(c, ast.Call) and dotted(c.func) == "self.response_headers.append" and c.args and isinstance(c.args[0], ast.Tuple) and len(c.args[0].elts) == 2:
            name, val = c.args[0].elts
            if not isinstance(name, ast.Constant):
                continue
            vt = norm(val)
            ok = isinstance(val, ast.Constant) or vt in ("content_length_header", "ident", "ident or 'waitress'") or vt.startswith("build_http_date(") or vt.startswith("str(")
            if ok:
                ctx.r.ok(rid, "server field %s gets a server-sourced value (%s)" % (name.value, vt[:30]), f.loc(c))
            else:
                ctx.r.violation(rid, key_of(f, None, "server-field-value::" + str(name.value)), "server-added field %s takes its value from %s" % (name.value, vt[:50]), f.loc(c))


def rule_r5(ctx):
    rid = "C08.R5"
    ctx.r.rule(rid, "wrote_header becomes true only after the head was built and handed to the channel (a head that cannot be encoded fails before output)")
    p = ctx.p
    f = p.func("task.Task.write")
    g = cfg_of(f)
    st = [n for n in g.nodes if n.kind == "stmt" and isinstance(n.ast, ast.Assign) and any(dotted(t) == "self.wrote_header" for t in n.ast.targets)]
    b = [n for n, c in find_calls(g, lambda c: dotted(c.func) == "self.build_response_header")]
    w = [n for n, c in find_calls(g, lambda c: (dotted(c.func) or "").endswith("write_soon"))]
    if not st or not b:
        raise AnalysisError("Task.write no longer builds the head / sets wrote_header")
    for s in st:
        if any(g.dominates(x, s) for x in b) and any(g.dominates(x, s) for x in w):
            ctx.r.ok(rid, "wrote_header set after build_response_header() and write_soon(head)", f.loc(s.ast))
        else:
            ctx.r.violation(rid, key_of(f, None, "wrote_header-early"), "wrote_header is set before the head was built and queued: a failing head no longer gets the 500 route", f.loc(s.ast))
    enc = [c for c in ast.walk(p.func("task.Task.build_response_header").node) if isinstance(c, ast.Call) and isinstance(c.func, ast.Attribute) and c.func.attr == "encode"]
    codecs = []
    for c in enc:
        try:
            codecs.append(p.fold(c.args[0], f.module) if c.args else "utf-8")
        except NotConst:
            codecs.append("?")
    if codecs and all(str(x).lower().replace("-", "") in ("latin1", "iso88591") for x in codecs):
        ctx.r.ok(rid, "the head is encoded as latin-1 (non latin-1 text fails before output)", "src/waitress/task.py")
    else:
        ctx.r.violation(rid, "head-codec::" + ",".join(map(str, codecs)), "the response head is encoded with %s" % codecs, "src/waitress/task.py")


def rule_r6(ctx):
    rid = "C08.R6"
    ctx.r.rule(rid, "the 500 (and every refusal) is built from server strings only: Error.to_response uses class constants free of CR/LF")
    p = ctx.p
    err = p.cls("utilities.Error")
    n = 0
    for c in [err] + err.all_subclasses():
        for attr in ("code", "reason"):
            a = c.lookup_attr(attr)
            try:
                v = p.fold(a[1], a[0].module) if a else None
            except NotConst:
                v = None
            n += 1
            if isinstance(v, (int, str)) and "\r" not in str(v) and "\n" not in str(v):
                ctx.r.ok(rid, "%s.%s = %r" % (c.name, attr, v), c.module.path)
            else:
                ctx.r.violation(rid, "error-constant::%s.%s" % (c.name, attr), "%s.%s is not a CR/LF-free constant (%r)" % (c.name, attr, v), c.module.path)
    tr = p.func("utilities.Error.to_response")
    st = [x for x in ast.walk(tr.node) if isinstance(x, ast.Assign) and any(isinstance(t, ast.Name) and t.id == "status" for t in x.targets)]
    parts = str_template(st[0].value) if st else None
    if parts is not None and all(isinstance(pt, str) or (pt[1] in ("self.code", "self.reason") and pt[2] == "s") for pt in parts) \
            and not any("\r" in pt or "\n" in pt for pt in parts if isinstance(pt, str)) and any(not isinstance(pt, str) for pt in parts):
        ctx.r.ok(rid, "error status line is f'{code} {reason}'", tr.loc(st[0]))
    else:
        ctx.r.violation(rid, key_of(tr, None, "error-status"), "Error.to_response builds the status from something else than code/reason", tr.loc())
    hd = [x for x in ast.walk(tr.node) if isinstance(x, ast.Assign) and any(isinstance(t, ast.Name) and t.id == "headers" for t in x.targets)]
    try:
        hv = p.fold(hd[0].value, tr.module) if hd else None
    except NotConst:
        hv = None
    if isinstance(hv, list) and all("\r" not in a + b and "\n" not in a + b for (a, b) in hv):
        ctx.r.ok(rid, "error headers are a constant list", tr.loc(hd[0]))
    else:
        ctx.r.violation(rid, key_of(tr, None, "error-headers"), "Error.to_response headers are not a CR/LF-free constant list", tr.loc())
    ctx.r.floor(rid, n, 10, "error class constants")


def rule_r7(ctx):
    """Shared with C03.R11: 'exactly the application's header fields' - the only application header the server removes
    is Content-Length, recognised by an equality test on the case-normalised name."""
    from . import c03
    c03.rule_r11(ctx, rid="C08.R7")


def rule_r8(ctx, rid="C08.R8"):
    ctx.r.rule(rid, "a refusal is answered: every exception class start_response raises to refuse a status or header (the classes of its raise statements) travels from the application call to the handler that takes the 500-or-close decision, with no handler on the way that swallows it")
    from ..excflow import ExcClass, handler_catches, route
    from . import c09
    p = ctx.p
    f, g = _closure(ctx)
    classes = set()
    for n in g.nodes:
        if n.kind == "stmt" and isinstance(n.ast, ast.Raise) and isinstance(n.ast.exc, ast.Call):
            nm = dotted(n.ast.exc.func)
            if nm:
                classes.add(nm)
        if n.kind == "stmt" and isinstance(n.ast, ast.Assert):
            classes.add("AssertionError")
    ctx.r.floor(rid, len(classes), 2, "refusal exception classes raised in start_response")
    ex = p.func("task.WSGITask.execute")
    ge = cfg_of(ex)
    sf, dh = c09._decision_handler(ctx)
    if dh is None:
        raise AnalysisError("cannot find the 500-or-close handler in HTTPChannel.service")
    app = [n for n in ge.nodes if n.kind == "stmt" and isinstance(n.ast, ast.Assign) and isinstance(n.ast.value, ast.Call) and (dotted(n.ast.value.func) or "").endswith(".application")]
    if not app:
        raise AnalysisError("anchor vanished: the application call in WSGITask.execute")
    for exc in sorted(classes):
        for t in route(p, ex, app[0], exc):
            if t.kind == "passthrough":
                continue
            if t.kind == "escape":
                ctx.r.violation(rid, "refusal-escapes::%s::%s" % (exc, t.func.qual), "%s raised by start_response to refuse a status/header escapes through %s: no 500 response" % (exc, t.func.qual), t.func.loc(), {"chain": t.chain})
                continue
            h = t.hnode.ast
            if getattr(h, "_orig", h) is getattr(dh, "_orig", dh):
                ctx.r.ok(rid, "%s (refusal) -> the 500-or-close handler" % exc, t.func.loc(h))
                continue
            hname = norm(h.type) if h.type is not None else "<bare>"
            ctx.r.violation(rid, "refusal-misrouted::%s::%s::%s" % (exc, t.func.qual, hname),
                            "%s raised by start_response to refuse a status/header is taken by `except %s` in %s before the handler that sends the 500: the client of a refused response gets no 500 (%s)"
                            % (exc, hname, t.func.qual, getattr(t, "behaviour", "swallow")), t.func.loc(h), {"chain": t.chain})


RULES = [rule_r1, rule_r2, rule_r3, rule_r4, rule_r5, rule_r6, rule_r7, rule_r8]

from ..selftest import M, T, V  # noqa: E402

selftest = [
    M("refusal-swallowed", "task.py", "            self.finish()\n        except OSError:", "            self.finish()\n        except (OSError, ValueError):", "R8"),
    T("oserror-tuple", "task.py", "            self.finish()\n        except OSError:", "            self.finish()\n        except (OSError,):"),
    M("status-cr-dropped", "task.py", 'if "\\n" in status or "\\r" in status:', 'if "\\n" in status:', "R1"),
    M("value-cr-dropped", "task.py", 'if "\\n" in v or "\\r" in v:', 'if "\\n" in v:', "R1"),
    M("name-unchecked", "task.py", '                if "\\n" in k or "\\r" in k:\n                    raise ValueError(\n                        "carriage return/line feed character present in header name"\n                    )\n', "", "R1"),
    M("value-type-unchecked", "task.py", "                if not isinstance(v, str):\n                    raise AssertionError(\n                        f\"Header value {v!r} is not a string in {(k, v)!r}\"\n                    )\n", "", "R1"),
    M("loop-break-on-cl", "task.py", '                if kl == "content-length":\n                    self.content_length = int(v)\n', '                if kl == "content-length":\n                    self.content_length = int(v)\n                    break\n', "R1"),
    M("store-before-validate", "task.py", "            self.status = status\n\n            # Prepare the headers for output\n", "            self.status = status\n            self.response_headers.extend(headers)\n            if exc_info:\n                return self.write\n\n            # Prepare the headers for output\n", None),
    M("status-stored-early", "task.py", "            self.complete = True\n\n            if not isinstance(status, str):", "            self.complete = True\n            self.status = status\n\n            if not isinstance(status, str):", "R1"),
    M("hop-te-allowed", "task.py", '        "te",\n        "trailer",', '        "trailer",', "R3"),
    M("hop-case-sensitive", "task.py", "                kl = k.lower()\n", "                kl = k\n", "R3"),
    M("hop-warn-only", "task.py", "                elif kl in hop_by_hop:\n                    raise AssertionError(", "                elif kl in hop_by_hop:\n                    self.logger.warning(", "R3"),
    M("wrote_header-early", "task.py", "            rh = self.build_response_header()\n            channel.write_soon(rh)\n            self.wrote_header = True\n", "            self.wrote_header = True\n            rh = self.build_response_header()\n            channel.write_soon(rh)\n", "R5"),
    M("serialiser-strips-value", "task.py", "            # replace with properly capitalized version\n            response_headers.append((headername, headerval))", "            # replace with properly capitalized version\n            response_headers.append((headername, headerval.strip()))", "R4"),
    M("recall-keeps-headers", "task.py", "                        # As per WSGI spec existing headers must be cleared\n                        self.response_headers = []", "                        # As per WSGI spec existing headers must be cleared\n                        pass", "R2"),
    M("head-utf8", "task.py", '        return res.encode("latin-1")', '        return res.encode("utf-8")', "R5"),
    M("external-writer", "channel.py", "                task = self.error_task_class(self, err_request)\n                try:", "                task = self.error_task_class(self, err_request)\n                task.response_headers.append((\"X-Path\", request.path))\n                try:", "R1"),
    T("crlf-tests-split", "task.py", 'if "\\n" in status or "\\r" in status:\n                raise ValueError(\n                    "carriage return/line feed character present in status"\n                )', 'if "\\n" in status:\n                raise ValueError("LF in status")\n            if "\\r" in status:\n                raise ValueError("CR in status")'),
    T("hop-set-literal", "task.py", "                elif kl in hop_by_hop:", "                elif kl in hop_by_hop and True:"),
]
