"""C04 — pipelining: in order, exactly once, never mixed (lock / ownership /
single-dispatch discipline)."""
from __future__ import annotations

import ast

from ..callgraph import get_callgraph
from ..cfg import cfg_of
from ..locks import accesses, get_locks, thread_roles
from ..model import AnalysisError, dotted, norm, walk_own, walk_stmt_exprs
from .c13 import worker_role
from .common import calls_in, cfg_nodes_with_ast, find_calls, guards_of, key_of, mentions, node_exprs

EXPLANATION = (
    "Static lock-set / ownership analysis over all access sites and call chains. For every thread role the "
    "context-sensitive reachability (with the set of locks held along the call chain) is computed; every access to the "
    "shared output state (outbufs and the buffers in it, writes of total_outbufs_len, every route into the flush routine) "
    "must hold the output lock, be in the constructor, or be the documented unlocked fast path of the I/O thread that is "
    "guarded by 'no request queued'; worker code must not touch output state after it removed the last queued request; "
    "every mutation of the request queue holds the requests lock; the two dispatch sites are evaluated on the abstract "
    "queue lengths {0,1,>=2} (exactly-one-dispatch typestate); the worker serves and removes the head. This decides the "
    "discipline that makes the output order schedule-independent, not the byte order of every interleaving."
)

OUT_LOCK = "HTTPChannel.outbuf_lock"
REQ_LOCK = "HTTPChannel.requests_lock"


def _chan(ctx):
    return ctx.p.cls("channel.HTTPChannel")


def _alias_locals(func, attr):
    """Locals assigned from expressions mentioning self.<attr>."""
    names = set()
    for n in walk_own(func.node):
        if isinstance(n, ast.Assign) and any(isinstance(x, ast.Attribute) and x.attr == attr and dotted(x.value) == "self" for x in ast.walk(n.value)):
            for t in n.targets:
                if isinstance(t, ast.Name):
                    names.add(t.id)
        if isinstance(n, (ast.For,)) and any(isinstance(x, ast.Attribute) and x.attr == attr for x in ast.walk(n.iter)):
            if isinstance(n.target, ast.Name):
                names.add(n.target.id)
    return names


def output_access_stmts(ctx):
    """{func qual: [(stmt, kind, text)]} statements of HTTPChannel methods touching output state."""
    def mk():
        p = ctx.p
        lk = get_locks(p)
        out = {}
        chan = _chan(ctx)
        for f in p.functions.values():
            g = f
            while g.parent is not None:
                g = g.parent
            if g.cls is None or chan not in g.cls.mro:
                continue
            idx = lk._stmt_index(f)
            aliases = _alias_locals(f, "outbufs")
            seen = set()
            for n in walk_own(f.node):
                st = idx.get(id(n))
                if st is None:
                    continue
                kind = None
                if isinstance(n, ast.Attribute) and dotted(n.value) == "self":
                    if n.attr == "outbufs":
                        kind = "outbufs"
                    elif n.attr == "total_outbufs_len" and isinstance(n.ctx, ast.Store):
                        kind = "total_outbufs_len-write"
                elif isinstance(n, ast.Call) and isinstance(n.func, ast.Attribute) and isinstance(n.func.value, ast.Name) \
                        and n.func.value.id in aliases and n.func.attr in ("append", "get", "skip", "close", "__len__", "prune"):
                    kind = "buffer-op"
                if kind and (id(st), kind) not in seen:
                    seen.add((id(st), kind))
                    out.setdefault(f.qual, []).append((st, kind, norm(st).split("\n")[0][:80]))
        return out
    return ctx.memo("output-access", mk)


def fastpath_guard_ok(ctx):
    """In handle_write the unlocked flush routine is selected only under 'no request queued'."""
    p = ctx.p
    f = p.func("channel.HTTPChannel.handle_write")
    g = cfg_of(f)
    res = []
    for n in g.nodes:
        if n.kind == "stmt" and isinstance(n.ast, ast.Assign) and isinstance(n.ast.value, ast.Attribute) \
                and dotted(n.ast.value) == "self._flush_some":
            ok = any(pol is False and dotted(t) == "self.requests" for (t, pol) in guards_of(g, n)) or \
                any(pol is True and isinstance(t, ast.Compare) and mentions(t, "self.requests") and norm(t).replace(" ", "") in ("len(self.requests)==0",) for (t, pol) in guards_of(g, n))
            res.append((n, ok))
    # direct calls of _flush_some in handle_write
    for n, c in find_calls(g, lambda c: dotted(c.func) == "self._flush_some"):
        ok = any(pol is False and dotted(t) == "self.requests" for (t, pol) in guards_of(g, n))
        res.append((n, ok))
    return f, res


def rule_r1(ctx, rid="C04.R1"):
    ctx.r.rule(rid, "every access to output state holds the output lock along its call chain (or: constructor / guarded unlocked fast path of the I/O thread)")
    p = ctx.p
    lk = get_locks(p)
    acc = output_access_stmts(ctx)
    total = sum(len(v) for v in acc.values())
    ctx.r.floor(rid, total, 10, "statements accessing output state")
    roles = dict(thread_roles(p))
    roles["WORKER"] = worker_role(ctx)
    ff, fast = fastpath_guard_ok(ctx)
    fast_ok = bool(fast) and all(ok for (_, ok) in fast)
    for (n, ok) in fast:
        if ok:
            ctx.r.ok(rid, "unlocked flush routine selected only when no request is queued", ff.loc(n.ast))
        else:
            ctx.r.violation(rid, key_of(ff, n.ast, "fastpath-unguarded"), "handle_write selects the unlocked flush without the 'no request queued' guard", ff.loc(n.ast))
    covered = set()
    for rname, rr in roles.items():
        for key in rr.states:
            q = key[0]
            if q not in acc:
                continue
            f = p.functions[q]
            held_chain = key[3]
            chain = None
            for (st, kind, text) in acc[q]:
                covered.add((q, id(st)))
                held = set(held_chain) | set(lk.held_lex(f, st))
                what = "%s: %s [%s role]" % (kind, text, rname)
                if OUT_LOCK in held:
                    ctx.r.ok(rid, what + " holds the output lock", f.loc(st))
                    continue
                if f.name == "__init__":
                    ctx.r.ok(rid, what + " (constructor: object not yet shared)", f.loc(st))
                    continue
                chain = chain or rr.chain(key)
                via_hw = any(c.startswith("channel.HTTPChannel.handle_write") for c in chain)
                if rname == "IO" and via_hw and fast_ok:
                    ctx.r.ok(rid, what + " on the guarded unlocked fast path (handle_write, no request queued)", f.loc(st))
                    continue
                if rname == "SHUTDOWN":
                    ctx.r.ok(rid, what + " during shutdown (loop stopped)", f.loc(st))
                    continue
                origin = chain[-2] if len(chain) > 1 else chain[-1]
                ctx.r.violation(rid, key_of(f, st, "unlocked::%s::via::%s" % (rname, origin.split(" ")[0].split("[")[0])),
                                "%s without the output lock on the %s role" % (text, rname), f.loc(st), {"call_chain": chain})
    # accesses in functions no role reaches: lexical + must-hold-on-entry
    for q, lst in acc.items():
        f = p.functions[q]
        for (st, kind, text) in lst:
            if (q, id(st)) in covered:
                continue
            held = lk.held_at_stmt(f, st)
            if OUT_LOCK in held or f.name == "__init__":
                ctx.r.ok(rid, "%s: %s (not on any role path) locked/constructor" % (kind, text), f.loc(st))
            else:
                ctx.r.violation(rid, key_of(f, st, "unlocked::unreached"), "%s without the output lock" % text, f.loc(st))


def _touches_output(ctx):
    """Functions that (transitively) access output state."""
    def mk():
        p = ctx.p
        cg = get_callgraph(p)
        acc = output_access_stmts(ctx)
        direct = set(acc)
        out = set()
        for f in p.functions.values():
            r = cg.reachable([f])
            if set(r) & direct:
                out.add(f.qual)
        return out
    return ctx.memo("touches-output", mk)


def _queue_removal_nodes(g):
    out = []
    for n in g.nodes:
        if n.kind != "stmt":
            continue
        a = n.ast
        if isinstance(a, (ast.Expr, ast.Assign, ast.AugAssign, ast.Return)) and any(
                isinstance(c, ast.Call) and dotted(c.func) in ("self.requests.pop", "self.requests.clear", "self.requests.popleft", "self.requests.remove") for c in ast.walk(a)):
            out.append(n)
        elif isinstance(a, ast.Assign) and any(dotted(t) == "self.requests" for t in a.targets):
            out.append(n)
        elif isinstance(a, ast.Delete) and any(mentions(t, "self.requests") for t in a.targets):
            out.append(n)
    return out


def rule_r2(ctx, rid="C04.R2"):
    ctx.r.rule(rid, "ownership protocol: after service() removed a request from the queue no path reaches an output-state access")
    p = ctx.p
    cg = get_callgraph(p)
    f = p.func("channel.HTTPChannel.service")
    g = cfg_of(f)
    touch = _touches_output(ctx)
    rem = _queue_removal_nodes(g)
    ctx.r.floor(rid, len(rem), 2, "queue removal statements in service()")
    acc = output_access_stmts(ctx).get(f.qual, [])
    for r in rem:
        after = g.reach(r, follow_exc=False)
        bad = []
        for n in g.nodes:
            if n.id not in after or n.ast is None or n.kind == "branch":
                continue
            for root in node_exprs(n):
                for sub in walk_stmt_exprs(root):
                    s = cg.sites.get(id(sub))
                    if s is None:
                        continue
                    for t in s.targets:
                        if t.qual in touch:
                            bad.append((n, norm(sub)[:60], t.qual))
            if n.kind == "stmt" and any(st is n.ast for (st, _, _) in acc):
                bad.append((n, norm(n.ast)[:60], "direct"))
        if bad:
            for (n, txt, tq) in bad:
                ctx.r.violation(rid, key_of(f, None, "output-after-dequeue::" + txt),
                                "after %s the worker still reaches output state through %s (%s): the I/O thread may flush unlocked concurrently"
                                % (norm(r.ast), txt, tq), f.loc(n.ast))
        else:
            ctx.r.ok(rid, "no output-state access after %s" % norm(r.ast), f.loc(r.ast))


def rule_r3(ctx):
    rid = "C04.R3"
    ctx.r.rule(rid, "every mutation of the request queue and of the in-progress request slot holds the requests lock (exempt: constructor, cancel() at shutdown)")
    p = ctx.p
    lk = get_locks(p)
    chan = _chan(ctx)
    n = 0
    for attr in ("requests", "request"):
        for a in accesses(p, attr, [chan]):
            if a.kind not in ("write", "mutate", "del"):
                continue
            g = a.func
            while g.parent is not None:
                g = g.parent
            if g.cls is None or chan not in g.cls.mro:
                continue
            n += 1
            held = lk.held_at_stmt(a.func, a.stmt) if a.stmt is not None else frozenset()
            what = "%s of self.%s in %s" % (a.kind, attr, a.func.qual)
            if REQ_LOCK in held:
                ctx.r.ok(rid, what + " holds the requests lock", a.loc)
            elif a.func.name == "__init__":
                ctx.r.ok(rid, what + " (constructor)", a.loc)
            elif a.func.name == "cancel":
                ctx.r.ok(rid, what + " (shutdown: workers are joined or abandoned)", a.loc)
            else:
                ctx.r.violation(rid, key_of(a.func, a.stmt, "unlocked-queue"), what + " without the requests lock", a.loc)
    ctx.r.floor(rid, n, 6, "queue / slot mutations")


def _len_pred(tests, length):
    """Conjunction of the guards that mention self.requests, evaluated for a queue length."""
    val = True
    for (t, pol) in tests:
        v = None
        if dotted(t) == "self.requests":
            v = length > 0
        elif isinstance(t, ast.Compare) and len(t.ops) == 1:
            def is_len(x):
                return isinstance(x, ast.Call) and dotted(x.func) == "len" and len(x.args) == 1 and dotted(x.args[0]) == "self.requests"

            def const(x):
                return x.value if isinstance(x, ast.Constant) and isinstance(x.value, int) else None
            l, r = t.left, t.comparators[0]
            import operator as op
            ops = {ast.Eq: op.eq, ast.NotEq: op.ne, ast.Lt: op.lt, ast.LtE: op.le, ast.Gt: op.gt, ast.GtE: op.ge}
            o = ops.get(type(t.ops[0]))
            if o is not None:
                if is_len(l) and const(r) is not None:
                    v = o(length, const(r))
                elif is_len(r) and const(l) is not None:
                    v = o(const(l), length)
        if v is None:
            raise AnalysisError("cannot evaluate queue guard %s" % norm(t))
        val = val and (v == pol)
    return val


def rule_r4(ctx, rid="C04.R4"):
    ctx.r.rule(rid, "single dispatch: add_task(self) only under the requests lock; I/O side iff the queue length after the append is 1; worker side iff the length after the pop is >= 1")
    p = ctx.p
    cg = get_callgraph(p)
    lk = get_locks(p)
    chan = _chan(ctx)
    sites = []
    for f in p.functions.values():
        g0 = f
        while g0.parent is not None:
            g0 = g0.parent
        if g0.cls is None or chan not in g0.cls.mro:
            continue
        g = cfg_of(f)
        for n, c in find_calls(g, lambda c: any(t.qual.endswith(".add_task") for t in cg.callees(c))):
            sites.append((f, g, n, c))
    ctx.r.floor(rid, len(sites), 2, "dispatch sites")
    for (f, g, n, c) in sites:
        if not (c.args and dotted(c.args[0]) == "self"):
            ctx.r.violation(rid, key_of(f, c, "dispatch-arg"), "dispatches %s instead of the channel itself" % norm(c), f.loc(n.ast))
            continue
        st = lk.stmt_of_node(f, n)
        if REQ_LOCK not in lk.held_at_stmt(f, st):
            ctx.r.violation(rid, key_of(f, c, "dispatch-unlocked"), "add_task(self) outside the requests lock in %s" % f.qual, f.loc(n.ast))
            continue
        tests = [(t, pol) for (t, pol) in guards_of(g, n) if mentions(t, "self.requests")]
        # which mutation dominates the site?
        kind = None
        for m in g.nodes:
            if m.kind == "stmt" and g.dominates(m, n) and isinstance(m.ast, ast.Expr) and isinstance(m.ast.value, ast.Call):
                d = dotted(m.ast.value.func)
                if d == "self.requests.append":
                    kind = "append"
                elif d == "self.requests.pop":
                    kind = "pop"
        if kind is None:
            ctx.r.violation(rid, key_of(f, c, "dispatch-no-mutation"), "dispatch site not preceded by a queue append or pop", f.loc(n.ast))
            continue
        # only guards evaluated after the mutation count
        try:
            if kind == "append":
                got = {L: _len_pred(tests, L) for L in (1, 2, 3)}
                want = {1: True, 2: False, 3: False}
            else:
                got = {L: _len_pred(tests, L) for L in (0, 1, 2)}
                want = {0: False, 1: True, 2: True}
        except AnalysisError as e:
            ctx.r.error(rid, str(e))
            continue
        if got == want:
            ctx.r.ok(rid, "%s-side dispatch guard is exact on abstract queue lengths %s" % ("I/O" if kind == "append" else "worker", got), f.loc(n.ast))
        else:
            ctx.r.violation(rid, key_of(f, None, "dispatch-guard::" + kind),
                            "dispatch guard after %s evaluates to %s on queue lengths, expected %s (double or lost dispatch)" % (kind, got, want), f.loc(n.ast))


def rule_r5(ctx):
    rid = "C04.R5"
    ctx.r.rule(rid, "the worker serves the head of the queue and removes the head")
    p = ctx.p
    f = p.func("channel.HTTPChannel.service")
    g = cfg_of(f)
    heads = [n for n in g.nodes if n.kind == "stmt" and isinstance(n.ast, ast.Assign) and isinstance(n.ast.value, ast.Subscript)
             and dotted(n.ast.value.value) == "self.requests"]
    okhead = False
    for n in heads:
        sl = n.ast.value.slice
        if isinstance(sl, ast.Constant) and sl.value == 0:
            okhead = True
            ctx.r.ok(rid, "served request is requests[0]", f.loc(n.ast))
        else:
            ctx.r.violation(rid, key_of(f, n.ast, "not-head"), "service() takes %s, not the head of the queue" % norm(n.ast.value), f.loc(n.ast))
    if not heads:
        ctx.r.error(rid, "cannot find the statement that selects the request to serve")
    # task constructed from that variable
    for n, c in find_calls(g, lambda c: dotted(c.func) in ("self.requests.pop",)):
        if len(c.args) == 1 and isinstance(c.args[0], ast.Constant) and c.args[0].value == 0:
            ctx.r.ok(rid, "removal is pop(0)", f.loc(n.ast))
        else:
            ctx.r.violation(rid, key_of(f, None, "not-head-removal"), "service() removes %s, not the head" % norm(c), f.loc(n.ast))


def rule_r6(ctx):
    """Shared with C14.R4: the dispatcher hands tasks out in submission order."""
    from .c14 import rule_r4

    rule_r4(ctx, rid="C04.R6")


def rule_r7(ctx):
    """Shared with C17: no byte is duplicated or dropped inside the output buffers (representation invariant)."""
    from . import c17
    c17.rule_r1(ctx, rid="C04.R7")
    c17.rule_r3(ctx, rid="C04.R7")
    c17.rule_r4(ctx, rid="C04.R7")


def rule_r8(ctx, rid="C04.R8"):
    ctx.r.rule(rid, "flush accounting: what send() reports as written is what is skipped in the buffer, subtracted from the buffer's remaining length and from the pending-output counter - one quantity, used four times")
    p = ctx.p
    f = p.func("channel.HTTPChannel._flush_some")
    g = cfg_of(f)
    sends = [n for n in g.nodes if n.kind == "stmt" and isinstance(n.ast, ast.Assign) and isinstance(n.ast.value, ast.Call) and dotted(n.ast.value.func) == "self.send"
             and isinstance(n.ast.targets[0], ast.Name)]
    if len(sends) != 1:
        raise AnalysisError("_flush_some: expected exactly one `n = self.send(...)`, found %d" % len(sends))
    sn = sends[0]
    var = sn.ast.targets[0].id
    chunk = sn.ast.value.args[0] if sn.ast.value.args else None
    # the chunk sent is what the buffer yields (peek), and the skip consumes var bytes of the same buffer
    gets = [n for n in g.nodes if n.kind == "stmt" and isinstance(n.ast, ast.Assign) and isinstance(n.ast.value, ast.Call) and isinstance(n.ast.value.func, ast.Attribute)
            and n.ast.value.func.attr == "get" and chunk is not None and dotted(n.ast.targets[0]) == dotted(chunk)]
    buf = dotted(gets[0].ast.value.func.value) if gets else None
    skips = [(n, c) for n, c in find_calls(g, lambda c: isinstance(c.func, ast.Attribute) and c.func.attr == "skip" and dotted(c.func.value) == buf)]
    if gets and skips and all(c.args and dotted(c.args[0]) == var and g.dominates(sn, n) for n, c in skips) \
            and not any(len(gc.ast.value.args) > 1 or gc.ast.value.keywords for gc in gets):
        ctx.r.ok(rid, "the bytes offered are peeked from %s and exactly %s of them are skipped afterwards" % (buf, var), f.loc(skips[0][0].ast))
    else:
        ctx.r.violation(rid, key_of(f, None, "skip-amount"), "_flush_some does not skip exactly the number of bytes send() reported (%s)" % [norm(c)[:40] for _, c in skips], f.loc(sn.ast))
    # every counter that moves after the send moves by var
    n_aug = 0
    for n in g.nodes:
        if n.kind == "stmt" and isinstance(n.ast, ast.AugAssign) and g.dominates(sn, n) and n.id in g.reach(sn):
            n_aug += 1
            if isinstance(n.ast.value, ast.Name) and n.ast.value.id == var:
                ctx.r.ok(rid, "%s moves by the number of bytes sent" % norm(n.ast.target), f.loc(n.ast))
            else:
                ctx.r.violation(rid, key_of(f, n.ast.target, "counter-amount"),
                                "%s is moved by %s, not by the number of bytes send() reported (%s): after a partial send the buffer is taken for drained (or the backlog counter drifts)"
                                % (norm(n.ast.target), norm(n.ast.value), var), f.loc(n.ast))
    ctx.r.floor(rid, n_aug, 3, "counters updated after send()")
    # the updates happen only when something was sent
    for n in [x for x in g.nodes if x.kind == "stmt" and isinstance(x.ast, ast.AugAssign) and g.dominates(sn, x) and isinstance(x.ast.op, ast.Sub)]:
        if not any(pol and dotted(t) == var for (t, pol) in guards_of(g, n)):
            ctx.r.violation(rid, key_of(f, n.ast.target, "counter-unguarded"), "%s is decremented without `if %s:`" % (norm(n.ast.target), var), f.loc(n.ast))


def rule_r9(ctx):
    """Shared with C19.R3: the 100-continue latch is re-armed when a request completes - otherwise the next expecting
    request on the connection never gets its interim response and is never executed ('each executed exactly once')."""
    from . import c19
    c19.rule_r3(ctx, rid="C04.R9")


def rule_r10(ctx):
    """Shared with C03.R8 (the closing response is flushed completely before the teardown - 'no byte dropped') and
    C11.R2 (nothing is parsed or dispatched once the close decision fell - 'each executed exactly once ... answered')."""
    from . import c03, c11
    c03.rule_r8(ctx, rid="C04.R10")
    c11.rule_r2(ctx, rid="C04.R10")


def rule_r11(ctx, rid="C04.R11"):
    ctx.r.rule(rid, "line terminators between pipelined requests are not a request: in the head phase the parser marks itself completed only after parse_header ran, after storing an error, or after marking itself empty - the channel queues every completed parser that is not empty, and a parser with neither a head nor the mark would be executed and answered")
    p = ctx.p
    f = p.func("parser.HTTPRequestParser.received")
    g = cfg_of(f)
    stores = [n for n in g.nodes if n.kind == "stmt" and isinstance(n.ast, ast.Assign) and any(dotted(t) == "self.completed" for t in n.ast.targets) and isinstance(n.ast.value, ast.Constant) and n.ast.value.value is True]
    parses = [n for n, c in find_calls(g, lambda c: dotted(c.func) == "self.parse_header")]
    parses += [h for h in g.nodes if h.kind == "handler"]  # entered only from the try around parse_header
    # a refusal is a verdict too: the error task answers it (C06)
    parses += [n for n in g.nodes if n.kind == "stmt" and isinstance(n.ast, ast.Assign) and any(dotted(t) == "self.error" for t in n.ast.targets) and isinstance(n.ast.value, ast.Call)]
    empt = [n for n in g.nodes if n.kind == "stmt" and isinstance(n.ast, ast.Assign) and any(dotted(t) == "self.empty" for t in n.ast.targets) and isinstance(n.ast.value, ast.Constant) and n.ast.value.value is True]
    body = [b for b in g.nodes if b.kind == "branch" and isinstance(b.ast, ast.Compare) and dotted(b.ast.left) in ("br", "self.body_rcv") and isinstance(b.ast.comparators[0], ast.Constant) and b.ast.comparators[0].value is None
            and ((isinstance(b.ast.ops[0], ast.Is) and not b.polarity) or (isinstance(b.ast.ops[0], ast.IsNot) and b.polarity))]
    if not body:
        raise AnalysisError("anchor vanished: the head/body phase test of HTTPRequestParser.received")
    ctx.r.floor(rid, len(stores), 5, "completed = True stores in HTTPRequestParser.received")
    for n in stores:
        pth = g.path(g.entry, n, avoid=parses + empt + body, follow_exc=False)
        if pth is not None and g.path(n, g.exit, avoid=empt, follow_exc=False) is None:
            pth = None  # the empty mark follows on every way out: the caller sees both (it reads them after received() returned)
        if pth is None:
            ctx.r.ok(rid, "completed only after a parsed head, an empty mark, or in the body phase", f.loc(n.ast))
        else:
            ctx.r.violation(rid, key_of(f, None, "completed-without-head"), "the parser can mark itself completed with neither a parsed head nor the empty mark (%s): stray line terminators are queued as a request, executed and answered" % g.describe_path(pth), f.loc(n.ast))


def rule_r12(ctx):
    """Shared with C19.R4 (the interim response is appended to the LAST output buffer - the tail of the byte stream; anywhere else it lands inside an earlier response) and C09.R9 (a failure swallowed inside Task.service always ends the connection: otherwise the next pipelined response is written behind a truncated one)."""
    from . import c09, c19
    c19.rule_r4(ctx, rid="C04.R12")
    c09.rule_r9(ctx, rid="C04.R12")


def rule_r13(ctx):
    """Shared with C12.R3: 'never mixed / truncated only as a whole' - the teardown discards the unsent output and clears
    `connected` in ONE outbuf_lock region before it wakes a paused producer; were the flag cleared later, the producer would
    append its next piece behind discarded bytes on a socket that is still open (a response with a hole in it)."""
    from . import c12
    c12.rule_r3(ctx, rid="C04.R13")


RULES = [rule_r1, rule_r2, rule_r3, rule_r4, rule_r5, rule_r6, rule_r7, rule_r8, rule_r9, rule_r10, rule_r11, rule_r12, rule_r13]

from ..selftest import M, T, V  # noqa: E402

selftest = [
    M("empty-mark-dropped", "parser.py", "                if not header_plus:\n                    self.empty = True\n                    self.completed = True", "                if not header_plus:\n                    self.completed = True", "R11"),
    T("empty-mark-after-completed", "parser.py", "                if not header_plus:\n                    self.empty = True\n                    self.completed = True", "                if not header_plus:\n                    self.completed = True\n                    self.empty = True"),
    M("dispatch-ge-1", "channel.py", "if len(self.requests) == 1:", "if len(self.requests) >= 1:", "R4"),
    M("append-outside-lock", "channel.py", "            self.current_outbuf_count += num_bytes\n            self.total_outbufs_len += num_bytes\n            self.sent_continue = True", "            self.current_outbuf_count += num_bytes\n        self.total_outbufs_len += num_bytes\n        with self.outbuf_lock:\n            self.sent_continue = True", "R1"),
    M("write_soon-unlocked", "channel.py", "            with self.outbuf_lock:\n                self._flush_outbufs_below_high_watermark()\n", "            if True:\n                self._flush_outbufs_below_high_watermark()\n", "R1"),
    M("worker-helper-flush", "channel.py", "            if self.current_outbuf_count > 0:\n                self.current_outbuf_count = self.adj.outbuf_high_watermark\n", "            if self.current_outbuf_count > 0:\n                self.current_outbuf_count = self.adj.outbuf_high_watermark\n            self._flush_some(do_close=False)\n", "R1"),
    M("pop-tail", "channel.py", "                self.requests.pop(0)\n", "                self.requests.pop()\n", "R5"),
    M("append-unlocked", "channel.py", "        with self.requests_lock:\n            # Don't bother processing anymore data", "        if True:\n            # Don't bother processing anymore data", "R3"),
    M("continue-after-pop", "channel.py", "                    self.send_continue()\n\n                self.requests.pop(0)\n", "                    self.requests.pop(0)\n                    self.send_continue()\n                    return\n\n                self.requests.pop(0)\n", "R2"),
    M("fastpath-unguarded", "channel.py", "        if not self.requests:\n            # 1. There are no running tasks", "        if True:\n            # 1. There are no running tasks", "R1"),
    M("worker-dispatch-always", "channel.py", "                if self.connected and self.requests:\n                    self.server.add_task(self)", "                if self.connected:\n                    self.server.add_task(self)", "R4"),
    M("dispatch-outside-lock", "channel.py", "                self.requests.pop(0)\n\n                if self.connected and self.requests:\n                    self.server.add_task(self)", "                self.requests.pop(0)\n\n            if self.connected and self.requests:\n                self.server.add_task(self)", "R4"),
    M("serve-last", "channel.py", "        request = self.requests[0]\n", "        request = self.requests[-1]\n", "R5"),
    M("handle_close-unlocked", "channel.py", "        with self.outbuf_lock:\n            for outbuf in self.outbufs:", "        if True:\n            for outbuf in self.outbufs:", None),
    M("dispatcher-lifo", "task.py", "                task = self.queue.popleft()\n            try:", "                task = self.queue.pop()\n            try:", "R6"),
    T("with-to-acquire-release", "channel.py", "            with self.requests_lock:\n                self.close_when_flushed = True\n\n                for request in self.requests:\n                    request.close()\n                self.requests = []\n", "            self.requests_lock.acquire()\n            try:\n                self.close_when_flushed = True\n\n                for request in self.requests:\n                    request.close()\n                self.requests = []\n            finally:\n                self.requests_lock.release()\n"),
    T("dispatch-lt-2", "channel.py", "if len(self.requests) == 1:", "if len(self.requests) < 2:"),
    T("worker-dispatch-len", "channel.py", "                if self.connected and self.requests:\n                    self.server.add_task(self)", "                if self.connected and len(self.requests) > 0:\n                    self.server.add_task(self)"),
    T("rename-local", "channel.py", "            outbuf = self.outbufs[0]\n            # use outbuf.__len__ rather than len(outbuf) FBO of not getting\n            # OverflowError on 32-bit Python\n            outbuflen = outbuf.__len__()", "            outbuf = self.outbufs[0]\n            outbuflen = outbuf.__len__()"),
]
