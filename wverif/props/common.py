"""Helpers shared by the property modules."""
from __future__ import annotations

import ast

from ..cfg import cfg_of
from ..model import AnalysisError, dotted, norm, walk_stmt_exprs


class Ctx:
    def __init__(self, program, report, tier="quick"):
        self.p = program
        self.r = report
        self.tier = tier
        self.cache = {}

    def memo(self, key, fn):
        if key not in self.cache:
            self.cache[key] = fn()
        return self.cache[key]


def key_of(func, node=None, extra=""):
    """Position-independent construct key."""
    k = func.qual if hasattr(func, "qual") else str(func)
    if node is not None:
        txt = norm(node).split("\n")[0]
        k += "::" + txt[:120]
    if extra:
        k += "::" + extra
    return k


def calls_in(node):
    for n in walk_stmt_exprs(node):
        if isinstance(n, ast.Call):
            yield n


def stmt_nodes(cfg, pred=None):
    for n in cfg.nodes:
        if n.kind == "stmt" and n.id in cfg.reachable_nodes():
            if pred is None or pred(n):
                yield n


def cfg_nodes_with_ast(cfg):
    """CFG nodes carrying an AST payload whose expressions are evaluated there."""
    reach = cfg.reachable_nodes()
    for n in cfg.nodes:
        if n.id in reach and n.ast is not None and n.kind in ("stmt", "test", "iter", "with_enter"):
            yield n


def node_exprs(n):
    """Expression roots evaluated at CFG node n."""
    a = n.ast
    if n.kind == "iter":
        return [a.target]
    if n.kind == "with_enter":
        return [i.context_expr for i in a.items]
    if n.kind in ("test", "branch"):
        return [a]
    if isinstance(a, ast.expr):
        return [a]
    return [a]


def find_calls(cfg, pred):
    """[(cfg node, Call)] for calls satisfying pred(call)."""
    out = []
    for n in cfg_nodes_with_ast(cfg):
        for root in node_exprs(n):
            for c in calls_in(root):
                if pred(c):
                    out.append((n, c))
    return out


def is_method_call(call, name, recv=None):
    f = call.func
    if isinstance(f, ast.Attribute) and f.attr == name:
        if recv is None:
            return True
        return dotted(f.value) == recv
    return False


def leads_only_to_raise(cfg, node):
    """Every path from node leaves the function exceptionally (no path to the
    normal exit)."""
    r = cfg.reach(node)
    return cfg.exit.id not in r


def raises_in(cfg, start, exc_names=None):
    out = []
    ids = cfg.reach(start) | {start.id}
    for n in cfg.nodes:
        if n.id in ids and n.kind == "stmt" and isinstance(n.ast, ast.Raise):
            out.append(n)
    return out


def assigned_names(target):
    if isinstance(target, ast.Name):
        return [target.id]
    if isinstance(target, (ast.Tuple, ast.List)):
        out = []
        for e in target.elts:
            out.extend(assigned_names(e))
        return out
    if isinstance(target, ast.Starred):
        return assigned_names(target.value)
    return []


def def_nodes(cfg, name):
    """CFG nodes that (re)bind local `name`."""
    out = []
    for n in cfg.nodes:
        a = n.ast
        if n.kind == "stmt":
            if isinstance(a, ast.Assign):
                for t in a.targets:
                    if name in assigned_names(t):
                        out.append(n)
            elif isinstance(a, (ast.AugAssign, ast.AnnAssign)):
                if name in assigned_names(a.target):
                    out.append(n)
            elif isinstance(a, (ast.FunctionDef, ast.ClassDef)) and a.name == name:
                out.append(n)
        elif n.kind == "iter":
            if name in assigned_names(a.target):
                out.append(n)
        elif n.kind == "with_enter":
            for i in a.items:
                if i.optional_vars is not None and name in assigned_names(i.optional_vars):
                    out.append(n)
        elif n.kind == "handler":
            if a.name == name:
                out.append(n)
    return out


def expect(cond, msg):
    if not cond:
        raise AnalysisError(msg)


# ----------------------------------------------------------------------
# boolean structure of an expression over opaque atoms

def bool_atoms(expr):
    """Atoms (maximal non-boolean sub-expressions) of a boolean expression."""
    out = []

    def rec(e):
        if isinstance(e, ast.BoolOp):
            for v in e.values:
                rec(v)
        elif isinstance(e, ast.UnaryOp) and isinstance(e.op, ast.Not):
            rec(e.operand)
        else:
            t = norm(e)
            if t not in out:
                out.append(t)

    rec(expr)
    return out


def bool_eval(expr, assignment):
    """Evaluate boolean expression with atoms valued by assignment {norm text: bool}."""
    if isinstance(expr, ast.BoolOp):
        vals = [bool_eval(v, assignment) for v in expr.values]
        return all(vals) if isinstance(expr.op, ast.And) else any(vals)
    if isinstance(expr, ast.UnaryOp) and isinstance(expr.op, ast.Not):
        return not bool_eval(expr.operand, assignment)
    return assignment[norm(expr)]


def mentions(expr, dotted_name):
    for n in ast.walk(expr):
        if isinstance(n, (ast.Attribute, ast.Name)) and dotted(n) == dotted_name:
            return True
    return False


def mentions_attr(expr, attr):
    for n in ast.walk(expr):
        if isinstance(n, ast.Attribute) and n.attr == attr:
            return True
    return False


def guards_of(cfg, node):
    """[(test expr, polarity)] dominating node."""
    return [(t, pol) for (t, pol, _) in cfg.guards(node)]


def guard_holds(cfg, node, pred, polarity):
    """Some dominating guard satisfies pred(expr) with the given polarity."""
    for (t, pol) in guards_of(cfg, node):
        if pol == polarity and pred(t):
            return True
    return False


_CMP = {ast.Lt: lambda a, b: a < b, ast.LtE: lambda a, b: a <= b, ast.Gt: lambda a, b: a > b,
        ast.GtE: lambda a, b: a >= b, ast.Eq: lambda a, b: a == b, ast.NotEq: lambda a, b: a != b}


def eval_compare_on(expr, left_pred, right_pred, a, b):
    """Evaluate comparison `expr` (single op) whose sides are recognised by the
    predicates, with the left quantity = a and right quantity = b. Returns
    bool or None if not recognised."""
    if not (isinstance(expr, ast.Compare) and len(expr.ops) == 1):
        return None
    op = type(expr.ops[0])
    if op not in _CMP:
        return None
    l, r = expr.left, expr.comparators[0]
    if left_pred(l) and right_pred(r):
        return _CMP[op](a, b)
    if left_pred(r) and right_pred(l):
        return _CMP[op](b, a)
    return None


def stmts_between_same_block(func, a_stmt, b_stmt):
    return None
