"""Helpers shared by the property modules."""
from __future__ import annotations

import ast

from ..cfg import cfg_of
from ..model import AnalysisError, dotted, norm, walk_own, walk_stmt_exprs


class Ctx:
    def __init__(self, program, report, tier="quick"):
        self.p = program
        self.r = report
        self.tier = tier
        self.cache = {}

    def memo(self, key, fn):
        if key not in self.cache:
            self.cache[key] = fn()
        return self.cache[key]


def key_of(func, node=None, extra=""):
    """Position-independent construct key."""
    k = func.qual if hasattr(func, "qual") else str(func)
    if node is not None:
        txt = norm(node).split("\n")[0]
        k += "::" + txt[:120]
    if extra:
        k += "::" + extra
    return k


def calls_in(node):
    for n in walk_stmt_exprs(node):
        if isinstance(n, ast.Call):
            yield n


def stmt_nodes(cfg, pred=None):
    for n in cfg.nodes:
        if n.kind == "stmt" and n.id in cfg.reachable_nodes():
            if pred is None or pred(n):
                yield n


def cfg_nodes_with_ast(cfg):
    """CFG nodes carrying an AST payload whose expressions are evaluated there."""
    reach = cfg.reachable_nodes()
    for n in cfg.nodes:
        if n.id in reach and n.ast is not None and n.kind in ("stmt", "test", "iter", "with_enter"):
            yield n


def node_exprs(n):
    """Expression roots evaluated at CFG node n."""
    a = n.ast
    if n.kind == "iter":
        return [a.target]
    if n.kind == "with_enter":
        return [i.context_expr for i in a.items]
    if n.kind in ("test", "branch"):
        return [a]
    if isinstance(a, ast.expr):
        return [a]
    return [a]


def find_calls(cfg, pred):
    """[(cfg node, Call)] for calls satisfying pred(call)."""
    out = []
    for n in cfg_nodes_with_ast(cfg):
        for root in node_exprs(n):
            for c in calls_in(root):
                if pred(c):
                    out.append((n, c))
    return out


def is_method_call(call, name, recv=None):
    f = call.func
    if isinstance(f, ast.Attribute) and f.attr == name:
        if recv is None:
            return True
        return dotted(f.value) == recv
    return False


def leads_only_to_raise(cfg, node):
    """Every path from node leaves the function exceptionally (no path to the
    normal exit)."""
    r = cfg.reach(node)
    return cfg.exit.id not in r


def raises_in(cfg, start, exc_names=None):
    out = []
    ids = cfg.reach(start) | {start.id}
    for n in cfg.nodes:
        if n.id in ids and n.kind == "stmt" and isinstance(n.ast, ast.Raise):
            out.append(n)
    return out


def assigned_names(target):
    if isinstance(target, ast.Name):
        return [target.id]
    if isinstance(target, (ast.Tuple, ast.List)):
        out = []
        for e in target.elts:
            out.extend(assigned_names(e))
        return out
    if isinstance(target, ast.Starred):
        return assigned_names(target.value)
    return []


def def_nodes(cfg, name):
    """CFG nodes that (re)bind local `name`."""
    out = []
    for n in cfg.nodes:
        a = n.ast
        if n.kind == "stmt":
            if isinstance(a, ast.Assign):
                for t in a.targets:
                    if name in assigned_names(t):
                        out.append(n)
            elif isinstance(a, (ast.AugAssign, ast.AnnAssign)):
                if name in assigned_names(a.target):
                    out.append(n)
            elif isinstance(a, (ast.FunctionDef, ast.ClassDef)) and a.name == name:
                out.append(n)
        elif n.kind == "iter":
            if name in assigned_names(a.target):
                out.append(n)
        elif n.kind == "with_enter":
            for i in a.items:
                if i.optional_vars is not None and name in assigned_names(i.optional_vars):
                    out.append(n)
        elif n.kind == "handler":
            if a.name == name:
                out.append(n)
    return out


def expect(cond, msg):
    if not cond:
        raise AnalysisError(msg)


# ----------------------------------------------------------------------
# boolean structure of an expression over opaque atoms

def bool_atoms(expr):
    """Atoms (maximal non-boolean sub-expressions) of a boolean expression."""
    out = []

    def rec(e):
        if isinstance(e, ast.BoolOp):
            for v in e.values:
                rec(v)
        elif isinstance(e, ast.UnaryOp) and isinstance(e.op, ast.Not):
            rec(e.operand)
        else:
            t = norm(e)
            if t not in out:
                out.append(t)

    rec(expr)
    return out


def bool_eval(expr, assignment):
    """Evaluate boolean expression with atoms valued by assignment {norm text: bool}."""
    if isinstance(expr, ast.BoolOp):
        vals = [bool_eval(v, assignment) for v in expr.values]
        return all(vals) if isinstance(expr.op, ast.And) else any(vals)
    if isinstance(expr, ast.UnaryOp) and isinstance(expr.op, ast.Not):
        return not bool_eval(expr.operand, assignment)
    return assignment[norm(expr)]


def mentions(expr, dotted_name):
    for n in ast.walk(expr):
        if isinstance(n, (ast.Attribute, ast.Name)) and dotted(n) == dotted_name:
            return True
    return False


def mentions_attr(expr, attr):
    for n in ast.walk(expr):
        if isinstance(n, ast.Attribute) and n.attr == attr:
            return True
    return False


def guards_of(cfg, node):
    """[(test expr, polarity)] dominating node."""
    return [(t, pol) for (t, pol, _) in cfg.guards(node)]


def guard_holds(cfg, node, pred, polarity):
    """Some dominating guard satisfies pred(expr) with the given polarity."""
    for (t, pol) in guards_of(cfg, node):
        if pol == polarity and pred(t):
            return True
    return False


_CMP = {ast.Lt: lambda a, b: a < b, ast.LtE: lambda a, b: a <= b, ast.Gt: lambda a, b: a > b,
        ast.GtE: lambda a, b: a >= b, ast.Eq: lambda a, b: a == b, ast.NotEq: lambda a, b: a != b}


def eval_compare_on(expr, left_pred, right_pred, a, b):
    """Evaluate comparison `expr` (single op) whose sides are recognised by the
    predicates, with the left quantity = a and right quantity = b. Returns
    bool or None if not recognised."""
    if not (isinstance(expr, ast.Compare) and len(expr.ops) == 1):
        return None
    op = type(expr.ops[0])
    if op not in _CMP:
        return None
    l, r = expr.left, expr.comparators[0]
    if left_pred(l) and right_pred(r):
        return _CMP[op](a, b)
    if left_pred(r) and right_pred(l):
        return _CMP[op](b, a)
    return None


def stmts_between_same_block(func, a_stmt, b_stmt):
    return None


def local_derives_from_call(func, name, call_pred, _seen=None):
    """Is local `name` falsy unless a value produced by a call satisfying
    call_pred reached it?  Every binding of `name` must be a falsy constant,
    the call itself, another such local, or an accumulation (`+=`, `a + b`,
    `a or b`) of such values -- and at least one binding must involve the call.
    Independent of how the local is spelled."""
    _seen = _seen if _seen is not None else set()
    if name in _seen:
        return None
    _seen.add(name)

    def val(e):
        # True: derives from the call; None: neutral (falsy const); False: foreign
        if isinstance(e, ast.Constant):
            return None if not e.value else False
        if isinstance(e, ast.Call) and isinstance(e.func, ast.Name) and e.func.id in ("bool", "int", "abs") and len(e.args) == 1 and not e.keywords:
            return val(e.args[0])
        if isinstance(e, ast.Call):
            return True if call_pred(e) else False
        if isinstance(e, ast.Name):
            if e.id == name:
                return None
            return local_derives_from_call(func, e.id, call_pred, _seen)
        if isinstance(e, ast.BinOp) and isinstance(e.op, ast.Add):
            a, b = val(e.left), val(e.right)
            if a is False or b is False:
                return False
            return True if (a or b) else None
        if isinstance(e, ast.BoolOp):
            vs = [val(v) for v in e.values]
            if any(v is False for v in vs):
                return False
            return True if any(vs) else None
        return False

    got = False
    nbind = 0
    for n in walk_own(func.node):
        v = None
        if isinstance(n, ast.Assign) and any(name in assigned_names(t) for t in n.targets):
            if len(n.targets) == 1 and isinstance(n.targets[0], ast.Tuple) and isinstance(n.value, ast.Tuple) and len(n.targets[0].elts) == len(n.value.elts) \
                    and all(isinstance(t, ast.Name) for t in n.targets[0].elts):
                # a, b = x, y : element-wise
                v = None
                for t, e in zip(n.targets[0].elts, n.value.elts):
                    if t.id == name:
                        v = val(e)
            elif not all(isinstance(t, ast.Name) for t in n.targets):
                return False
            else:
                v = val(n.value)
        elif isinstance(n, ast.AugAssign) and isinstance(n.target, ast.Name) and n.target.id == name:
            if not isinstance(n.op, ast.Add):
                return False
            v = val(n.value)
        elif isinstance(n, (ast.For, ast.comprehension)) and name in assigned_names(n.target):
            return False
        elif isinstance(n, ast.NamedExpr) and n.target.id == name:
            v = val(n.value)
        else:
            continue
        nbind += 1
        if v is False:
            return False
        if v:
            got = True
    if name in [a.arg for a in func.node.args.args]:
        return False
    return True if (got and nbind) else (None if nbind else False)


def tail_is(expr, *names):
    """expr is the attribute chain / name `name`, possibly reached through a
    longer chain (`headers` ~ `self.headers`): rules are handed functions in
    normal form, where stable aliases are replaced by the chain they stand for,
    and must accept either spelling."""
    d = dotted(expr) if not isinstance(expr, str) else expr
    if d is None:
        return False
    return any(d == n or d.endswith("." + n) for n in names)


def text_matches(actual, expected):
    """Normalised expression text `actual` equals `expected` up to a longer
    receiver chain in front of each name chain of `expected`
    (`str(server.effective_port)` ~ `str(self.channel.server.effective_port)`)."""
    import re
    out = []
    pos = 0
    for m in re.finditer(r"(?<![\w.'\"])[A-Za-z_][\w]*(?:\.[A-Za-z_]\w*)*", expected):
        out.append(re.escape(expected[pos:m.start()]))
        pre = expected[:m.start()]
        if pre.count("'") % 2 == 1 or pre.count('"') % 2 == 1:
            out.append(re.escape(m.group(0)))  # inside a string literal
        else:
            out.append(r"(?:[A-Za-z_][\w.]*\.)?" + re.escape(m.group(0)))
        pos = m.end()
    out.append(re.escape(expected[pos:]))
    return re.fullmatch("".join(out), actual) is not None


_NEG = {ast.NotIn: "in", ast.NotEq: "==", ast.IsNot: "is"}
_POS = {ast.In: "in", ast.Eq: "==", ast.Is: "is", ast.Lt: "<", ast.LtE: "<=", ast.Gt: ">", ast.GtE: ">="}


def cmp_fact(t, pol=True):
    """(op, left text, right text, truth) of a single comparison known to have
    outcome `pol`, with `not in` / `!=` / `is not` folded into the truth value
    (the CFG presents branches in this canonical polarity already; this also
    canonicalises comparisons taken from the AST).  None if t is not a single
    comparison."""
    if not (isinstance(t, ast.Compare) and len(t.ops) == 1):
        return None
    o = type(t.ops[0])
    if o in _NEG:
        return (_NEG[o], norm(t.left), norm(t.comparators[0]), not pol)
    if o in _POS:
        return (_POS[o], norm(t.left), norm(t.comparators[0]), bool(pol))
    return None


_ORD_NEG = {ast.GtE: ast.Lt, ast.Gt: ast.LtE, ast.LtE: ast.Gt, ast.Lt: ast.GtE}
_ORD_MIRROR = {ast.GtE: ast.LtE, ast.Gt: ast.Lt, ast.LtE: ast.GtE, ast.Lt: ast.Gt}
_ORD_SYM = {">=": ast.GtE, ">": ast.Gt, "<=": ast.LtE, "<": ast.Lt}


def order_fact(t, pol, rel, is_a, is_b):
    """Does `t` having outcome `pol` say  a <rel> b  (rel in >=, >, <=, <) for integers a, b recognised by the predicates
    is_a / is_b - written either way round, possibly as the false outcome of the complementary comparison?"""
    if not (isinstance(t, ast.Compare) and len(t.ops) == 1 and type(t.ops[0]) in _ORD_NEG):
        return False
    o = type(t.ops[0])
    if not pol:
        o = _ORD_NEG[o]
    l, r = t.left, t.comparators[0]
    want = _ORD_SYM[rel]
    if is_a(l) and is_b(r):
        return o is want
    if is_a(r) and is_b(l):
        return _ORD_MIRROR[o] is want
    return False


def startswith_fact(t, pol, is_subject, const):
    """Does test `t` with outcome `pol` say that the subject starts with the constant `const` - as `x.startswith(c)` or
    as the slice comparison `x[:len(c)] == c` (either side)?  Returns True (it does), False (it says it does not), None."""
    if isinstance(t, ast.Call) and isinstance(t.func, ast.Attribute) and t.func.attr == "startswith" and is_subject(t.func.value) and len(t.args) == 1 \
            and isinstance(t.args[0], ast.Constant) and t.args[0].value == const:
        return bool(pol)
    if isinstance(t, ast.Compare) and len(t.ops) == 1 and isinstance(t.ops[0], ast.Eq):
        for a0, b0 in ((t.left, t.comparators[0]), (t.comparators[0], t.left)):
            if isinstance(a0, ast.Subscript) and is_subject(a0.value) and isinstance(a0.slice, ast.Slice) and a0.slice.lower is None and a0.slice.step is None \
                    and isinstance(a0.slice.upper, ast.Constant) and a0.slice.upper.value == len(const) and isinstance(b0, ast.Constant) and b0.value == const:
                return bool(pol)
    return None


def str_template(e):
    """A string-building expression as a list of parts: literal text (str) and
    holes ('hole', expr text, conversion).  `'%s: %s' % (a, b)`, `f'{a}: {b}'`,
    `'{}: {}'.format(a, b)` and `a + ': ' + b` all give [hole a, ': ', hole b].
    None if e is not recognised as such."""
    import re
    if isinstance(e, ast.Constant) and isinstance(e.value, str):
        return [e.value] if e.value else []
    if isinstance(e, ast.JoinedStr):
        out = []
        for v in e.values:
            if isinstance(v, ast.Constant):
                out.append(v.value)
            elif isinstance(v, ast.FormattedValue):
                if v.format_spec is not None:
                    return None
                out.append(("hole", norm(v.value), {-1: "s", 115: "s", 114: "r", 97: "a"}.get(v.conversion, "?")))
        return _merge(out)
    if isinstance(e, ast.BinOp) and isinstance(e.op, ast.Add):
        a, b = str_template(e.left), str_template(e.right)
        if a is None and b is None:
            return None
        a = a if a is not None else [("hole", norm(e.left), "s")]
        b = b if b is not None else [("hole", norm(e.right), "s")]
        return _merge(a + b)
    if isinstance(e, ast.BinOp) and isinstance(e.op, ast.Mod) and isinstance(e.left, ast.Constant) and isinstance(e.left.value, str):
        fmt = e.left.value
        specs = list(re.finditer(r"%(?:(%)|([sdr]))", fmt))
        if len(re.findall(r"%", fmt)) != sum(2 if m.group(1) else 1 for m in specs):
            return None
        holes = [m for m in specs if not m.group(1)]
        if isinstance(e.right, ast.Tuple):
            args = [norm(x) for x in e.right.elts]
            if len(args) != len(holes):
                return None
        elif len(holes) == 1:
            args = [norm(e.right)]
        else:
            args = ["%s[%d]" % (norm(e.right), i) for i in range(len(holes))]
        out, pos, k = [], 0, 0
        for m in specs:
            out.append(fmt[pos:m.start()])
            if m.group(1):
                out.append("%")
            else:
                out.append(("hole", args[k], "r" if m.group(2) == "r" else "s"))
                k += 1
            pos = m.end()
        out.append(fmt[pos:])
        return _merge(out)
    if isinstance(e, ast.Call) and isinstance(e.func, ast.Attribute) and e.func.attr == "format" and isinstance(e.func.value, ast.Constant) \
            and isinstance(e.func.value.value, str) and not e.keywords:
        fmt = e.func.value.value
        out, pos, k = [], 0, 0
        for m in re.finditer(r"\{\{|\}\}|\{(\d*)(![rsa])?\}", fmt):
            out.append(fmt[pos:m.start()])
            if m.group(0) in ("{{", "}}"):
                out.append(m.group(0)[0])
            else:
                idx = int(m.group(1)) if m.group(1) else k
                k += 1
                if idx >= len(e.args):
                    return None
                out.append(("hole", norm(e.args[idx]), (m.group(2) or "!s")[1]))
            pos = m.end()
        out.append(fmt[pos:])
        if "{" in "".join(x for x in out if isinstance(x, str) and x not in ("{", "}")) and False:
            return None
        return _merge(out)
    return None


def _merge(parts):
    out = []
    for p in parts:
        if isinstance(p, str):
            if not p:
                continue
            if out and isinstance(out[-1], str):
                out[-1] += p
            else:
                out.append(p)
        else:
            out.append(p)
    return out


def template_text(parts, names=True):
    """'HTTP/{self.version}' (names=True) or 'HTTP/{}' for a part list."""
    if parts is None:
        return None
    return "".join(p if isinstance(p, str) else ("{%s%s}" % (p[1], "" if p[2] == "s" else "!" + p[2]) if names else "{}") for p in parts)


def with_private_helpers(p, cg, f, depth=3):
    """[f and the private (underscore) functions of the same module it reaches through calls]: for rules of the
    form 'somewhere in this method X happens', which must not depend on X sitting in the method itself rather than in
    a private helper (call positions the normal form cannot inline, e.g. a helper called inside a test)."""
    out, seen, frontier = [f], {f.qual}, [f]
    for _ in range(depth):
        nxt = []
        for g in frontier:
            for c in ast.walk(g.node):
                if isinstance(c, ast.Call):
                    for t in cg.callees(c):
                        if t.qual not in seen and t.module is f.module and t.name.startswith("_") and not t.name.startswith("__"):
                            seen.add(t.qual)
                            out.append(t)
                            nxt.append(t)
        frontier = nxt
    return out


def formula_leaves(e):
    """Maximal sub-expressions of a boolean/arithmetical formula that are not
    and/or/not/comparison/constant/+/-: the quantities it speaks about."""
    out = []

    def rec(x):
        if isinstance(x, ast.BoolOp):
            for v in x.values:
                rec(v)
        elif isinstance(x, ast.UnaryOp) and isinstance(x.op, (ast.Not, ast.USub)):
            rec(x.operand)
        elif isinstance(x, ast.Compare):
            rec(x.left)
            for c in x.comparators:
                rec(c)
        elif isinstance(x, ast.BinOp) and isinstance(x.op, (ast.Add, ast.Sub)):
            rec(x.left)
            rec(x.right)
        elif isinstance(x, ast.IfExp):
            rec(x.test)
            rec(x.body)
            rec(x.orelse)
        elif isinstance(x, ast.Constant):
            pass
        elif isinstance(x, (ast.Tuple, ast.List, ast.Set)):
            for y in x.elts:
                rec(y)
        else:
            t = norm(x)
            if t not in out:
                out.append(t)
    rec(e)
    return out


def formula_eval(e, env):
    """Value of a formula under env {leaf text: python value} with Python's own
    semantics for and/or/not/comparison chains/+/-."""
    import operator as op
    ops = {ast.Eq: op.eq, ast.NotEq: op.ne, ast.Lt: op.lt, ast.LtE: op.le, ast.Gt: op.gt, ast.GtE: op.ge,
           ast.Is: op.is_, ast.IsNot: op.is_not, ast.In: lambda a, b: a in b, ast.NotIn: lambda a, b: a not in b}
    if isinstance(e, ast.BoolOp):
        v = None
        for x in e.values:
            v = formula_eval(x, env)
            if isinstance(e.op, ast.And) and not v:
                return v
            if isinstance(e.op, ast.Or) and v:
                return v
        return v
    if isinstance(e, ast.UnaryOp) and isinstance(e.op, ast.Not):
        return not formula_eval(e.operand, env)
    if isinstance(e, ast.UnaryOp) and isinstance(e.op, ast.USub):
        return -formula_eval(e.operand, env)
    if isinstance(e, ast.Compare):
        left = formula_eval(e.left, env)
        for o, c in zip(e.ops, e.comparators):
            right = formula_eval(c, env)
            if not ops[type(o)](left, right):
                return False
            left = right
        return True
    if isinstance(e, ast.BinOp) and isinstance(e.op, (ast.Add, ast.Sub)):
        a, b = formula_eval(e.left, env), formula_eval(e.right, env)
        return a + b if isinstance(e.op, ast.Add) else a - b
    if isinstance(e, ast.IfExp):
        return formula_eval(e.body, env) if formula_eval(e.test, env) else formula_eval(e.orelse, env)
    if isinstance(e, ast.Constant):
        return e.value
    if isinstance(e, (ast.Tuple, ast.List, ast.Set)) and norm(e) not in env:
        return tuple(formula_eval(x, env) for x in e.elts)
    return env[norm(e)]


def resolve_locals(f, expr, depth=5):
    """expr with locals that are bound exactly once in f (by `name = <expr>`)
    replaced by what they were bound to, transitively: what a value is derived
    from, independent of how many intermediate locals the code uses.  (For
    'is bound to / derives from' rules only: the binding is evaluated earlier
    than the use, so rules about *when* something is read must not use this.)"""
    import copy
    binds, vals = {}, {}
    for n in walk_own(f.node):
        if isinstance(n, ast.Name) and isinstance(n.ctx, (ast.Store, ast.Del)):
            binds[n.id] = binds.get(n.id, 0) + 1
        if isinstance(n, ast.Assign) and len(n.targets) == 1 and isinstance(n.targets[0], ast.Name):
            vals[n.targets[0].id] = n.value
    for a in f.params + f.kwonly:
        binds[a] = binds.get(a, 0) + 2

    class S(ast.NodeTransformer):
        def __init__(self, d):
            self.d = d

        def visit_Name(self, node):
            if isinstance(node.ctx, ast.Load) and binds.get(node.id) == 1 and node.id in vals and self.d > 0:
                return S(self.d - 1).visit(copy.deepcopy(vals[node.id]))
            return node
    return S(depth).visit(copy.deepcopy(expr))


def return_expression(func):
    """The value of a function whose body only decides what to return, as one
    expression: `return E`, or a sequence of `if T: return X` (with or without
    else) ending in a return, folded into nested conditional expressions.
    None if the body does anything else."""
    body = [s for s in func.node.body if not (isinstance(s, ast.Expr) and isinstance(s.value, ast.Constant))]

    def fold(stmts):
        if not stmts:
            return None
        s, rest = stmts[0], stmts[1:]
        if isinstance(s, ast.Return):
            return s.value if s.value is not None else ast.Constant(value=None)
        if isinstance(s, ast.If):
            a = fold(s.body + ([] if _always_returns(s.body) else rest))
            b = fold((s.orelse or []) + ([] if (s.orelse and _always_returns(s.orelse)) else rest))
            if a is None or b is None:
                return None
            return ast.copy_location(ast.IfExp(test=s.test, body=a, orelse=b), s)
        return None
    return fold(body)


def _always_returns(stmts):
    if not stmts:
        return False
    s = stmts[-1]
    if isinstance(s, ast.Return):
        return True
    if isinstance(s, ast.If):
        return _always_returns(s.body) and bool(s.orelse) and _always_returns(s.orelse)
    return False
