"""C05 — no lost wake-up: publish => wake on all paths, sleepers re-test."""
from __future__ import annotations

import ast
import itertools

from ..callgraph import get_callgraph
from ..cfg import cfg_of
from ..locks import get_locks
from ..model import AnalysisError, dotted, norm
from .common import bool_atoms, bool_eval, find_calls, guards_of, key_of, mentions, mentions_attr, with_private_helpers

EXPLANATION = (
    "Static 'publish => wake' analysis on all CFG paths: every normal path through the worker's service() ends with a "
    "call that reaches the trigger's physical pull unless the path established 'not connected'; every wait on the "
    "output condition is immediately preceded by a pull; after appending output write_soon pulls whenever the flush "
    "failed, sent nothing or left >= send_bytes pending (boolean function of the extracted guard, all assignments); "
    "the I/O-side notifies exist; writable()/readable() mention every flag a worker can publish (truth tables); the "
    "trigger dispatcher is always readable, drains in handle_read, is registered in the server's map and pull_trigger "
    "reaches the pipe write on all paths; the worker pool notifies after every enqueue and waits in re-testing loops. "
    "Liveness itself (eventual delivery) is a temporal property of the thread product and is not decided."
)

OUT_LOCK = "HTTPChannel.outbuf_lock"


def _pull_nodes(ctx, g):
    cg = get_callgraph(ctx.p)
    return [n for n, c in find_calls(g, lambda c: any(t.qual.endswith("pull_trigger") for t in cg.callees(c)))]


def rule_r1(ctx):
    rid = "C05.R1"
    ctx.r.rule(rid, "every normal path through service() ends with a trigger pull unless it established 'not connected'")
    p = ctx.p
    f = p.func("channel.HTTPChannel.service")
    g = cfg_of(f)
    pulls = _pull_nodes(ctx, g)
    # pulls that are not followed by further publishing: the *last* pull on each path. We require that from entry, no
    # normal path reaches exit avoiding {pull nodes, branch(self.connected == False)}.
    notconn = [n for n in g.nodes if n.kind == "branch" and n.polarity is False and dotted(n.ast) == "self.connected"]
    # only the tail test counts: a 'not connected' branch must be *after* all publishing statements; approximate by
    # requiring the branch node to post-date the task execution: it must not dominate the task call
    cg = get_callgraph(p)
    execs = [n for n, c in find_calls(g, lambda c: any(t.qual == "task.Task.service" for t in cg.callees(c)))]
    tail_notconn = [b for b in notconn if not any(g.dominates(b, e) for e in execs) and not any(g.path(b, e, follow_exc=False) for e in execs)]
    tail_pulls = [n for n in pulls if not any(g.path(n, e, follow_exc=False) for e in execs)]
    path = g.path(g.entry, g.exit, avoid=tail_pulls + tail_notconn, follow_exc=False)
    if path is None and tail_pulls:
        ctx.r.ok(rid, "all normal paths of service() pass the tail wake-up (or the not-connected branch)", f.loc(tail_pulls[0].ast))
    else:
        ctx.r.violation(rid, key_of(f, None, "service-path-without-pull"),
                        "a normal path through service() returns without waking the I/O loop: %s" % (g.describe_path(path) if path else "no tail pull at all"), f.loc())
    # nothing is published after the last pull (stores of close flags / appends after it)
    for n in tail_pulls:
        after = g.reach(n, follow_exc=False)
        late = [m for m in g.nodes if m.id in after and m.kind == "stmt" and isinstance(m.ast, (ast.Assign, ast.AugAssign))
                and any(mentions_attr(m.ast, a) for a in ("close_when_flushed", "will_close", "total_outbufs_len"))
                and not isinstance(getattr(m.ast, "value", None), type(None)) and any(
                    isinstance(t, ast.Attribute) and t.attr in ("close_when_flushed", "will_close", "total_outbufs_len")
                    for t in (m.ast.targets if isinstance(m.ast, ast.Assign) else [m.ast.target]))]
        if late:
            ctx.r.violation(rid, key_of(f, late[0].ast, "publish-after-pull"), "service() publishes %s after its last wake-up" % norm(late[0].ast), f.loc(late[0].ast))
        else:
            ctx.r.ok(rid, "nothing is published after the tail wake-up", f.loc(n.ast))


def rule_r2(ctx):
    """Shared with C12.R5: every wait on the output condition is immediately preceded by a trigger pull."""
    from .c12 import rule_r5

    rule_r5(ctx, rid="C05.R2")


def rule_r5(ctx):
    """Shared with C12.R2/R3: I/O-side notifications (below the mark; unconditionally on teardown)."""
    from .c12 import rule_r2 as c12r2, rule_r3 as c12r3

    c12r2(ctx, rid="C05.R5a")
    c12r3(ctx, rid="C05.R5b")


def rule_r3(ctx):
    rid = "C05.R3"
    ctx.r.rule(rid, "write_soon: after appending, the trigger is pulled whenever the flush raised, sent nothing or left >= send_bytes pending")
    p = ctx.p
    f = p.func("channel.HTTPChannel.write_soon")
    g = cfg_of(f)
    pulls = _pull_nodes(ctx, g)
    if not pulls:
        ctx.r.violation(rid, key_of(f, None, "no-pull"), "write_soon never wakes the I/O loop", f.loc())
        return
    # the flush attempt: assignment from _flush_exception(...)
    flush = [n for n in g.nodes if n.kind == "stmt" and isinstance(n.ast, ast.Assign) and isinstance(n.ast.value, ast.Call)
             and dotted(n.ast.value.func) == "self._flush_exception"]
    if not flush:
        # no synchronous flush: then every append must be followed by a pull
        incs = [n for n in g.nodes if n.kind == "stmt" and isinstance(n.ast, ast.AugAssign) and dotted(n.ast.target) == "self.total_outbufs_len"]
        for i in incs:
            if g.path(i, g.exit, avoid=pulls, follow_exc=False) is None:
                ctx.r.ok(rid, "append is always followed by a wake-up", f.loc(i.ast))
            else:
                ctx.r.violation(rid, key_of(f, None, "append-without-pull"), "output appended without flush attempt or wake-up", f.loc(i.ast))
        return
    fl = flush[0]
    # the worker's own threshold agrees with the I/O thread's: handle_write flushes a running task's output once
    # total >= send_bytes - so in every such state the worker must have attempted the flush (and, by the guard below,
    # woken the loop if that was not enough); a stricter test here leaves output that nobody is told about
    from .common import formula_eval as _fe, formula_leaves as _fl
    outer = [(t, pol) for (t, pol) in guards_of(g, fl) if "total_outbufs_len" in norm(t)]
    gap = None
    for tot in (1, 2, 3):
        for sb in (1, 2, 3):
            if tot < sb:
                continue
            try:
                taken = all(bool(_fe(t, {lf: (tot if lf.endswith("total_outbufs_len") else sb if lf.endswith("send_bytes") else None) for lf in _fl(t)})) == pol for (t, pol) in outer)
            except (KeyError, TypeError) as ex:
                raise AnalysisError("cannot evaluate the guard of write_soon's flush attempt: %s" % ex)
            if not taken and gap is None:
                gap = (tot, sb)
    if gap:
        ctx.r.violation(rid, key_of(f, None, "flush-threshold-stricter"), "with %d byte(s) pending and send_bytes=%d write_soon neither flushes nor wakes the I/O loop (its test: %s), although handle_write flushes from total >= send_bytes on: the output sits there until the task writes again or finishes" % (gap[0], gap[1], " and ".join(("" if pol else "not ") + norm(t) for (t, pol) in outer) or "none"), f.loc(fl.ast))
    else:
        ctx.r.ok(rid, "write_soon attempts the flush whenever total >= send_bytes", f.loc(fl.ast))
    tgt = fl.ast.targets[0]
    if not (isinstance(tgt, ast.Tuple) and len(tgt.elts) == 2 and all(isinstance(e, ast.Name) for e in tgt.elts)):
        raise AnalysisError("unexpected shape of the flush result")
    flushed, exc = tgt.elts[0].id, tgt.elts[1].id
    for pn in pulls:
        if not g.dominates(fl, pn):
            continue
        # enclosing if test of the pull
        owner = None
        for st in ast.walk(f.node):
            if isinstance(st, ast.If) and any(x is pn.ast for b in st.body for x in ast.walk(b)):
                tests = [t for t in g.nodes if t.kind == "test" and t.stmt is st]
                if tests and all(g.dominates(fl, t) for t in tests):
                    if owner is None or any(x is st for x in ast.walk(owner)):
                        owner = st
        if owner is None:
            ctx.r.ok(rid, "pull after the flush attempt is unconditional", f.loc(pn.ast))
            return
        e = owner.test
        # evaluated as a formula: flags {F,T}, pending and send_bytes in 0..3.  The wake-up is needed whenever the flush
        # raised, sent nothing, or left at least send_bytes pending (handle_write flushes at >= send_bytes)
        from .common import formula_eval, formula_leaves
        leaves = formula_leaves(e)
        role = {}
        for t in leaves:
            role[t] = "exc" if t == exc else "flushed" if t == flushed else "total" if t.endswith("total_outbufs_len") else "send_bytes" if t.endswith("send_bytes") else "other"
        miss = [what for (r, what) in (("exc", "flush raised"), ("flushed", "nothing sent"), ("total", "output remains")) if r not in role.values()]
        dom = {t: ((0, 1, 2, 3) if role[t] in ("total", "send_bytes") else (False, True)) for t in leaves}
        bad = None
        strict = None
        for vals in itertools.product(*[dom[t] for t in leaves]):
            env = dict(zip(leaves, vals))
            r = {role[t]: env[t] for t in leaves}
            try:
                v = bool(formula_eval(e, env))
            except (KeyError, TypeError) as ex:
                raise AnalysisError("cannot evaluate write_soon's wake-up guard: %s" % ex)
            need = bool(r.get("exc")) or (("flushed" in r) and not r["flushed"]) or ("total" in r and "send_bytes" in r and r["total"] >= r["send_bytes"])
            if need and not v:
                if "total" in r and "send_bytes" in r and r["total"] == r["send_bytes"] and not r.get("exc") and r.get("flushed", True):
                    strict = env
                else:
                    bad = env
        if miss or bad:
            ctx.r.violation(rid, key_of(f, None, "pull-guard-weak"),
                            "write_soon's wake-up guard %s misses: %s" % (norm(e), ", ".join(miss) if miss else "assignment %s" % bad), f.loc(owner))
        else:
            ctx.r.ok(rid, "wake-up guard %s covers: flush raised, nothing sent, output remains" % norm(e), f.loc(owner))
        if strict is not None and not bad:
            ctx.r.violation(rid, key_of(f, None, "pull-remain-strict"), "wake-up uses > send_bytes where handle_write flushes at >= send_bytes: exactly send_bytes pending is never flushed", f.loc(owner))
        elif not miss and not bad:
            ctx.r.ok(rid, "remaining-output test agrees with handle_write's >= send_bytes", f.loc(owner))
        return
    ctx.r.violation(rid, key_of(f, None, "no-pull-after-flush"), "no wake-up after the flush attempt in write_soon", f.loc(fl.ast))


def rule_r4(ctx, rid="C05.R4"):
    ctx.r.rule(rid, "predicates agree with publishers: writable() is true under pending output / will_close / close_when_flushed; handle_write relays close_when_flushed to will_close only when nothing is left to send")
    p = ctx.p
    f = p.func("channel.HTTPChannel.writable")
    from .common import formula_eval, formula_leaves, return_expression
    e = return_expression(f)
    if e is None:
        raise AnalysisError("writable() does more than decide its return value")
    # evaluated as a formula over flags {F, T} and the pending counter {0, 1, 2}
    leaves = formula_leaves(e)
    role = {}
    for t in leaves:
        role[t] = "total_outbufs_len" if t.endswith("total_outbufs_len") else "will_close" if t == "self.will_close" else "close_when_flushed" if t == "self.close_when_flushed" else "other"
    for name in ("total_outbufs_len", "will_close", "close_when_flushed"):
        if name not in role.values():
            ctx.r.violation(rid, key_of(f, None, "writable-missing::" + name), "writable() ignores %s: a worker publishing it is never serviced" % name, f.loc())
    # quantities the counter is compared with (a configured threshold) range over numbers, flags over {F, T}
    compared = {norm(x) for c in ast.walk(e) if isinstance(c, ast.Compare) for x in [c.left] + list(c.comparators)}
    dom = {t: ((0, 1, 2) if role[t] == "total_outbufs_len" else (0, 1, 2, 3) if t in compared else (False, True)) for t in leaves}
    bad = {}
    for vals in itertools.product(*[dom[t] for t in leaves]):
        env = dict(zip(leaves, vals))
        try:
            v = bool(formula_eval(e, env))
        except (KeyError, TypeError) as ex:
            raise AnalysisError("cannot evaluate writable(): %s" % ex)
        for t in leaves:
            if role[t] != "other" and env[t] and not v:
                bad.setdefault(role[t], env)
    for name in ("total_outbufs_len", "will_close", "close_when_flushed"):
        if name not in role.values():
            continue
        if name in bad:
            ctx.r.violation(rid, key_of(f, None, "writable-false-under::" + name), "writable() can be false although %s holds (e.g. %s)" % (name, bad[name]), f.loc())
        else:
            ctx.r.ok(rid, "writable() is true whenever %s" % name, f.loc())
    # relay
    hw = p.func("channel.HTTPChannel.handle_write")
    g = cfg_of(hw)
    relay = [n for n in g.nodes if n.kind == "stmt" and isinstance(n.ast, ast.Assign) and any(dotted(t) == "self.will_close" for t in n.ast.targets)
             and isinstance(n.ast.value, ast.Constant) and n.ast.value.value is True]
    if not relay:
        ctx.r.violation(rid, key_of(hw, None, "no-relay"), "handle_write never turns close_when_flushed into will_close", hw.loc())
    for r in relay:
        gs = guards_of(g, r)
        a = any(pol is True and dotted(t) == "self.close_when_flushed" for (t, pol) in gs)
        b = any((pol is False and dotted(t) == "self.total_outbufs_len") or (pol is True and norm(t).replace(" ", "") in ("self.total_outbufs_len==0",)) for (t, pol) in gs)
        extra = [norm(t) for (t, pol) in gs if not (dotted(t) in ("self.close_when_flushed", "self.total_outbufs_len") or "total_outbufs_len" in norm(t))]
        if a and b and not extra:
            ctx.r.ok(rid, "relay close_when_flushed -> will_close guarded exactly by 'nothing left to send'", hw.loc(r.ast))
        else:
            ctx.r.violation(rid, key_of(hw, None, "relay-guard"), "relay of close_when_flushed is guarded by %s" % [(norm(t), pol) for (t, pol) in gs], hw.loc(r.ast))


def rule_r6(ctx):
    rid = "C05.R6"
    ctx.r.rule(rid, "the trigger: pull_trigger reaches the pipe write on all paths; always readable, never writable, drains in handle_read; registered in the server's map")
    p = ctx.p
    cg = get_callgraph(p)
    f = p.func("trigger._triggerbase.pull_trigger")
    g = cfg_of(f)
    phys = [n for n, c in find_calls(g, lambda c: dotted(c.func) == "self._physical_pull")]
    if phys and g.path(g.entry, g.exit, avoid=phys, follow_exc=False) is None:
        ctx.r.ok(rid, "pull_trigger reaches _physical_pull on every normal path", f.loc())
    else:
        ctx.r.violation(rid, key_of(f, None, "pull-skips-write"), "pull_trigger can return without the physical pull", f.loc())
    trig = p.cls("trigger.trigger")
    pp = trig.lookup("_physical_pull")
    if pp is None:
        raise AnalysisError("trigger._physical_pull vanished")
    wr = [c for c in ast.walk(pp.node) if isinstance(c, ast.Call) and dotted(c.func) in ("os.write",) or (isinstance(c, ast.Call) and isinstance(c.func, ast.Attribute) and c.func.attr == "send")]
    if wr:
        ctx.r.ok(rid, "_physical_pull writes to the pipe", pp.loc())
    else:
        ctx.r.violation(rid, key_of(pp, None, "no-pipe-write"), "_physical_pull does not write to the pipe", pp.loc())
    for name, want in (("readable", True), ("writable", False)):
        m = trig.lookup(name)
        rets = [n for n in ast.walk(m.node) if isinstance(n, ast.Return)]
        if len(rets) == 1 and isinstance(rets[0].value, ast.Constant) and rets[0].value.value is want:
            ctx.r.ok(rid, "trigger.%s() is constantly %s" % (name, want), m.loc())
        else:
            ctx.r.violation(rid, key_of(m, None, "trigger-" + name), "trigger.%s() is not constantly %s" % (name, want), m.loc())
    hr = trig.lookup("handle_read")
    if any(isinstance(c, ast.Call) and dotted(c.func) == "self.recv" for h in with_private_helpers(p, cg, hr) for c in ast.walk(h.node)):
        ctx.r.ok(rid, "trigger.handle_read drains the pipe", hr.loc())
    else:
        ctx.r.violation(rid, key_of(hr, None, "no-drain"), "trigger.handle_read does not read the pipe: the loop would spin or the pipe fill up", hr.loc())
    # same map: BaseWSGIServer.__init__ passes the same `map` to trigger.trigger(...) and dispatcher.__init__
    init = p.func("server.BaseWSGIServer.__init__")
    tcalls = [c for c in ast.walk(init.node) if isinstance(c, ast.Call) and any(t.qual == "trigger.trigger.__init__" for t in cg.callees(c))]
    dcalls = [c for c in ast.walk(init.node) if isinstance(c, ast.Call) and any(t.qual == "wasyncore.dispatcher.__init__" for t in cg.callees(c))]
    if not tcalls or not dcalls:
        raise AnalysisError("server constructor no longer builds trigger / dispatcher")
    targ = norm(tcalls[0].args[0]) if tcalls[0].args else None
    darg = None
    for kw in dcalls[0].keywords:
        if kw.arg == "map":
            darg = norm(kw.value)
    if darg is None and len(dcalls[0].args) >= 3:
        darg = norm(dcalls[0].args[2])
    rebound = None
    if targ is not None and targ == darg and isinstance(tcalls[0].args[0], ast.Name):
        # the same NAME must also be the same OBJECT: no store to it on a path between the two registrations
        gi = cfg_of(init)
        def node_of(call):
            for n in gi.nodes:
                if n.ast is not None and n.kind in ("stmt", "branch") and any(x is call for x in ast.walk(n.ast)):
                    return n
            return None
        tn, dn = node_of(tcalls[0]), node_of(dcalls[0])
        if tn is None or dn is None:
            raise AnalysisError("cannot place the trigger / dispatcher registrations of the server constructor in its flow graph")
        for st in gi.nodes:
            if st.kind == "stmt" and isinstance(st.ast, (ast.Assign, ast.AugAssign, ast.AnnAssign)) and any(isinstance(x, ast.Name) and x.id == targ and isinstance(x.ctx, ast.Store) for x in ast.walk(st.ast)):
                for (a, b) in ((tn, dn), (dn, tn)):
                    if a is not st and b is not st and gi.path(a, st, follow_exc=False) is not None and gi.path(st, b, follow_exc=False) is not None:
                        rebound = st
    if rebound is not None:
        ctx.r.violation(rid, key_of(init, None, "trigger-other-map"), "`%s` is re-bound (%s) between the registration of the trigger and that of the server: for the value that takes that arm the trigger sits in another map than the one the loop polls, every pull is lost" % (targ, norm(rebound.ast)), init.loc(rebound.ast))
    elif targ is not None and targ == darg:
        ctx.r.ok(rid, "trigger and server are registered in the same map (%s)" % targ, init.loc(tcalls[0]))
    else:
        ctx.r.violation(rid, key_of(init, None, "trigger-other-map"), "trigger registered in %s but the server in %s" % (targ, darg), init.loc(tcalls[0]))
    # the server's pull_trigger forwards
    sp = p.func("server.BaseWSGIServer.pull_trigger")
    if any(t.qual == "trigger._triggerbase.pull_trigger" for c in ast.walk(sp.node) if isinstance(c, ast.Call) for t in cg.callees(c)):
        ctx.r.ok(rid, "server.pull_trigger forwards to the trigger", sp.loc())
    else:
        ctx.r.violation(rid, key_of(sp, None, "server-pull-noop"), "server.pull_trigger does not reach the trigger", sp.loc())


def rule_r7(ctx, rid="C05.R7"):
    ctx.r.rule(rid, "worker pool: enqueue is followed by notify in the same lock region; idle workers wait in a loop that re-tests its predicate; stop requests notify_all")
    p = ctx.p
    lk = get_locks(p)
    f = p.func("task.ThreadedTaskDispatcher.add_task")
    g = cfg_of(f)
    apps = [n for n, c in find_calls(g, lambda c: dotted(c.func) == "self.queue.append")]
    nots = [n for n, c in find_calls(g, lambda c: dotted(c.func) in ("self.queue_cv.notify", "self.queue_cv.notify_all"))]
    if not apps:
        raise AnalysisError("add_task no longer appends to the queue")
    for a in apps:
        ok = any(g.dominates(a, n) and g.path(a, g.exit, avoid=[n], follow_exc=False) is None for n in nots)
        same = any(lk.held_at_stmt(f, a.ast) and lk.held_at_stmt(f, n.ast) == lk.held_at_stmt(f, a.ast) for n in nots)
        if ok and same:
            ctx.r.ok(rid, "enqueue followed by notify in the same lock region", f.loc(a.ast))
        else:
            ctx.r.violation(rid, key_of(f, None, "enqueue-without-notify"), "a task is enqueued without waking a worker (on some path / outside the lock region)", f.loc(a.ast))
    h = p.func("task.ThreadedTaskDispatcher.handler_thread")
    waits = [c for c in ast.walk(h.node) if isinstance(c, ast.Call) and dotted(c.func) == "self.queue_cv.wait"]
    for w in waits:
        loop = None
        for st in ast.walk(h.node):
            if isinstance(st, ast.While) and any(x is w for x in ast.walk(st)) and not (isinstance(st.test, ast.Constant)):
                loop = st
        if loop is not None and mentions(loop.test, "self.queue"):
            ctx.r.ok(rid, "idle worker waits in a loop re-testing the queue", h.loc(w))
        else:
            ctx.r.violation(rid, key_of(h, None, "wait-without-loop"), "idle worker wait is not inside a loop that re-tests the queue", h.loc(w))
    if not waits:
        raise AnalysisError("handler_thread no longer waits on queue_cv")
    s = p.func("task.ThreadedTaskDispatcher.set_thread_count")
    g2 = cfg_of(s)
    incs = [n for n in g2.nodes if n.kind == "stmt" and isinstance(n.ast, ast.AugAssign) and dotted(n.ast.target) == "self.stop_count"]
    na = [n for n, c in find_calls(g2, lambda c: dotted(c.func) == "self.queue_cv.notify_all")]
    for i in incs:
        if any(g2.path(i, g2.exit, avoid=[n], follow_exc=False) is None for n in na):
            ctx.r.ok(rid, "stop request wakes all idle workers", s.loc(i.ast))
        else:
            ctx.r.violation(rid, key_of(s, None, "stop-without-notify_all"), "stop_count raised without notify_all: idle workers never see the stop request", s.loc(i.ast))


def rule_r8(ctx):
    """Shared with C04.R4: a queued request always has a task - the dispatch guards are exact on the abstract
    queue length, evaluated under the requests lock (no stale value decides)."""
    from .c04 import rule_r4 as c04r4

    c04r4(ctx, rid="C05.R8")


def rule_r9(ctx):
    """Shared with C12.R6: a producer that waits for the I/O thread is a lost wake-up unless the I/O thread, once woken,
    actually selects a flush routine whenever the producer's wait predicate holds."""
    from . import c12
    c12.rule_r6(ctx, rid="C05.R9")


def rule_r10(ctx):
    """Shared with C12.R4 (wait/notify only while holding the condition - a wait outside the lock raises and skips the
    end-of-request wake-ups) and C09.R3 (a worker that dies leaves queued requests unserviced with the server quiescent)."""
    from . import c09, c12
    c12.rule_r4(ctx, rid="C05.R10")
    c09.rule_r3(ctx, rid="C05.R10")


RULES = [rule_r1, rule_r2, rule_r3, rule_r4, rule_r5, rule_r6, rule_r7, rule_r8, rule_r9, rule_r10]

from ..selftest import M, T, V  # noqa: E402

selftest = [
    M("service-no-tail-pull", "channel.py", "        if self.connected:\n            self.server.pull_trigger()\n\n        self.last_activity = time.time()\n\n    def cancel", "        self.last_activity = time.time()\n\n    def cancel", "R1"),
    M("service-early-return", "channel.py", "                    request.close()\n                self.requests = []\n        else:", "                    request.close()\n                self.requests = []\n            return\n        else:", "R1"),
    M("pull-only-if-flushed", "channel.py", "                    if (\n                        exception\n                        or not flushed\n                        or self.total_outbufs_len >= self.adj.send_bytes\n                    ):", "                    if flushed:", "R3"),
    M("pull-ignores-exception", "channel.py", "                        exception\n                        or not flushed\n", "                        not flushed\n", "R3"),
    M("pull-remain-strict", "channel.py", "                        or not flushed\n                        or self.total_outbufs_len >= self.adj.send_bytes", "                        or not flushed\n                        or self.total_outbufs_len > self.adj.send_bytes", "R3"),
    M("writable-ignores-cwf", "channel.py", "        return self.total_outbufs_len > 0 or self.will_close or self.close_when_flushed", "        return self.total_outbufs_len > 0 or self.will_close", "R4"),
    M("writable-and", "channel.py", "        return self.total_outbufs_len > 0 or self.will_close or self.close_when_flushed", "        return self.total_outbufs_len > 0 and (self.will_close or self.close_when_flushed)", "R4"),
    M("relay-extra-guard", "channel.py", "        if self.close_when_flushed and not self.total_outbufs_len:\n            self.close_when_flushed = False", "        if self.close_when_flushed and not self.total_outbufs_len and not self.requests:\n            self.close_when_flushed = False", "R4"),
    M("pull-thunk-only", "trigger.py", "                self.thunks.append(thunk)\n        self._physical_pull()", "                self.thunks.append(thunk)\n            self._physical_pull()", "R6"),
    M("trigger-not-readable", "trigger.py", "    def readable(self):\n        return True", "    def readable(self):\n        return bool(self.thunks)", "R6"),
    M("trigger-other-map", "server.py", "self.trigger = trigger.trigger(map)", "self.trigger = trigger.trigger({})", "R6"),
    M("add_task-no-notify", "task.py", "            self.queue.append(task)\n            self.queue_cv.notify()\n", "            self.queue.append(task)\n", "R7"),
    M("worker-if-wait", "task.py", "                while not self.queue and self.stop_count == 0:", "                if not self.queue and self.stop_count == 0:", "R7"),
    M("stop-notify-one", "task.py", "                self.stop_count += running - count\n                self.queue_cv.notify_all()", "                self.stop_count += running - count\n                self.queue_cv.notify()", "R7"),
    M("wait-without-pull", "channel.py", "                    self.server.pull_trigger()\n                    self.outbuf_lock.wait()\n\n                    return", "                    self.outbuf_lock.wait()\n\n                    return", "R2"),
    M("no-notify-on-close", "channel.py", "            self.connected = False\n            self.outbuf_lock.notify()\n", "            self.connected = False\n", None),

    T("pull-in-finally", "channel.py", "        if self.connected:\n            self.server.pull_trigger()\n\n        self.last_activity = time.time()\n\n    def cancel", "        try:\n            self.last_activity = time.time()\n        finally:\n            if self.connected:\n                self.server.pull_trigger()\n\n    def cancel"),
    T("direct-trigger-pull", "channel.py", "        if self.connected:\n            self.server.pull_trigger()\n\n        self.last_activity", "        if self.connected:\n            self.server.trigger.pull_trigger()\n\n        self.last_activity"),
    T("always-pull-in-write_soon", "channel.py", "                    if (\n                        exception\n                        or not flushed\n                        or self.total_outbufs_len >= self.adj.send_bytes\n                    ):\n                        self.server.pull_trigger()", "                    self.server.pull_trigger()"),
]
