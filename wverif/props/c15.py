"""C15 — untrusted peers cannot influence connection metadata."""
from __future__ import annotations

import ast

from ..callgraph import get_callgraph
from ..cfg import cfg_of
from ..model import AnalysisError, NotConst, dotted, norm, walk_own
from .common import find_calls, guards_of, key_of, mentions

EXPLANATION = (
    "Effect analysis of the proxy-header middleware (non-interference reduces, for this code, to 'nothing writes the "
    "environ on the untrusted path'): the only caller of parse_proxy_headers is the middleware and the call is "
    "reachable only through the peer test (trusted_proxy == '*' or REMOTE_ADDR == trusted_proxy, REMOTE_ADDR read from "
    "the environ the server built); every statement reachable when the test is false has no effect on the environ "
    "except environ.pop('HTTP_' + name) inside clear_untrusted_headers; the set cleared on that path is the full folded "
    "PROXY_HEADERS (the property's six names) and clearing depends only on clear_untrusted; every function that stores "
    "one of the seven metadata keys is get_environment or parse_proxy_headers; the middleware is installed whenever "
    "trust or clearing is configured, with each adjustment passed to the parameter of the same meaning."
)

SIX = {"X_FORWARDED_FOR", "X_FORWARDED_HOST", "X_FORWARDED_PROTO", "X_FORWARDED_PORT", "X_FORWARDED_BY", "FORWARDED"}
META = {"REMOTE_ADDR", "REMOTE_HOST", "REMOTE_PORT", "SERVER_NAME", "SERVER_PORT", "HTTP_HOST", "wsgi.url_scheme"}


def _closure(ctx):
    f = ctx.p.func("proxy_headers.proxy_headers_middleware.translate_proxy_headers") if "proxy_headers.proxy_headers_middleware.translate_proxy_headers" in ctx.p.functions else None
    if f is None:
        raise AnalysisError("anchor vanished: translate_proxy_headers closure")
    return f, cfg_of(f)


def _outer_alias(f, name):
    """A free variable of closure f that the enclosing function binds exactly once, to one of its own parameters
    (`proxy = trusted_proxy`): the parameter's name; otherwise the name itself."""
    outer = f.parent
    if outer is None or name in f.params:
        return name
    if any(isinstance(x, ast.Name) and x.id == name and isinstance(x.ctx, ast.Store) for x in ast.walk(f.node)):
        return name
    stores = [x for x in walk_own(outer.node) if isinstance(x, ast.Assign) and any(isinstance(t, ast.Name) and t.id == name for t0 in x.targets for t in ast.walk(t0))]
    others = [x for x in ast.walk(outer.node) if isinstance(x, ast.Name) and x.id == name and isinstance(x.ctx, ast.Store)]
    if len(stores) == 1 and len(others) == 1 and len(stores[0].targets) == 1 and isinstance(stores[0].targets[0], ast.Name) and isinstance(stores[0].value, ast.Name) and stores[0].value.id in outer.params:
        return stores[0].value.id
    return name


def _peer_tests(f, g):
    """(branch nodes of the 'trusted' outcome, branch node of the final 'untrusted' outcome)"""
    env = f.params[0]
    peer = None
    for n in walk_own(f.node):
        if isinstance(n, ast.Assign) and isinstance(n.value, ast.Subscript) and dotted(n.value.value) == env and isinstance(n.value.slice, ast.Constant) \
                and n.value.slice.value == "REMOTE_ADDR" and isinstance(n.targets[0], ast.Name):
            peer = n.targets[0].id
    trusted = []
    tests = []
    for b in g.nodes:
        if b.kind != "branch" or not isinstance(b.ast, ast.Compare) or not isinstance(b.ast.ops[0], ast.Eq):
            continue
        l, r = norm(b.ast.left), norm(b.ast.comparators[0])
        l, r = _outer_alias(f, l), _outer_alias(f, r)
        is_star = {l, r} == {"trusted_proxy", "'*'"}
        is_peer = peer is not None and {l, r} == {"trusted_proxy", peer} or {l, r} == {"trusted_proxy", "%s['REMOTE_ADDR']" % env}
        if is_star or is_peer:
            tests.append((b, "star" if is_star else "peer"))
    return peer, tests


def rule_r1(ctx):
    rid = "C15.R1"
    ctx.r.rule(rid, "parse_proxy_headers is called only from the middleware, and only through the peer test (trusted_proxy == '*' or REMOTE_ADDR == trusted_proxy)")
    p = ctx.p
    cg = get_callgraph(p)
    target = p.func("proxy_headers.parse_proxy_headers")
    f, g = _closure(ctx)
    callers = cg.callers.get(target.qual, [])
    for s in callers:
        if s.func.qual == f.qual:
            ctx.r.ok(rid, "caller of parse_proxy_headers: the middleware", s.loc)
        else:
            ctx.r.violation(rid, key_of(s.func, None, "other-caller"), "%s calls parse_proxy_headers without the peer test" % s.func.qual, s.loc)
    if not callers:
        raise AnalysisError("parse_proxy_headers has no caller")
    peer, tests = _peer_tests(f, g)
    kinds = {k for (_, k) in tests}
    if "peer" not in kinds:
        ctx.r.violation(rid, key_of(f, None, "no-peer-test"), "the middleware does not compare the peer address (environ['REMOTE_ADDR']) with trusted_proxy", f.loc())
        return
    calls = [n for n, c in find_calls(g, lambda c: any(t.qual == target.qual for t in cg.callees(c)))]
    tb = [b for (b, k) in tests if b.polarity]
    for c in calls:
        if g.path(g.entry, c, avoid=tb, follow_exc=False) is None:
            ctx.r.ok(rid, "the call is reachable only through a true peer test", f.loc(c.ast))
        else:
            ctx.r.violation(rid, key_of(f, None, "parse-before-peer-test"), "parse_proxy_headers can be reached without the peer test having succeeded", f.loc(c.ast))
    # the decision is exactly "star or peer", however it is spelled: (a) no other test decides whether the call is reached -
    # a branch from which the call is reachable while it is not from the opposite outcome; (b) once a star / peer test came
    # out true nothing diverts from the call
    test_asts = {id(b.ast) for (b, _) in tests}
    widened = []
    for b in g.nodes:
        if b.kind != "branch" or id(b.ast) in test_asts:
            continue
        sib = [x for x in g.nodes if x.kind == "branch" and x.ast is b.ast and x.polarity != b.polarity]
        for c in calls:
            if c.id in g.reach(b, follow_exc=False) and sib and not any(c.id in g.reach(x, follow_exc=False) for x in sib):
                widened.append(b)
    narrowed = [b for b in tb for c in calls if g.path(b, g.exit, avoid=[c], follow_exc=False) is not None]
    if widened:
        ctx.r.violation(rid, key_of(f, None, "peer-test-widened"), "the trust decision also depends on %s" % sorted({"%s%s" % ("" if b.polarity else "not ", norm(b.ast)) for b in widened}), f.loc(widened[0].ast))
    elif narrowed:
        ctx.r.violation(rid, key_of(f, None, "peer-test-narrowed"), "a peer that passed the test `%s` can still be treated as untrusted" % norm(narrowed[0].ast), f.loc(narrowed[0].ast))
    else:
        ctx.r.ok(rid, "the trust decision is exactly: trusted_proxy == '*' or peer == trusted_proxy", f.loc(tests[0][0].ast))


def _environ_effects(ctx, f, stmts_or_nodes, env):
    """Effects on `env` by the given AST statements: [(kind, node)]"""
    out = []
    for st in stmts_or_nodes:
        for n in ast.walk(st):
            if isinstance(n, ast.Subscript) and dotted(n.value) == env and isinstance(n.ctx, (ast.Store, ast.Del)):
                out.append(("store", n))
            if isinstance(n, ast.Call) and isinstance(n.func, ast.Attribute) and dotted(n.func.value) == env and n.func.attr in ("update", "setdefault", "clear", "popitem", "__setitem__"):
                out.append(("mutate:" + n.func.attr, n))
            if isinstance(n, ast.Call) and isinstance(n.func, ast.Attribute) and dotted(n.func.value) == env and n.func.attr == "pop":
                out.append(("pop", n))
    return out


def rule_r2(ctx):
    rid = "C15.R2"
    ctx.r.rule(rid, "on the untrusted path the middleware's only effect on the environ is environ.pop('HTTP_' + name) inside clear_untrusted_headers")
    p = ctx.p
    cg = get_callgraph(p)
    f, g = _closure(ctx)
    env = f.params[0]
    peer, tests = _peer_tests(f, g)
    fb = [b for (b, k) in tests if not b.polarity and k == "peer"]
    if not fb:
        raise AnalysisError("cannot find the false outcome of the peer test")
    tb = [b for (b, k) in tests if b.polarity]
    # nodes reachable without ever taking a 'trusted' outcome, after the peer test was evaluated
    notrust = g.reach(g.entry, avoid=tb, follow_exc=False)
    reach = set()
    for b in fb:
        reach |= g.reach(b, avoid=tb, follow_exc=False)
    reach &= notrust
    nodes = [n for n in g.nodes if n.id in reach and n.ast is not None and n.kind in ("stmt", "test")]
    n_ok = 0
    for n in nodes:
        for (kind, x) in _environ_effects(ctx, f, [n.ast], env):
            ctx.r.violation(rid, key_of(f, None, "environ-write-untrusted::" + norm(x)[:40]), "the middleware itself modifies the environ on the untrusted path: %s" % norm(x)[:60], f.loc(n.ast))
        for c in [c for c in ast.walk(n.ast) if isinstance(c, ast.Call)]:
            if not any(dotted(a) == env for a in list(c.args) + [k.value for k in c.keywords]):
                continue
            tg = cg.callees(c)
            d = dotted(c.func)
            if any(t.qual == "proxy_headers.clear_untrusted_headers" for t in tg):
                n_ok += 1
                ctx.r.ok(rid, "environ handed to clear_untrusted_headers", f.loc(n.ast))
            elif d == "app":
                n_ok += 1
                ctx.r.ok(rid, "environ handed to the application", f.loc(n.ast))
            elif any(t.qual == "proxy_headers.parse_proxy_headers" for t in tg):
                ctx.r.violation(rid, key_of(f, None, "parse-on-untrusted"), "parse_proxy_headers is reachable on the untrusted path", f.loc(n.ast))
            elif d and d.endswith("wsgi_response"):
                ctx.r.ok(rid, "environ handed to the 400 responder", f.loc(n.ast))
            else:
                ctx.r.violation(rid, key_of(f, None, "environ-escapes::" + (d or "?")), "on the untrusted path the environ is passed to %s" % norm(c)[:60], f.loc(n.ast))
    ctx.r.floor(rid, n_ok, 2, "uses of the environ on the untrusted path")
    # clear_untrusted_headers only pops HTTP_ + name
    cf = p.func("proxy_headers.clear_untrusted_headers")
    cenv = cf.params[0]
    eff = _environ_effects(ctx, cf, cf.node.body, cenv)
    for (kind, x) in eff:
        if kind == "pop":
            a0 = x.args[0] if x.args else None
            if isinstance(a0, ast.BinOp) and isinstance(a0.op, ast.Add) and isinstance(a0.left, ast.Constant) and a0.left.value == "HTTP_":
                ctx.r.ok(rid, "clear_untrusted_headers pops 'HTTP_' + header", cf.loc(x))
            else:
                ctx.r.violation(rid, key_of(cf, None, "pop-other-key"), "clear_untrusted_headers pops %s" % norm(a0), cf.loc(x))
        else:
            ctx.r.violation(rid, key_of(cf, None, "clear-writes-environ::" + kind), "clear_untrusted_headers modifies the environ: %s" % norm(x)[:50], cf.loc(x))
    if not any(k == "pop" for (k, _) in eff):
        ctx.r.violation(rid, key_of(cf, None, "clear-does-not-pop"), "clear_untrusted_headers does not remove the headers from the environ", cf.loc())
    # iterates over the set it is given
    it = [n for n in ast.walk(cf.node) if isinstance(n, ast.comprehension) or isinstance(n, ast.For)]
    if it and any(dotted(x.iter) == cf.params[1] for x in it):
        ctx.r.ok(rid, "clear_untrusted_headers iterates over the whole set it is given", cf.loc())
    else:
        ctx.r.violation(rid, key_of(cf, None, "clear-subset"), "clear_untrusted_headers does not iterate over its untrusted_headers argument", cf.loc())
    # ... on every normal path, and for every member (no filter besides "was it present")
    cg_ = cfg_of(cf)
    popn = [n for n in cg_.nodes if n.ast is not None and n.kind in ("stmt", "iter", "test")
            and any(isinstance(c, ast.Call) and isinstance(c.func, ast.Attribute) and c.func.attr == "pop" and dotted(c.func.value) == cenv for c in ast.walk(n.ast if n.kind != "iter" else n.ast.iter))]
    iters = [n for n in cg_.nodes if n.kind == "iter" and dotted(n.ast.iter) == cf.params[1]]
    must = iters or popn
    if must and cg_.path(cg_.entry, cg_.exit, avoid=must, follow_exc=False) is None:
        ctx.r.ok(rid, "every normal path through clear_untrusted_headers performs the removal", cf.loc())
    else:
        ctx.r.violation(rid, key_of(cf, None, "clear-skipped"), "clear_untrusted_headers can return without removing anything (a path avoids the removal): some untrusted header survives", cf.loc())
    for n in popn:
        extra = [(norm(t), pol) for (t, pol) in guards_of(cg_, n)]
        if extra:
            ctx.r.violation(rid, key_of(cf, None, "clear-conditional"), "the removal in clear_untrusted_headers only happens under %s" % extra, cf.loc(n.ast))
    for x in it:
        if isinstance(x, ast.comprehension) and dotted(x.iter) == cf.params[1]:
            for cond in x.ifs:
                if not any(isinstance(c, ast.Call) and isinstance(c.func, ast.Attribute) and c.func.attr == "pop" for c in ast.walk(cond)):
                    ctx.r.violation(rid, key_of(cf, None, "clear-filtered"), "clear_untrusted_headers filters the names it removes by %s" % norm(cond), cf.loc(cond))


def rule_r3(ctx):
    rid = "C15.R3"
    ctx.r.rule(rid, "on the untrusted path the cleared set is the full PROXY_HEADERS (the six names) and clearing depends only on clear_untrusted")
    p = ctx.p
    cg = get_callgraph(p)
    six = p.const("proxy_headers", "PROXY_HEADERS")
    if set(six) == SIX:
        ctx.r.ok(rid, "PROXY_HEADERS == the six proxy header names", "src/waitress/proxy_headers.py")
    else:
        ctx.r.violation(rid, "proxy-headers-set::" + ",".join(sorted(SIX ^ set(six))), "PROXY_HEADERS differs from the property's six names by %s" % sorted(SIX ^ set(six)), "src/waitress/proxy_headers.py")
    f, g = _closure(ctx)
    calls = [(n, c) for n, c in find_calls(g, lambda c: any(t.qual == "proxy_headers.clear_untrusted_headers" for t in cg.callees(c)))]
    if not calls:
        ctx.r.violation(rid, key_of(f, None, "no-clearing"), "the middleware never clears untrusted headers", f.loc())
        return
    for n, c in calls:
        arg = c.args[1] if len(c.args) > 1 else None
        var = dotted(arg)
        defs = [m for m in g.nodes if m.kind == "stmt" and isinstance(m.ast, ast.Assign) and any(dotted(t) == var for t in m.ast.targets)]
        init = [m for m in defs if norm(m.ast.value) == "PROXY_HEADERS" and g.dominates(m, n)]
        peer, tests = _peer_tests(f, g)
        fb = [b for (b, k) in tests if not b.polarity and k == "peer"]
        # on the untrusted path (every star / peer test came out false) the definition that reaches the call is PROXY_HEADERS
        tb = [b for (b, k) in tests if b.polarity]
        un = g.reach(g.entry, avoid=tb, follow_exc=False)
        last = [m for m in defs if m.id in un and g.path(m, n, avoid=[x for x in defs if x is not m] + tb, follow_exc=False) is not None]
        init = [m for m in last if norm(m.ast.value) == "PROXY_HEADERS"]
        bad = [m for m in last if m not in init]
        if not fb or g.path(g.entry, n, avoid=defs + tb, follow_exc=False) is not None:
            bad = bad or [n]
        if init and not bad:
            ctx.r.ok(rid, "for an untrusted peer the set passed to the clearing is PROXY_HEADERS", f.loc(n.ast))
        else:
            ctx.r.violation(rid, key_of(f, None, "untrusted-set"), "for an untrusted peer the cleared set is not the full PROXY_HEADERS", f.loc(n.ast))
        gs = [(norm(t), pol) for (t, pol) in guards_of(g, n)]
        if gs == [("clear_untrusted", True)]:
            ctx.r.ok(rid, "clearing is control-dependent only on clear_untrusted", f.loc(n.ast))
        else:
            ctx.r.violation(rid, key_of(f, None, "clearing-guard"), "clearing is guarded by %s" % gs, f.loc(n.ast))
        # every normal path to the application passes the clearing when clear_untrusted
        apps = [m for m, cc in find_calls(g, lambda cc: dotted(cc.func) == "app")]
        skip = [b for b in g.nodes if b.kind == "branch" and not b.polarity and dotted(b.ast) == "clear_untrusted"]
        for a in apps:
            if g.path(g.entry, a, avoid=[n] + skip, follow_exc=False) is None:
                ctx.r.ok(rid, "the application is only called after the clearing (when enabled)", f.loc(a.ast))
            else:
                ctx.r.violation(rid, key_of(f, None, "app-before-clearing"), "the application can be called without the untrusted headers having been cleared", f.loc(a.ast))


def rule_r3b(ctx, rid="C15.R3"):
    """second part of R3: inside clear_untrusted_headers every name of the set it is given is popped"""
    p = ctx.p
    f = p.func("proxy_headers.clear_untrusted_headers")
    env, names = f.params[0], f.params[1]
    rebound = [x for x in ast.walk(f.node) if isinstance(x, ast.Name) and x.id == names and isinstance(x.ctx, (ast.Store, ast.Del))]
    pops = []
    for x in ast.walk(f.node):
        it = None
        if isinstance(x, (ast.ListComp, ast.SetComp, ast.GeneratorExp)) and len(x.generators) == 1:
            it, body, flt = x.generators[0].iter, [x.elt] + list(x.generators[0].ifs), []
        elif isinstance(x, ast.For):
            it, body, flt = x.iter, x.body, []
        if it is None:
            continue
        if any(isinstance(c, ast.Call) and isinstance(c.func, ast.Attribute) and c.func.attr == "pop" and dotted(c.func.value) == env for b in body for c in ast.walk(b)):
            pops.append((x, it))
    if not pops:
        raise AnalysisError("anchor vanished: the loop popping the untrusted headers in clear_untrusted_headers")
    for x, it in pops:
        # the pop must not sit behind a filter on the name either
        guarded = isinstance(x, ast.For) and any(isinstance(st, ast.If) and any(isinstance(c, ast.Call) and isinstance(c.func, ast.Attribute) and c.func.attr == "pop" for b in st.body for c in ast.walk(b))
                                                 and not any(isinstance(c, ast.Call) and isinstance(c.func, ast.Attribute) and c.func.attr == "pop" for c in ast.walk(st.test)) for st in x.body)
        if isinstance(it, ast.Name) and it.id == names and not rebound and not guarded:
            ctx.r.ok(rid, "clear_untrusted_headers pops every name of the set it is given", f.loc(x))
        else:
            ctx.r.violation(rid, key_of(f, None, "cleared-subset"), "clear_untrusted_headers pops over `%s`%s, not over the whole set it was given: some untrusted proxy headers reach the application although clearing is on" % (norm(it)[:50], " (the parameter is re-bound: %s)" % norm(rebound[0])[:30] if rebound else ""), f.loc(x))


def rule_r4(ctx):
    rid = "C15.R4"
    ctx.r.rule(rid, "every function that stores REMOTE_ADDR/REMOTE_HOST/REMOTE_PORT/SERVER_NAME/SERVER_PORT/HTTP_HOST/wsgi.url_scheme is get_environment or parse_proxy_headers")
    p = ctx.p
    allowed = {"task.WSGITask.get_environment", "proxy_headers.parse_proxy_headers"}
    n = 0
    for f in p.functions.values():
        for node in walk_own(f.node):
            keys = []
            if isinstance(node, ast.Subscript) and isinstance(node.ctx, ast.Store) and isinstance(node.slice, ast.Constant) and node.slice.value in META:
                keys.append(node.slice.value)
            if isinstance(node, ast.Dict):
                for k in node.keys:
                    if isinstance(k, ast.Constant) and k.value in META and "environ" in norm(node)[:0] + (f.name):
                        keys.append(k.value)
            for k in keys:
                n += 1
                if f.qual in allowed:
                    ctx.r.ok(rid, "%s stored by %s" % (k, f.qual), f.loc(node))
                else:
                    ctx.r.violation(rid, key_of(f, None, "metadata-writer::" + k), "%s stores %s" % (f.qual, k), f.loc(node))
    ctx.r.floor(rid, n, 8, "stores of connection metadata keys")


def rule_r5(ctx, rid="C15.R5"):
    ctx.r.rule(rid, "the middleware is installed whenever trust or clearing is configured, each adjustment passed to the parameter of the same meaning")
    p = ctx.p
    f = p.func("server.BaseWSGIServer.__init__")
    g = cfg_of(f)
    calls = find_calls(g, lambda c: dotted(c.func) == "proxy_headers_middleware")
    if not calls:
        ctx.r.violation(rid, key_of(f, None, "not-installed"), "BaseWSGIServer.__init__ never installs proxy_headers_middleware", f.loc())
        return
    n, c = calls[0]
    # installed iff trusted_proxy or clear_untrusted_proxy_headers - decided on the CFG, however the test is spelled:
    # the call needs one of the two to be true, each of them being true makes the call inevitable, and no other test decides
    atoms = ("adj.trusted_proxy", "adj.clear_untrusted_proxy_headers", "self.adj.trusted_proxy", "self.adj.clear_untrusted_proxy_headers")
    tb = [b for b in g.nodes if b.kind == "branch" and b.polarity and dotted(b.ast) in atoms]
    kinds = {dotted(b.ast).split(".")[-1] for b in tb}
    needs = g.path(g.entry, n, avoid=tb, follow_exc=False) is None
    inevitable = all(g.path(b, g.exit, avoid=[n], follow_exc=False) is None for b in tb)
    others = []
    for b in g.nodes:
        if b.kind != "branch" or dotted(b.ast) in atoms:
            continue
        sib = [x for x in g.nodes if x.kind == "branch" and x.ast is b.ast and x.polarity != b.polarity]
        if n.id in g.reach(b, follow_exc=False) and sib and not any(n.id in g.reach(x, follow_exc=False) for x in sib):
            others.append(b)
    ift = None
    for st in ast.walk(f.node):
        if isinstance(st, ast.If) and any(x is c for b in st.body + st.orelse for x in ast.walk(b)):
            ift = st
    if kinds == {"trusted_proxy", "clear_untrusted_proxy_headers"} and needs and inevitable and not others:
        ctx.r.ok(rid, "installed iff trusted_proxy or clear_untrusted_proxy_headers", f.loc(ift) if ift is not None else f.loc(n.ast))
    else:
        ctx.r.violation(rid, key_of(f, None, "install-guard"), "the middleware is installed under `%s` (must be: adj.trusted_proxy or adj.clear_untrusted_proxy_headers)" % (norm(ift.test) if ift is not None else "<unconditional>"), f.loc(n.ast))
    want = {"trusted_proxy": "adj.trusted_proxy", "trusted_proxy_count": "adj.trusted_proxy_count", "trusted_proxy_headers": "adj.trusted_proxy_headers",
            "clear_untrusted": "adj.clear_untrusted_proxy_headers", "log_untrusted": "adj.log_untrusted_proxy_headers"}
    got = {k.arg: norm(k.value) for k in c.keywords}
    mw = p.func("proxy_headers.proxy_headers_middleware")
    pos = {mw.params[i]: norm(a) for i, a in enumerate(c.args)}
    got.update(pos)
    for k, v in want.items():
        if got.get(k) == v:
            ctx.r.ok(rid, "%s = %s" % (k, v), f.loc(n.ast))
        else:
            ctx.r.violation(rid, key_of(f, None, "keyword::" + k), "middleware parameter %s receives %s, expected %s" % (k, got.get(k), v), f.loc(n.ast))
    # the wrapped application is the one served
    st = [m for m in g.nodes if m.kind == "stmt" and isinstance(m.ast, ast.Assign) and any(dotted(t) == "self.application" for t in m.ast.targets)]
    # every definition of that local reaching the store is the parameter itself or the factory call: nothing cached / shared
    # between servers (a wrapper built for another server carries that server's trust settings)
    other_defs = []
    if st and isinstance(st[0].ast.value, ast.Name):
        from .common import def_nodes
        for d in def_nodes(g, st[0].ast.value.id):
            if d is n:
                continue
            if d.id in g.reach(d) or True:
                if st[0].id in g.reach(d, avoid=[x for x in def_nodes(g, st[0].ast.value.id) if x is not d], follow_exc=False):
                    other_defs.append(d)
    if other_defs:
        ctx.r.violation(rid, key_of(f, None, "wrap-indirect"), "the application stored in self.application can come from %s, not from the parameter or this server's own proxy_headers_middleware(...) call" % norm(other_defs[0].ast)[:70], f.loc(other_defs[0].ast))
    if st and isinstance(n.ast, ast.Assign) and norm(st[0].ast.value) == norm(n.ast.targets[0]) and n.id not in g.reach(st[0]):
        ctx.r.ok(rid, "the wrapped application is what the server serves", f.loc(st[0].ast))
    else:
        ctx.r.violation(rid, key_of(f, None, "wrap-discarded"), "the wrapped application is not the one stored in self.application", f.loc(n.ast))
    # default of clear_untrusted in the middleware signature agrees with 'clearing on'
    mwf = p.func("proxy_headers.proxy_headers_middleware")
    d = mwf.defaults.get("trusted_proxy")
    if d is None or (isinstance(d, ast.Constant) and d.value is None):
        ctx.r.ok(rid, "middleware default: no peer is trusted", mwf.loc())
    else:
        ctx.r.violation(rid, key_of(mwf, None, "default-trust"), "proxy_headers_middleware trusts %s by default" % norm(d), mwf.loc())


def rule_r6(ctx):
    """Shared with C20.R6 / C20.R4: 'all settings of clear_untrusted_proxy_headers, trusted_proxy_headers' - the settings mean
    what was configured: asbool strips and lower-cases before the truthy test."""
    from . import c20
    before = len(ctx.r.violations)
    c20.rule_r6(ctx, rid="C15.R6")
    ctx.r.violations[before:] = [v for v in ctx.r.violations[before:] if "asbool" in v["key"]]


def rule_r7(ctx):
    """Shared with C07.R8: the peer address the trust test reads (REMOTE_ADDR) is the socket's peer address itself."""
    from . import c07
    before = len(ctx.r.violations)
    c07.rule_r8(ctx, rid="C15.R7")
    ctx.r.violations[before:] = [v for v in ctx.r.violations[before:] if "REMOTE_" in v["key"] or "required-keys" in v["key"]]


def rule_r8(ctx, rid="C15.R8"):
    ctx.r.rule(rid, "the address a peer is compared with is the configured trusted_proxy itself: the name in the peer test is a parameter of the middleware factory that nothing rebinds, and the adjustment is stored only by the generic option loop (a rewritten value - truncated, normalised, replaced by a constant - makes some other peer the trusted proxy)")
    from ..locks import accesses
    p = ctx.p
    f, g = _closure(ctx)
    outer = f.parent
    if outer is None or "trusted_proxy" not in outer.params:
        raise AnalysisError("anchor vanished: trusted_proxy parameter of the middleware factory")
    n = 0
    for fx in (outer, f):
        for x in ast.walk(fx.node):
            tg = []
            if isinstance(x, ast.Assign):
                tg = [t for t0 in x.targets for t in ast.walk(t0)]
            elif isinstance(x, (ast.AugAssign, ast.AnnAssign)):
                tg = list(ast.walk(x.target))
            elif isinstance(x, (ast.For, ast.comprehension)):
                tg = list(ast.walk(x.target))
            elif isinstance(x, ast.NamedExpr):
                tg = [x.target]
            elif isinstance(x, ast.withitem) and x.optional_vars is not None:
                tg = list(ast.walk(x.optional_vars))
            for t in tg:
                if isinstance(t, ast.Name) and t.id == "trusted_proxy" and isinstance(t.ctx, ast.Store):
                    n += 1
                    ctx.r.violation(rid, key_of(fx, None, "trusted-proxy-rebound"), "%s rebinds trusted_proxy (%s): peers are compared with the rewritten value, not with the configured address" % (fx.qual, norm(x)[:70]), fx.loc(x))
    if not n:
        ctx.r.ok(rid, "trusted_proxy is bound once, by the call of the factory", outer.loc())
    adj = p.cls("adjustments.Adjustments")
    w = 0
    for a in accesses(p, "trusted_proxy", [adj]):
        if a.kind != "write":
            continue
        w += 1
        ctx.r.violation(rid, key_of(a.func, None, "trusted-proxy-rewritten"), "%s stores trusted_proxy (%s): the configured address is replaced, another peer becomes the trusted proxy" % (a.func.qual, norm(a.stmt)[:70]), a.loc)
    # the generic store: setattr(self, k, cast(v)) in Adjustments.__init__
    init = p.func("adjustments.Adjustments.__init__")
    sets = [c for c in ast.walk(init.node) if isinstance(c, ast.Call) and dotted(c.func) == "setattr" and len(c.args) == 3 and dotted(c.args[0]) == "self"]
    ctx.r.floor(rid, len(sets), 1, "generic option store in Adjustments.__init__")
    if not w:
        ctx.r.ok(rid, "Adjustments.trusted_proxy is stored only by the generic option loop", init.loc(sets[0]) if sets else init.loc())


RULES = [rule_r1, rule_r2, rule_r3, rule_r3b, rule_r4, rule_r5, rule_r6, rule_r7, rule_r8]

from ..selftest import M, T, V  # noqa: E402

selftest = [
    M("trusted-proxy-normalised", "proxy_headers.py", "    def translate_proxy_headers(environ, start_response):\n        untrusted_headers = PROXY_HEADERS", "    if trusted_proxy and trusted_proxy != \"*\":\n        trusted_proxy = trusted_proxy.rsplit(\":\", 1)[0]\n\n    def translate_proxy_headers(environ, start_response):\n        untrusted_headers = PROXY_HEADERS", "R8"),
    T("trusted-proxy-aliased", "proxy_headers.py", "    def translate_proxy_headers(environ, start_response):\n        untrusted_headers = PROXY_HEADERS\n        remote_peer = environ[\"REMOTE_ADDR\"]\n        if trusted_proxy == \"*\" or remote_peer == trusted_proxy:", "    proxy = trusted_proxy\n\n    def translate_proxy_headers(environ, start_response):\n        untrusted_headers = PROXY_HEADERS\n        remote_peer = environ[\"REMOTE_ADDR\"]\n        if proxy == \"*\" or remote_peer == proxy:"),
    M("parse-before-test", "proxy_headers.py", "        untrusted_headers = PROXY_HEADERS\n        remote_peer = environ[\"REMOTE_ADDR\"]\n        if trusted_proxy == \"*\" or remote_peer == trusted_proxy:", "        untrusted_headers = PROXY_HEADERS\n        remote_peer = environ[\"REMOTE_ADDR\"]\n        if True:", "R1"),
    M("trust-when-unset", "proxy_headers.py", "if trusted_proxy == \"*\" or remote_peer == trusted_proxy:", "if trusted_proxy == \"*\" or remote_peer == trusted_proxy or not trusted_proxy:", "R1"),
    M("peer-from-header", "proxy_headers.py", "remote_peer = environ[\"REMOTE_ADDR\"]", "remote_peer = environ.get(\"HTTP_X_REAL_IP\", environ[\"REMOTE_ADDR\"])", "R1"),
    M("scheme-in-middleware", "proxy_headers.py", "        # Clear out the untrusted proxy headers\n        if clear_untrusted:", "        if \"HTTP_X_FORWARDED_PROTO\" in environ:\n            environ[\"wsgi.url_scheme\"] = environ[\"HTTP_X_FORWARDED_PROTO\"]\n        # Clear out the untrusted proxy headers\n        if clear_untrusted:", "R2"),
    M("clear-subset", "proxy_headers.py", "        untrusted_headers = PROXY_HEADERS\n        remote_peer", "        untrusted_headers = PROXY_HEADERS - {\"X_FORWARDED_BY\"}\n        remote_peer", "R3"),
    M("six-minus-one", "proxy_headers.py", "        \"X_FORWARDED_BY\",\n        \"FORWARDED\",", "        \"FORWARDED\",", "R3"),
    M("clear-only-if-trusted", "proxy_headers.py", "        if clear_untrusted:\n            clear_untrusted_headers(", "        if clear_untrusted and trusted_proxy:\n            clear_untrusted_headers(", "R3"),
    M("install-only-if-trusted", "server.py", "if adj.trusted_proxy or adj.clear_untrusted_proxy_headers:", "if adj.trusted_proxy:", "R5"),
    M("keyword-swapped", "server.py", "                clear_untrusted=adj.clear_untrusted_proxy_headers,\n                log_untrusted=adj.log_untrusted_proxy_headers,", "                clear_untrusted=adj.log_untrusted_proxy_headers,\n                log_untrusted=adj.clear_untrusted_proxy_headers,", "R5"),
    M("pop-wrong-key", "proxy_headers.py", "if environ.pop(\"HTTP_\" + header, False) is not False", "if environ.pop(header, False) is not False", "R2"),
    M("remote-addr-elsewhere", "channel.py", "        self.connected = True\n        self.addr = addr\n", "        self.connected = True\n        self.addr = addr\n        self.environ_overrides = {}\n        self.environ_overrides[\"REMOTE_ADDR\"] = addr\n", "R4"),
    T("invert-if", "proxy_headers.py", "        # Clear out the untrusted proxy headers\n        if clear_untrusted:\n            clear_untrusted_headers(\n                environ, untrusted_headers, log_warning=log_untrusted, logger=logger\n            )\n", "        # Clear out the untrusted proxy headers\n        if not clear_untrusted:\n            pass\n        else:\n            clear_untrusted_headers(\n                environ, untrusted_headers, log_warning=log_untrusted, logger=logger\n            )\n"),
    T("peer-test-swapped", "proxy_headers.py", "if trusted_proxy == \"*\" or remote_peer == trusted_proxy:", "if remote_peer == trusted_proxy or trusted_proxy == \"*\":"),
]
