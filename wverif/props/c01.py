"""C01 — request framing is unambiguous and agrees with RFC 9112 (framing decisions)."""
from __future__ import annotations

import ast

from .. import grammar as G
from ..cfg import cfg_of
from ..locks import accesses
from ..model import AnalysisError, NotConst, dotted, norm, walk_own
from ..relang import mask_bytes, mask_of
from ..strlang import MatchV, Poison, Str
from . import c10
from .common import assigned_names, find_calls, guards_of, key_of, leads_only_to_raise, mentions, mentions_attr

EXPLANATION = (
    "Static analysis of the framing *decisions*: (R1) every framing-critical token (Content-Length, chunk-size, "
    "chunk-ext, field line, request line, trailer line) reaches its consumption point only with a value inside the RFC "
    "grammar - decided on automata as in C10, plus existence of a gate for every client byte region that ends a "
    "message; (R2) duplicate singleton fields raise before either header store; (R3) no dash/underscore alias; (R4) the "
    "Transfer-Encoding decision (every coding is 'chunked', last, exactly once, anything else raises); (R5) strip-family "
    "calls on client bytes only remove SP/HTAB; (R6) Content-Length removed and close verdict set when both framings "
    "are present; (R7) the close verdict is read by the persistence decision; (R8) Transfer-Encoding is examined on "
    "every version path; (R9) bare CR/LF tests dominate line acceptance; (R10) exactly one body receiver per path; "
    "(R11) an error verdict routes to the closing error task. Equality with an RFC parser's output for every byte "
    "stream and termination of the parse loops are not decided."
)


def rule_r1(ctx):
    """C10's gates decide framing: taken over under C01.R1, plus the trailer."""
    c10.rule_g1(ctx, rid="C01.R1.content-length")
    c10.rule_g2_g3(ctx, rid2="C01.R1.chunk-size", rid3="C01.R1.chunk-ext")
    c10.rule_g4(ctx, rid="C01.R1.field-line")
    c10.rule_g5(ctx, rid="C01.R1.request-line")
    rid = "C01.R1.trailer"
    ctx.r.rule(rid, "trailer section: the message is completed only after every trailer line was checked; accepted lines are within the field-line grammar")
    p = ctx.p
    it = c10.get_interp(ctx)
    f = p.func("receiver.ChunkedReceiver.received")
    ans = it.by_func.get(f.qual, [])
    if not ans:
        raise AnalysisError("ChunkedReceiver.received not analysed")
    an = ans[0]
    g = an.cfg
    # completion nodes of the non-empty-trailer branch: completed = True dominated by a find_double_newline result >= 0
    comp = [n for n in g.nodes if n.kind == "stmt" and isinstance(n.ast, ast.Assign) and any(dotted(t) == "self.completed" for t in n.ast.targets)
            and isinstance(n.ast.value, ast.Constant) and n.ast.value.value is True]
    nonempty = []
    for c in comp:
        gs = guards_of(g, c)
        from .common import startswith_fact
        if any(isinstance(t, ast.Call) and isinstance(t.func, ast.Attribute) and t.func.attr == "startswith" and pol for (t, pol) in gs) \
                or any(startswith_fact(t, pol, lambda x: True, b"\r\n") is True for (t, pol) in gs):
            continue  # the "no trailer" exit
        nonempty.append(c)
    if not nonempty:
        raise AnalysisError("cannot find the completion of a non-empty trailer")
    for c in nonempty:
        loops = [n for n in g.nodes if n.kind == "iter" and (g.dominates(c, n) or g.dominates(n, c)) and n.id in an.inst]
        loops = [l for l in loops if any(isinstance(x, ast.Assign) and any(dotted(t) == "self.error" for t in x.targets) for x in ast.walk(l.ast))]
        if not loops:
            ctx.r.violation(rid, key_of(f, None, "trailer-unvalidated"),
                            "the trailer section reaches `completed = True` through no gate: lines with bare LF, control bytes or no colon end the message", f.loc(c.ast),
                            {"witness": repr(b"0\r\nX: y\nZ\r\n\r\n")})
            continue
        for lp in loops:
            var = lp.ast.target.id if isinstance(lp.ast.target, ast.Name) else None
            errs = [n for n in g.nodes if n.kind == "stmt" and isinstance(n.ast, ast.Assign) and any(dotted(t) == "self.error" for t in n.ast.targets) and any(x is n.ast for x in ast.walk(lp.ast))]
            # accepting side: branch nodes inside the loop from which no error store is reachable within the iteration
            acc = []
            for b in g.nodes:
                if b.kind != "branch" or b.id not in an.outst or not any(x is b.ast or x is getattr(b, "stmt", None) for x in ast.walk(lp.ast)):
                    continue
                r = g.reach(b, avoid=[lp], follow_exc=False)
                if any(e.id in r for e in errs):
                    continue
                # terminal: no further test of the same if-statement reachable
                more = [t for t in g.nodes if t.kind == "test" and t.id in r and t.stmt is b.stmt]
                if more:
                    continue
                acc.append(b)
            if not acc:
                ctx.r.error(rid, "cannot identify the accepting side of the trailer line test")
                continue
            for b in acc:
                val = an.outst[b.id].get(var)
                if val is None:
                    ctx.r.error(rid, "trailer loop variable not live")
                    continue
                c10._report_value(ctx, rid, "trailer line", f, b, val, G.field_line, 0, "the accepted trailer")
    ctx.r.ok(rid, "trailer completion is preceded by line validation") if not [v for v in ctx.r.violations if v["rule"] == rid] else None


def _parse_header(ctx):
    f = ctx.p.func("parser.HTTPRequestParser.parse_header")
    return f, cfg_of(f)


def rule_r2(ctx):
    rid = "C01.R2"
    ctx.r.rule(rid, "duplicate singleton fields (incl. Content-Length) raise before either store into the header map")
    p = ctx.p
    f, g = _parse_header(ctx)
    single = p.const("parser", "SINGLETON_FIELDS")
    if "CONTENT_LENGTH" in single:
        ctx.r.ok(rid, "SINGLETON_FIELDS contains CONTENT_LENGTH (%s)" % sorted(single), "src/waitress/parser.py")
    else:
        ctx.r.violation(rid, "singleton-set::CONTENT_LENGTH", "CONTENT_LENGTH is not a singleton field: two Content-Length fields are merged ('5, 5')", "src/waitress/parser.py")
    stores = [n for n in g.nodes if n.kind == "stmt" and isinstance(n.ast, (ast.Assign, ast.AugAssign))
              and any(isinstance(t, ast.Subscript) and dotted(t.value) == "headers" for t in (n.ast.targets if isinstance(n.ast, ast.Assign) else [n.ast.target]))]
    ctx.r.floor(rid, len(stores), 2, "header map stores")
    # tests: key in SINGLETON (folds to the set) and key in headers
    t_single = []
    t_in = []
    for n in g.nodes:
        if n.kind == "branch" and n.polarity and isinstance(n.ast, ast.Compare) and isinstance(n.ast.ops[0], ast.In):
            comp = n.ast.comparators[0]
            try:
                v = p.fold(comp, f.module)
            except NotConst:
                v = None
            if isinstance(v, frozenset) and "CONTENT_LENGTH" in v:
                t_single.append(n)
            elif dotted(comp) == "headers":
                t_in.append(n)
    ok = False
    for a in t_single:
        for b in t_in:
            if g.dominates(a, b) and norm(a.ast.left) == norm(b.ast.left) and leads_only_to_raise(g, b):
                key = norm(a.ast.left)
                if all(g.dominates(a_test, s) for s in stores for a_test in [x for x in g.nodes if x.kind == "test" and x.ast is a.ast]):
                    # the stores use the same key
                    if all(any(isinstance(t, ast.Subscript) and norm(t.slice) == key for t in (s.ast.targets if isinstance(s.ast, ast.Assign) else [s.ast.target])) for s in stores):
                        ok = True
    if ok:
        ctx.r.ok(rid, "'key in SINGLETON and key in headers -> raise' precedes both stores, on the stored key", f.loc(stores[0].ast))
    else:
        ctx.r.violation(rid, key_of(f, None, "duplicate-test"), "the header stores are not preceded by a duplicate-singleton test that raises", f.loc(stores[0].ast) if stores else f.loc())


def rule_r3(ctx, rid="C01.R3"):
    ctx.r.rule(rid, "the '-' to '_' mapping of a field name is dominated by the 'name contains _ -> skip' test on the same value")
    f, g = _parse_header(ctx)
    maps = []
    for n in g.nodes:
        if n.kind == "stmt" and isinstance(n.ast, ast.Assign):
            for c in ast.walk(n.ast.value):
                if isinstance(c, ast.Call) and isinstance(c.func, ast.Attribute) and c.func.attr == "replace" and len(c.args) == 2 \
                        and isinstance(c.args[0], ast.Constant) and c.args[0].value in (b"-", "-") and isinstance(c.args[1], ast.Constant) and c.args[1].value in (b"_", "_"):
                    # root variable of the chain
                    x = c.func.value
                    while isinstance(x, ast.Call) and isinstance(x.func, ast.Attribute):
                        x = x.func.value
                    maps.append((n, dotted(x)))
    if not maps:
        raise AnalysisError("no dash-to-underscore normalisation found in parse_header")
    for n, var in maps:
        ok = any((not pol) and isinstance(t, ast.Compare) and isinstance(t.ops[0], ast.In) and isinstance(t.left, ast.Constant) and t.left.value in (b"_", "_")
                 and dotted(t.comparators[0]) == var for (t, pol) in guards_of(g, n))
        if ok:
            ctx.r.ok(rid, "names containing '_' are skipped before normalisation", f.loc(n.ast))
        else:
            ctx.r.violation(rid, key_of(f, None, "underscore-alias"), "field names containing '_' reach the dash-to-underscore mapping: Content_Length aliases Content-Length", f.loc(n.ast))


def rule_r4(ctx):
    rid = "C01.R4"
    ctx.r.rule(rid, "Transfer-Encoding: chunked decoding is selected only if every coding is 'chunked', the last one is, and exactly one; every other non-empty list raises")
    p = ctx.p
    f, g = _parse_header(ctx)
    store = [n for n in g.nodes if n.kind == "stmt" and isinstance(n.ast, ast.Assign) and any(dotted(t) == "self.chunked" for t in n.ast.targets)
             and isinstance(n.ast.value, ast.Constant) and n.ast.value.value is True]
    if not store:
        ctx.r.violation(rid, key_of(f, None, "chunked-never-selected"), "parse_header never selects chunked decoding: a Transfer-Encoding: chunked body is framed by something else", f.loc())
        return
    if len(store) != 1:
        raise AnalysisError("expected exactly one `self.chunked = True` store, found %d" % len(store))
    s = store[0]
    # list variable: the one whose [-1] is compared with "chunked"
    lv = None
    for (t, pol) in guards_of(g, s):
        if pol and isinstance(t, ast.Compare) and isinstance(t.left, ast.Subscript) and isinstance(t.ops[0], ast.Eq) and isinstance(t.comparators[0], ast.Constant) and t.comparators[0].value == "chunked":
            idx = t.left.slice
            if isinstance(idx, ast.UnaryOp) and isinstance(idx.op, ast.USub) and isinstance(idx.operand, ast.Constant) and idx.operand.value == 1:
                lv = dotted(t.left.value)
            else:
                ctx.r.violation(rid, key_of(f, None, "not-last"), "chunked is tested at position %s, not last" % norm(idx), f.loc(s.ast))
                lv = dotted(t.left.value)
    if lv is None:
        ctx.r.violation(rid, key_of(f, None, "last-not-tested"), "self.chunked = True is not guarded by 'last coding == chunked'", f.loc(s.ast))
        return
    ctx.r.ok(rid, "chunked selected only when the last coding is 'chunked'", f.loc(s.ast))
    if any(pol and dotted(t) == lv for (t, pol) in guards_of(g, s)):
        ctx.r.ok(rid, "and the list is non-empty", f.loc(s.ast))
    else:
        ctx.r.violation(rid, key_of(f, None, "empty-list"), "the coding list is indexed without a non-empty test", f.loc(s.ast))
    # (i) membership loop
    ok_member = False
    for it in [n for n in g.nodes if n.kind == "iter" and dotted(n.ast.iter) == lv]:
        tv = it.ast.target.id if isinstance(it.ast.target, ast.Name) else None
        for b in g.nodes:
            if b.kind == "branch" and isinstance(b.ast, ast.Compare) and any(x is getattr(b.ast, "_negated_from", b.ast) for x in ast.walk(it.ast)) and dotted(b.ast.left) == tv:
                op = b.ast.ops[0]
                comp = b.ast.comparators[0]
                try:
                    v = p.fold(comp, f.module)
                except NotConst:
                    v = None
                allowed = None
                if isinstance(op, (ast.NotIn, ast.In)) and isinstance(v, (frozenset, set, tuple, list)):
                    allowed = set(v)
                elif isinstance(op, (ast.NotEq, ast.Eq)) and isinstance(v, str):
                    allowed = {v}
                if allowed is None:
                    continue
                refusing = b.polarity if isinstance(op, (ast.NotIn, ast.NotEq)) else not b.polarity
                if refusing and leads_only_to_raise(g, b):
                    if allowed == {"chunked"}:
                        ok_member = True
                        ctx.r.ok(rid, "every coding must be in {'chunked'} else TransferEncodingNotImplemented", f.loc(b.ast))
                    else:
                        ctx.r.violation(rid, key_of(f, None, "codings-allowed::" + ",".join(sorted(map(str, allowed)))),
                                        "transfer codings %s are accepted; only 'chunked' may be (identity was removed by RFC 7230)" % sorted(allowed), f.loc(b.ast))
                        ok_member = True
        if ok_member and not g.dominates(it, s):
            ctx.r.violation(rid, key_of(f, None, "membership-after"), "the membership loop does not precede the chunked decision", f.loc(it.ast))
    if not ok_member:
        ctx.r.violation(rid, key_of(f, None, "no-membership-test"), "no loop refuses transfer codings other than 'chunked'", f.loc(s.ast))
    # (iii) exactly one
    def _counts_chunked(c):
        if dotted(c.func) == "len":
            return True
        if dotted(c.func) == lv + ".count" and len(c.args) == 1 and isinstance(c.args[0], ast.Constant) and c.args[0].value == "chunked":
            return True
        # sum(1 for e in L if e == 'chunked')
        if dotted(c.func) == "sum" and len(c.args) == 1 and isinstance(c.args[0], (ast.GeneratorExp, ast.ListComp)) and len(c.args[0].generators) == 1:
            ge = c.args[0]
            gen = ge.generators[0]
            return isinstance(ge.elt, ast.Constant) and ge.elt.value == 1 and dotted(gen.iter) == lv and len(gen.ifs) == 1 and "'chunked'" in norm(gen.ifs[0])
        return False
    cnt = [(t, pol) for (t, pol) in guards_of(g, s) if isinstance(t, ast.Compare) and isinstance(t.left, ast.Call)
           and _counts_chunked(t.left)
           and isinstance(t.comparators[0], ast.Constant) and t.comparators[0].value == 1]
    okc = any((isinstance(t.ops[0], ast.NotEq) and not pol) or (isinstance(t.ops[0], ast.Eq) and pol) for (t, pol) in cnt)
    whole = any(pol and isinstance(t, ast.Compare) and dotted(t.left) == lv and isinstance(t.ops[0], ast.Eq) for (t, pol) in guards_of(g, s))
    if okc or whole:
        ctx.r.ok(rid, "exactly one 'chunked' coding", f.loc(s.ast))
    else:
        ctx.r.violation(rid, key_of(f, None, "multiple-chunked"), "'chunked, chunked' is accepted: no exactly-once test guards the chunked decision", f.loc(s.ast))
    # (iv) other non-empty lists raise: from the false branch of the last==chunked test with a non-empty list no path reaches the exit
    for b in g.nodes:
        if b.kind == "branch" and not b.polarity and isinstance(b.ast, ast.Compare) and isinstance(b.ast.left, ast.Subscript) and dotted(b.ast.left.value) == lv:
            nonempty_false = [x for x in g.nodes if x.kind == "branch" and x.polarity and dotted(x.ast) == lv and x.id in g.reach(b, follow_exc=False)]
            if nonempty_false and all(leads_only_to_raise(g, x) for x in nonempty_false):
                ctx.r.ok(rid, "a non-empty coding list not ending in 'chunked' raises", f.loc(b.ast))
            else:
                ctx.r.violation(rid, key_of(f, None, "other-codings-fall-through"), "a non-empty coding list that does not end in 'chunked' is not refused", f.loc(b.ast))
    # the receiver
    cr = [n for n, c in find_calls(g, lambda c: (dotted(c.func) or "").endswith("ChunkedReceiver"))]
    for n in cr:
        if g.dominates(s, n) or any(pol and dotted(t) == "self.chunked" for (t, pol) in guards_of(g, n)):
            ctx.r.ok(rid, "ChunkedReceiver constructed only after the chunked decision", f.loc(n.ast))
        else:
            ctx.r.violation(rid, key_of(f, None, "chunked-receiver-unguarded"), "ChunkedReceiver constructed outside the chunked decision", f.loc(n.ast))


_CLIENT_FUNCS = ("parser.HTTPRequestParser.received", "parser.HTTPRequestParser.parse_header", "parser.get_header_lines", "parser.crack_first_line",
                 "parser.split_uri", "receiver.ChunkedReceiver.received", "receiver.FixedStreamReceiver.received")


def rule_r5(ctx, rid="C01.R5"):
    ctx.r.rule(rid, "strip/lstrip/rstrip/split() applied to client bytes in the parser and receivers have an explicit constant argument whose characters are SP/HTAB only")
    p = ctx.p
    n_sites = 0
    allowed = mask_of(b" \t")
    for q in _CLIENT_FUNCS:
        f = p.func(q)
        for c in ast.walk(f.node):
            if not (isinstance(c, ast.Call) and isinstance(c.func, ast.Attribute) and c.func.attr in ("strip", "lstrip", "rstrip", "split", "rsplit", "splitlines")):
                continue
            meth = c.func.attr
            if meth in ("split", "rsplit") and c.args:
                continue  # explicit separator: not whitespace-class semantics
            if meth == "splitlines":
                n_sites += 1
                ctx.r.violation(rid, key_of(f, c, "splitlines"), "splitlines() on client bytes splits on VT/FF/FS/GS/NEL...", f.loc(c))
                continue
            n_sites += 1
            if not c.args:
                ctx.r.violation(rid, key_of(f, None, "bare-%s::%s" % (meth, norm(c.func.value)[:40])),
                                "%s on client bytes removes \\x0b \\x0c \\r \\n (CVE-2019-16786 class): %s" % (meth + "()", norm(c)[:60]), f.loc(c),
                                {"witness": repr(b"\x0b")})
                continue
            try:
                v = p.fold(c.args[0], f.module)
            except NotConst:
                ctx.r.violation(rid, key_of(f, c, "nonconstant-strip"), "strip with a non-constant argument on client bytes", f.loc(c))
                continue
            b = v.encode("latin-1") if isinstance(v, str) else v
            extra = mask_of(b) & ~allowed
            if extra:
                ctx.r.violation(rid, key_of(f, None, "strip-chars::%s::%s" % (meth, bytes(mask_bytes(extra)).hex())), "%s strips %r, more than SP/HTAB" % (norm(c)[:50], bytes(mask_bytes(extra))), f.loc(c))
            else:
                ctx.r.ok(rid, "%s strips only SP/HTAB" % norm(c)[:50], f.loc(c))
    ctx.r.floor(rid, n_sites, 2, "strip-family calls on client bytes")


def rule_r6(ctx, rid="C01.R6"):
    ctx.r.rule(rid, "Content-Length together with chunked: the Content-Length is removed from the map and the parser's close verdict is set")
    f, g = _parse_header(ctx)
    store = [n for n in g.nodes if n.kind == "stmt" and isinstance(n.ast, ast.Assign) and any(dotted(t) == "self.chunked" for t in n.ast.targets)]
    pops = [(n, c) for n, c in find_calls(g, lambda c: dotted(c.func) in ("headers.pop",) and c.args and isinstance(c.args[0], ast.Constant) and c.args[0].value == "CONTENT_LENGTH")]
    pops = [(n, c) for (n, c) in pops if store and (g.dominates(store[0], n))]
    if not pops:
        # the same removal spelled `if "CONTENT_LENGTH" in headers: del headers["CONTENT_LENGTH"]; <close verdict>`
        dels = [n for n in g.nodes if n.kind == "stmt" and isinstance(n.ast, ast.Delete) and any(isinstance(t, ast.Subscript) and dotted(t.value) == "headers" and isinstance(t.slice, ast.Constant) and t.slice.value == "CONTENT_LENGTH" for t in n.ast.targets)
                and store and g.dominates(store[0], n)]
        for dn in dels:
            member = [b for (t, pol, b) in g.guards(dn) if pol and isinstance(t, ast.Compare) and isinstance(t.ops[0], ast.In) and isinstance(t.left, ast.Constant) and t.left.value == "CONTENT_LENGTH" and dotted(t.comparators[0]) == "headers"]
            cc2 = [m for m in g.nodes if m.kind == "stmt" and isinstance(m.ast, ast.Assign) and any(dotted(t) == "self.connection_close" for t in m.ast.targets) and isinstance(m.ast.value, ast.Constant) and m.ast.value.value is True
                   and member and g.dominates(member[0], m)]
            # every path from "the field is there" to the end of the branch removes it and sets the verdict
            if member and cc2 and g.path(member[0], g.exit, avoid=[dn], follow_exc=False) is None and g.path(member[0], g.exit, avoid=cc2, follow_exc=False) is None:
                ctx.r.ok(rid, "Content-Length deleted on the chunked path and the close verdict set whenever it was there", f.loc(dn.ast))
                return
    if not pops:
        ctx.r.violation(rid, key_of(f, None, "cl-kept-with-te"), "with Transfer-Encoding: chunked a Content-Length stays in the header map (the application sees a length that does not frame the body)", f.loc())
        return
    ctx.r.ok(rid, "Content-Length popped on the chunked path", f.loc(pops[0][0].ast))
    n, c = pops[0]
    var = n.ast.targets[0].id if isinstance(n.ast, ast.Assign) and isinstance(n.ast.targets[0], ast.Name) else None
    cc = [m for m in g.nodes if m.kind == "stmt" and isinstance(m.ast, ast.Assign) and any(dotted(t) == "self.connection_close" for t in m.ast.targets)
          and isinstance(m.ast.value, ast.Constant) and m.ast.value.value is True and g.dominates(n, m)]
    ok = False
    what = var if var is not None else norm(c)  # the popped value: a local, or the pop itself tested in place
    for m in cc:
        gs = [(norm(t), pol) for (t, pol) in guards_of(g, m) if g.dominates(n, [x for x in g.nodes if x.kind == "branch" and x.ast is getattr(t, "_guard_of", t)][0])]
        if var is None:
            # the test that contains the pop is itself the node n: keep the guards made of that very test
            gs = [(norm(t), pol) for (t, pol) in guards_of(g, m) if any(x is c or getattr(x, "_orig", None) is getattr(c, "_orig", c) for x in ast.walk(t))]
        # presence, not truthiness: a `Content-Length:` with an empty value is a Content-Length all the same
        if gs in ([("%s is not None" % what, True)], [("%s is None" % what, False)], [] if var is not None else None):
            ok = True
    if ok:
        ctx.r.ok(rid, "close verdict set whenever a Content-Length accompanied Transfer-Encoding", f.loc(cc[0].ast))
    else:
        ctx.r.violation(rid, key_of(f, None, "cl-te-no-close"), "Content-Length + Transfer-Encoding does not set the close verdict", f.loc(n.ast))


def rule_r7(ctx, rid="C01.R7"):
    ctx.r.rule(rid, "the parser's close verdict is live: it is read by the function that decides the response's persistence")
    p = ctx.p
    f = p.func("task.Task.build_response_header")
    g = cfg_of(f)
    reads = []
    for n in g.nodes:
        if n.kind in ("test", "stmt") and n.ast is not None:
            for x in ast.walk(n.ast):
                if isinstance(x, ast.Attribute) and x.attr == "connection_close" and isinstance(x.ctx, ast.Load):
                    reads.append(n)
                if isinstance(x, ast.Call) and dotted(x.func) == "getattr" and len(x.args) >= 2 and isinstance(x.args[1], ast.Constant) and x.args[1].value == "connection_close":
                    reads.append(n)
    if not reads:
        # anywhere else in the package?
        any_read = [a for a in accesses(p, "connection_close") if a.kind == "read"]
        ctx.r.violation(rid, key_of(f, None, "verdict-dead"),
                        "HTTPRequestParser.connection_close is written by the parser but %s: Content-Length+Transfer-Encoding (and TE on HTTP/1.0) keep the connection open"
                        % ("never read" if not any_read else "not read by build_response_header"), f.loc())
        return
    ok = False
    for r in reads:
        if r.kind != "test":
            continue
        tb = [x for x in g.nodes if x.kind == "branch" and x.ast is r.ast and x.polarity]
        for b in tb:
            eff = [m for m in g.nodes if m.kind == "stmt" and g.dominates(b, m) and (
                (isinstance(m.ast, ast.Assign) and isinstance(m.ast.value, ast.Constant) and m.ast.value.value == "close") or
                any(isinstance(c, ast.Call) and dotted(c.func) == "self.set_close_on_finish" for c in ast.walk(m.ast)))]
            if eff:
                ok = True
    # the read happens before the ladder
    vt = [n for n in g.nodes if n.kind == "test" and isinstance(n.ast, ast.Compare) and (dotted(n.ast.left) or "").split(".")[-1] == "version"]
    if not vt:
        # the version decision is not a comparison ladder in this function (e.g. dispatched through a table):
        # whether the verdict precedes it cannot be read off here
        raise AnalysisError("build_response_header has no `version == ...` ladder: the place of the close verdict relative to the version decision is not decided")
    before = all(any(g.dominates(r, v) for r in reads if r.kind == "test") for v in vt)
    if ok and before:
        ctx.r.ok(rid, "close verdict consulted before the version ladder and turned into 'close'", f.loc(reads[0].ast))
    else:
        ctx.r.violation(rid, key_of(f, None, "verdict-ineffective"), "connection_close is read but does not force closing before the version ladder", f.loc(reads[0].ast))


def rule_r8(ctx, rid="C01.R8"):
    ctx.r.rule(rid, "Transfer-Encoding is examined on every protocol-version path: outside HTTP/1.1 its presence sets the close verdict or refuses")
    f, g = _parse_header(ctx)
    te_nodes = []
    for n in g.nodes:
        if n.ast is None or n.kind not in ("test", "stmt"):
            continue
        if any(isinstance(x, ast.Constant) and x.value == "TRANSFER_ENCODING" for x in ast.walk(n.ast)):
            te_nodes.append(n)
    if not te_nodes:
        ctx.r.violation(rid, key_of(f, None, "te-ignored"), "parse_header never looks at the Transfer-Encoding field: every transfer coding is silently ignored", f.loc())
        return
    not_all = None
    only11 = [n for n in te_nodes if any(pol and isinstance(t, ast.Compare) and norm(t).replace('"', "'") == "version == '1.1'" for (t, pol) in guards_of(g, n))]
    other = [n for n in te_nodes if n not in only11]
    ok = False
    for n in other:
        if n.kind != "test":
            continue
        tb = [x for x in g.nodes if x.kind == "branch" and x.ast is n.ast and x.polarity]
        for b in tb:
            eff = [m for m in g.nodes if m.kind == "stmt" and g.dominates(b, m) and (
                (isinstance(m.ast, ast.Assign) and any(dotted(t) == "self.connection_close" for t in m.ast.targets) and isinstance(m.ast.value, ast.Constant) and m.ast.value.value is True)
                or isinstance(m.ast, ast.Raise))]
            if eff:
                # the test must be reachable for non-1.1 versions: not dominated by version == 1.1 True
                ok = True
                # ... for EVERY version other than 1.1 (the request-line grammar admits any DIGIT.DIGIT, and no version
                # at all): the version tests that guard the effect are evaluated for 1.0, 0.9, 2.0, 1.2 and ''
                for m in eff:
                    for ver in ("1.0", "0.9", "2.0", "1.2", ""):
                        for (t, pol) in guards_of(g, m):
                            if isinstance(t, ast.Compare) and len(t.ops) == 1 and isinstance(t.ops[0], (ast.Eq, ast.In)) and dotted(t.left) in ("version", "self.version"):
                                try:
                                    cv = ctx.p.fold(t.comparators[0], f.module)
                                except Exception:
                                    continue
                                val = (ver == cv) if isinstance(t.ops[0], ast.Eq) else (ver in cv)
                                if val != pol and not_all is None:
                                    not_all = (ver, norm(t), pol)
    if ok and not_all is not None:
        ctx.r.violation(rid, key_of(f, None, "te-not-every-version"), "the close verdict for a Transfer-Encoding outside HTTP/1.1 is only taken under `%s%s`: a request line with version %r (accepted, treated as 1.0 by the response side) keeps the connection open and the bytes a TE-aware peer takes for the body are executed as the next request"
                        % ("" if not_all[2] else "not ", not_all[1], not_all[0]), f.loc(other[0].ast))
    elif ok:
        ctx.r.ok(rid, "a Transfer-Encoding outside HTTP/1.1 sets the close verdict / is refused", f.loc(other[0].ast))
    else:
        ctx.r.violation(rid, key_of(f, None, "te-only-1.1"),
                        "TRANSFER_ENCODING is only examined under version == '1.1': an HTTP/1.0 keep-alive request with Transfer-Encoding: chunked keeps the connection and its body is parsed as the next request", f.loc(te_nodes[0].ast))


def rule_r9(ctx):
    rid = "C01.R9"
    ctx.r.rule(rid, "each line accepted by get_header_lines, and the request line, is dominated by a 'contains CR or LF -> raise' test on that value")
    p = ctx.p
    f = p.func("parser.get_header_lines")
    g = cfg_of(f)
    sites = []
    for n in g.nodes:
        if n.kind == "stmt" and isinstance(n.ast, ast.Expr) and isinstance(n.ast.value, ast.Call) and isinstance(n.ast.value.func, ast.Attribute) and n.ast.value.func.attr == "append":
            sites.append((n, n.ast.value.args[0]))
        elif n.kind == "stmt" and isinstance(n.ast, ast.AugAssign) and isinstance(n.ast.target, ast.Subscript):
            sites.append((n, n.ast.value))
        elif n.kind == "stmt" and isinstance(n.ast, ast.Assign) and len(n.ast.targets) == 1 and isinstance(n.ast.targets[0], ast.Subscript) and isinstance(n.ast.value, ast.BinOp) \
                and isinstance(n.ast.value.op, ast.Add) and norm(n.ast.value.left) == norm(n.ast.targets[0]):
            sites.append((n, n.ast.value.right))  # r[-1] = r[-1] + line
    ctx.r.floor(rid, len(sites), 2, "line acceptance sites in get_header_lines")
    for (n, val) in sites:
        v = dotted(val)
        for ch in (b"\r", b"\n"):
            ok = any((not pol) and isinstance(t, ast.Compare) and isinstance(t.ops[0], ast.In) and isinstance(t.left, ast.Constant) and t.left.value == ch and dotted(t.comparators[0]) == v
                     for (t, pol) in guards_of(g, n))
            if ok:
                ctx.r.ok(rid, "%s only without %r" % (norm(n.ast)[:30], ch), f.loc(n.ast))
            else:
                ctx.r.violation(rid, key_of(f, n.ast, "bare-%s" % ("CR" if ch == b"\r" else "LF")), "a header line containing a bare %s is accepted" % ("CR" if ch == b"\r" else "LF"), f.loc(n.ast))
    # the raising side raises
    for b in g.nodes:
        if b.kind == "branch" and b.polarity and isinstance(b.ast, ast.Compare) and isinstance(b.ast.left, ast.Constant) and b.ast.left.value in (b"\r", b"\n"):
            if leads_only_to_raise(g, b):
                ctx.r.ok(rid, "bare %r refuses" % b.ast.left.value, f.loc(b.ast))
            else:
                ctx.r.violation(rid, key_of(f, None, "crlf-test-not-refusing"), "the bare CR/LF test does not refuse", f.loc(b.ast))
    f2, g2 = _parse_header(ctx)
    calls = find_calls(g2, lambda c: dotted(c.func) == "crack_first_line")
    for n, c in calls:
        v = dotted(c.args[0]) if c.args else None
        for ch in (b"\r", b"\n"):
            ok = any((not pol) and isinstance(t, ast.Compare) and isinstance(t.ops[0], ast.In) and isinstance(t.left, ast.Constant) and t.left.value == ch and dotted(t.comparators[0]) == v
                     for (t, pol) in guards_of(g2, n))
            if ok:
                ctx.r.ok(rid, "request line only without %r" % ch, f2.loc(n.ast))
            else:
                ctx.r.violation(rid, key_of(f2, None, "request-line-bare-%s" % ("CR" if ch == b"\r" else "LF")), "a request line containing a bare %s reaches crack_first_line" % ("CR" if ch == b"\r" else "LF"), f2.loc(n.ast))


def rule_r10(ctx):
    rid = "C01.R10"
    ctx.r.rule(rid, "exactly one body receiver per path: the fixed-length one only when not chunked")
    f, g = _parse_header(ctx)
    fx = [n for n, c in find_calls(g, lambda c: (dotted(c.func) or "").endswith("FixedStreamReceiver"))]
    if not fx:
        raise AnalysisError("FixedStreamReceiver no longer constructed in parse_header")
    for n in fx:
        if any((not pol) and dotted(t) == "self.chunked" for (t, pol) in guards_of(g, n)):
            ctx.r.ok(rid, "FixedStreamReceiver only when not chunked", f.loc(n.ast))
        else:
            ctx.r.violation(rid, key_of(f, None, "both-receivers"), "a fixed-length receiver can replace the chunked one: Content-Length frames a chunked message", f.loc(n.ast))
        if any(pol and isinstance(t, ast.Compare) and isinstance(t.ops[0], ast.Gt) and isinstance(t.comparators[0], ast.Constant) and t.comparators[0].value == 0 for (t, pol) in guards_of(g, n)):
            ctx.r.ok(rid, "a receiver only for a positive length", f.loc(n.ast))
        else:
            ctx.r.violation(rid, key_of(f, None, "zero-length-receiver"), "a body receiver is installed for Content-Length: 0", f.loc(n.ast))


def rule_r11(ctx):
    from .c03 import rule_error_route
    rule_error_route(ctx, rid="C01.R11")


def rule_r12(ctx):
    """Shared with C06.R4: a malformed chunked body / trailer reported by the receiver is relayed as the parser's
    error before completion is consulted (otherwise the malformed message is delivered)."""
    from . import c06
    c06.rule_r4(ctx, rid="C01.R12")


def rule_r13(ctx):
    """Shared with C02.R2b: the receivers report exactly the bytes that belong to the message, so the byte after
    one message starts the next."""
    from . import c02
    c02.rule_r2_receivers(ctx, rid="C01.R13")


def rule_r14(ctx):
    """Shared with C02.R1/R2/R4: 'the byte after one message starts the next' - the head search joins the carried bytes, the
    consumed count is cut - len(carry), and the channel loop hands exactly the unconsumed suffix to a fresh parser."""
    from . import c02
    c02.rule_r1(ctx, rid="C01.R14")
    c02.rule_r2_header(ctx, rid="C01.R14")
    c02.rule_r4(ctx, rid="C01.R14")


def rule_r15(ctx):
    """Shared with C11.R1/R2: 'refused ... and the connection is closed' - the worker's close decision (flag, closing of the
    queued requests, queue reset) is one requests_lock region and received() tests the flags inside that lock, so bytes
    behind a refused or must-close message are never parsed."""
    from . import c11
    c11.rule_r1(ctx, rid="C01.R15")
    c11.rule_r2(ctx, rid="C01.R15")


def rule_r16(ctx):
    """Shared with C17.R1-R4: 'the requests handed to the application (... body bytes) are exactly the messages' - the framed
    body is kept in the receivers' buffer until the application reads it, so it is the framed bytes only if that buffer is
    a faithful queue, also across the spill to a temporary file."""
    from . import c17
    c17.rule_r1(ctx, rid="C01.R16")
    c17.rule_r2(ctx, rid="C01.R16")
    c17.rule_r3(ctx, rid="C01.R16")
    c17.rule_r4(ctx, rid="C01.R16")


def rule_r17(ctx):
    """Shared with C10.R11: 'a malformed chunk size ... is never delivered under a guessed framing' - every finished control
    line is judged (converted behind its gate, or refused); none is skipped."""
    from . import c10
    c10.rule_r11(ctx, rid="C01.R17")


RULES = [rule_r1, rule_r2, rule_r3, rule_r4, rule_r5, rule_r6, rule_r7, rule_r8, rule_r9, rule_r10, rule_r11, rule_r12, rule_r13, rule_r14, rule_r15, rule_r16, rule_r17]

from ..selftest import M, T, V  # noqa: E402

selftest = [
    M("cl-not-singleton", "parser.py", 'SINGLETON_FIELDS = frozenset({"HOST", "CONTENT_LENGTH", "CONTENT_TYPE"})', 'SINGLETON_FIELDS = frozenset({"HOST", "CONTENT_TYPE"})', "R2"),
    M("dup-test-after-store", "parser.py", "            if key1 in SINGLETON_FIELDS and key1 in headers:\n                raise ParsingError(f\"Duplicate header: {key.decode('latin-1')}\")\n", "", "R2"),
    M("underscore-alias", "parser.py", "            if b\"_\" in key:\n                # TODO(xistence): Should we drop this request instead?\n\n                continue\n", "", "R3"),
    M("bare-strip", "parser.py", 'encoding.strip(" \\t").lower() for encoding', 'encoding.strip().lower() for encoding', "R5"),
    M("value-bare-strip", "parser.py", 'value = value.strip(b" \\t")', 'value = value.strip()', "R5"),
    M("te-first", "parser.py", 'if encodings and encodings[-1] == "chunked":', 'if encodings and encodings[0] == "chunked":', "R4"),
    M("identity-allowed", "parser.py", 'if encoding not in {"chunked"}:', 'if encoding not in {"chunked", "identity"}:', "R4"),
    M("multi-chunked", "parser.py", "                if (\n                    len([encoding for encoding in encodings if encoding == \"chunked\"])\n                    != 1\n                ):\n                    raise TransferEncodingNotImplemented(\n                        \"Transfer-Encoding is invalid. Multiple chunked encodings requested.\"\n                    )\n", "", "R4"),
    M("cl-kept-with-te", "parser.py", '                cl = headers.pop("CONTENT_LENGTH", None)\n                if cl is not None:\n                    self.connection_close = True\n', "", "R6"),
    M("cl-te-no-close", "parser.py", '                if cl is not None:\n                    self.connection_close = True\n\n            elif encodings:', '                if cl is not None:\n                    pass\n\n            elif encodings:', "R6"),
    M("verdict-dead", "task.py", '        if getattr(self.request, "connection_close", False):\n            # the parser decided that the connection can not be reused after\n            # this message (e.g. Content-Length together with Transfer-Encoding)\n            connection = "close"\n', "", "R7"),
    M("te-only-11", "parser.py", '        if version != "1.1" and "TRANSFER_ENCODING" in headers:\n            # RFC 9112 6.1: a Transfer-Encoding in a message that is not\n            # HTTP/1.1 means the framing is faulty; the message may be\n            # processed but the connection must be closed afterwards.\n            self.connection_close = True\n\n', "", "R8"),
    M("no-lf-check", "parser.py", 'if b"\\r" in line or b"\\n" in line:\n            raise ParsingError(\n                \'Bare CR', 'if b"\\r" in line:\n            raise ParsingError(\n                \'Bare CR', "R9"),
    M("first-line-no-check", "parser.py", '        if b"\\r" in first_line or b"\\n" in first_line:\n            raise ParsingError("Bare CR or LF found in HTTP message")\n', "", "R9"),
    M("fixed-when-chunked", "parser.py", "        if not self.chunked:\n            cl = headers.get(\"CONTENT_LENGTH\", \"0\")", "        if True:\n            cl = headers.get(\"CONTENT_LENGTH\", \"0\")", "R10"),
    M("trailer-unvalidated", "receiver.py", "                    for line in trailer[: pos - 4].split(b\"\\r\\n\"):\n                        if (\n                            b\"\\r\" in line\n                            or b\"\\n\" in line\n                            or not HEADER_FIELD_RE.match(line)\n                        ):\n                            self.error = BadRequest(\"Invalid trailer\")\n", "", "R1"),
    M("trailer-lf-ok", "receiver.py", "                            b\"\\r\" in line\n                            or b\"\\n\" in line\n                            or not HEADER_FIELD_RE.match(line)", "                            b\"\\r\" in line\n                            or not HEADER_FIELD_RE.match(line)", "R1"),
    M("route-on-completed", "channel.py", "        if request.error:\n            task = self.error_task_class(self, request)", "        if not request.completed:\n            task = self.error_task_class(self, request)", "R11"),
    T("frozenset-to-set", "parser.py", 'SINGLETON_FIELDS = frozenset({"HOST", "CONTENT_LENGTH", "CONTENT_TYPE"})', 'SINGLETON_FIELDS = frozenset(("CONTENT_LENGTH", "HOST", "CONTENT_TYPE"))'),
    T("te-ne", "parser.py", 'if encoding not in {"chunked"}:', 'if encoding != "chunked":'),
    T("verdict-attr", "task.py", 'if getattr(self.request, "connection_close", False):', 'if self.request.connection_close:'),
    T("crlf-separate", "parser.py", '        if b"\\r" in first_line or b"\\n" in first_line:\n            raise ParsingError("Bare CR or LF found in HTTP message")\n', '        if b"\\n" in first_line:\n            raise ParsingError("Bare LF")\n        if b"\\r" in first_line:\n            raise ParsingError("Bare CR")\n'),
]
