"""C06 — oversize and malformed input is refused totally: error response, close, no crash."""
from __future__ import annotations

import ast

from .. import grammar as G
from ..callgraph import get_callgraph
from ..cfg import cfg_of
from ..excflow import (ExcClass, _node_of_call, enclosing_handlers, handler_behaviour, handler_catches,
                       primitive_sites, raise_arity, resolve_handler_classes)
from ..model import AnalysisError, NotConst, Sym, dotted, norm
from ..strlang import Poison, Str
from .common import find_calls, guards_of, key_of, mentions, mentions_attr, resolve_locals

EXPLANATION = (
    "Static exception-containment and limit-placement analysis. Scope = every function the call graph reaches from "
    "HTTPRequestParser.received. Every explicit raise and every raising primitive applied to client-controlled data "
    "(int() incl. the 4300-digit limit, urlsplit, non-latin-1 codecs, constant subscripts on possibly empty sequences, "
    "split-unpacks, match-object uses) is routed through the enclosing handlers and up the resolved call graph; it must "
    "be caught inside the scope. The header/body limit comparisons must dominate the parse call / the 'request ready' "
    "stores and refuse at equality (evaluated on <,=,>); every error store is paired with completed=True on all paths; "
    "receiver errors are relayed before 'completed' is consulted; the error classes carry the status codes the "
    "property names. 'Within one read', termination of the feed loop and memory use are runtime quantities and are not decided."
)

ROOT = "parser.HTTPRequestParser.received"
ENV_MODULES = ("buffers",)  # tempfile / OS errors are environment, not input


def scope(ctx):
    def mk():
        p = ctx.p
        cg = get_callgraph(p)
        r = cg.reachable([(p.func(ROOT), p.cls("parser.HTTPRequestParser"))])
        return {q for q in r if not q.split(".")[0] in ENV_MODULES}
    return ctx.memo("c06-scope", mk)


def _raised_class(p, f, rnode, current):
    e = rnode.ast.exc
    if e is None:
        return current
    if isinstance(e, ast.Call):
        e = e.func
    r = p.resolve_expr_static(f.module, e) if isinstance(e, (ast.Name, ast.Attribute)) else None
    if r and r[0] == "class":
        return r[1].qual
    d = dotted(e)
    if d:
        return d.split(".")[-1]
    return "BaseException"


def _constant_wellformed_call(p, site):
    c = site.node
    if not isinstance(c, ast.Call) or not c.args or c.keywords:
        return False
    try:
        vals = [p.fold(a, site.func.module) for a in c.args]
    except NotConst:
        return False
    if len(vals) != 1 or not isinstance(vals[0], bytes):
        return False
    head = vals[0]
    i = head.find(b"\r\n")
    return i >= 0 and G.request_line(G.TCHAR_NO_LOWER).contains(head[:i]) and head[i + 2:] == b""


def route_in_scope(ctx, sc, f, node, exc, seen=None, chain=None):
    """[('caught', func, handler node) | ('escape', func, chain)]"""
    p = ctx.p
    cg = get_callgraph(p)
    seen = seen if seen is not None else set()
    chain = (chain or []) + ["%s:%s" % (f.qual, getattr(node.ast, "lineno", "?"))]
    g = cfg_of(f)
    for handlers in enclosing_handlers(g, node):
        for h in handlers:
            if handler_catches(p, f, h.ast, exc):
                beh = handler_behaviour(g, h)
                if beh == "swallow":
                    return [("caught", f, h, chain)]
                out = []
                for rn in g.nodes:
                    if rn.kind == "stmt" and isinstance(rn.ast, ast.Raise) and any(x is rn.ast for x in ast.walk(h.ast)):
                        out += route_in_scope(ctx, sc, f, rn, _raised_class(p, f, rn, exc), seen, chain)
                if beh == "reraise-sometimes":
                    out.append(("caught", f, h, chain))
                return out
    if f.qual == ROOT:
        return [("escape", f, None, chain)]
    key = (f.qual, exc)
    if key in seen:
        return []
    seen.add(key)
    out = []
    for s in cg.callers.get(f.qual, []):
        if s.func.qual not in sc:
            continue
        if _constant_wellformed_call(p, s):
            # exemption (one reason): the call passes a constant, grammatical request head
            # (the synthetic b"GET / HTTP/1.0\r\n" of the header-too-large path); no client byte reaches it
            continue
        cn = _node_of_call(cfg_of(s.func), s.node)
        if cn is None:
            continue
        out += route_in_scope(ctx, sc, s.func, cn, exc, seen, chain)
    return out


def rule_r1(ctx):
    rid = "C06.R1"
    ctx.r.rule(rid, "exception containment: every raise / raising primitive on client data reachable from HTTPRequestParser.received is caught inside the parser")
    p = ctx.p
    sc = scope(ctx)
    ctx.r.floor(rid, len(sc), 10, "functions in the parse scope")
    ctx.r.note("parse_scope", sorted(sc))
    arity = raise_arity(p)
    from .c10 import get_interp
    it = get_interp(ctx)
    n_explicit = 0
    n_prim = 0
    for q in sorted(sc):
        f = p.functions[q]
        g = cfg_of(f)
        reach = g.reachable_nodes()
        # explicit raises
        for n in g.nodes:
            if n.id in reach and n.kind == "stmt" and isinstance(n.ast, ast.Raise) and n.ast.exc is not None:
                if isinstance(n.ast.exc, ast.Call) and dotted(n.ast.exc.func) == "NotImplementedError" or dotted(n.ast.exc) == "NotImplementedError":
                    continue
                exc = _raised_class(p, f, n, "BaseException")
                n_explicit += 1
                _judge(ctx, rid, sc, f, n, exc, "raise %s" % exc.split(".")[-1])
        # primitives
        for (n, exc, desc, info) in primitive_sites(p, f):
            if info["kind"] == "int" and info["base"] == 16:
                # power-of-two base: no digit limit; safe iff the argument is within 1*HEXDIG
                ok = False
                for an in it.by_func.get(q, []):
                    if n.id in an.inst:
                        v = it.eval(an, info["arg"], an.inst[n.id], n)
                        if isinstance(v, Str) and v.lang.subset_of(G.chunk_size):
                            ok = True
                        else:
                            ok = False
                            break
                if ok:
                    n_prim += 1
                    ctx.r.ok(rid, "%s: argument language within 1*HEXDIG, base 16 has no digit limit" % desc, f.loc(n.ast))
                    continue
            if info["kind"] == "exc-args":
                # e.args[0] inside a handler: safe iff every raise of the caught classes passes >= 1 arg
                hs = [h for h in ast.walk(f.node) if isinstance(h, ast.ExceptHandler) and any(x is info["expr"] for x in ast.walk(h))]
                safe = False
                if hs:
                    cls = resolve_handler_classes(p, f, hs[0]) or set()
                    names = {c.split(".")[-1] for c in cls}
                    safe = bool(names) and all(arity.get(nm, 0) >= 1 for nm in names)
                n_prim += 1
                if safe:
                    ctx.r.ok(rid, "%s: every raise of %s passes an argument" % (desc, sorted(names)), f.loc(n.ast))
                else:
                    ctx.r.violation(rid, key_of(f, None, "exc-args::" + desc), "%s may raise IndexError: some raise site passes no argument" % desc, f.loc(n.ast))
                continue
            if info["kind"] == "key":
                # dict lookups with literal keys on the header map etc.: routed like the others (KeyError) - unless a
                # membership test of the same key in the same mapping guards the lookup
                e = info["expr"]
                g0 = cfg_of(f)
                if any(pol and isinstance(t, ast.Compare) and len(t.ops) == 1 and isinstance(t.ops[0], ast.In) and norm(t.left) == norm(e.slice) and norm(t.comparators[0]) == norm(e.value)
                       for (t, pol) in guards_of(g0, n)):
                    ctx.r.ok(rid, "%s is guarded by a membership test" % desc, f.loc(n.ast))
                    continue
            n_prim += 1
            _judge(ctx, rid, sc, f, n, exc, desc)
    ctx.r.floor(rid, n_explicit, 10, "explicit raise sites in the parse scope")
    ctx.r.floor(rid, n_prim, 4, "raising primitives in the parse scope")


def _judge(ctx, rid, sc, f, n, exc, desc):
    res = route_in_scope(ctx, sc, f, n, exc)
    esc = [r for r in res if r[0] == "escape"]
    if esc:
        ctx.r.violation(rid, key_of(f, None, "escapes::%s::%s" % (exc.split(".")[-1], desc[:50])),
                        "%s (%s) in %s is not caught inside the parser: the exception escapes HTTPRequestParser.received, no error response is produced"
                        % (desc, exc.split(".")[-1], f.qual), f.loc(n.ast), {"path": esc[0][3]})
    elif res:
        h = res[0]
        ctx.r.ok(rid, "%s -> caught by `except %s` in %s" % (desc, norm(h[2].ast.type) if h[2].ast.type is not None else "<bare>", h[1].name), f.loc(n.ast))
    else:
        ctx.r.ok(rid, "%s: no caller inside the parse scope" % desc, f.loc(n.ast))


def _cmp_refuses_at_equality(t, qty_pred, lim_pred):
    """Comparison t is true for qty = lim and qty > lim, false for qty < lim."""
    from .common import eval_compare_on
    vals = {}
    for name, (a, b) in (("<", (0, 1)), ("=", (1, 1)), (">", (2, 1))):
        v = eval_compare_on(t, qty_pred, lim_pred, a, b)
        if v is None:
            return None
        vals[name] = v
    return vals


def _error_store_nodes(g, clsname=None):
    out = []
    for n in g.nodes:
        if n.kind == "stmt" and isinstance(n.ast, ast.Assign) and any(dotted(t) == "self.error" for t in n.ast.targets):
            out.append(n)
    return out


def rule_r2(ctx):
    rid = "C06.R2"
    ctx.r.rule(rid, "header limit: the parse of client head bytes is dominated by the comparison with max_request_header_size, which refuses at equality with 431, completes and returns")
    p = ctx.p
    f = p.func(ROOT)
    g = cfg_of(f)
    parses = [(n, c) for n, c in find_calls(g, lambda c: dotted(c.func) == "self.parse_header") if not (c.args and isinstance(c.args[0], ast.Constant))]
    if not parses:
        raise AnalysisError("received() no longer calls parse_header on client bytes")

    def is_hbr(x):
        return dotted(x) == "self.header_bytes_received"

    def is_lim(x):
        d = dotted(x)
        if d == "self.adj.max_request_header_size":
            return True
        if isinstance(x, ast.Name):
            # local alias
            for node in ast.walk(f.node):
                if isinstance(node, ast.Assign) and any(isinstance(t, ast.Name) and t.id == x.id for t in node.targets) and dotted(node.value) == "self.adj.max_request_header_size":
                    return True
        return False
    for n, c in parses:
        hit = None
        for (t, pol, b) in g.guards(n):
            if isinstance(t, ast.Compare) and any(is_hbr(x) for x in ast.walk(t)):
                vals = _cmp_refuses_at_equality(t, is_hbr, is_lim)
                if vals is None:
                    continue
                # on the path to the parse the comparison was `pol`
                refuse = {k: (v != pol) for k, v in vals.items()} if False else {k: (v if not pol else not v) for k, v in vals.items()}
                hit = (t, pol, b, refuse)
        if hit is None:
            ctx.r.violation(rid, key_of(f, None, "parse-before-limit"), "parse_header is called on client bytes without a dominating header-size test", f.loc(n.ast))
            continue
        t, pol, b, refuse = hit
        if refuse == {"<": False, "=": True, ">": True}:
            ctx.r.ok(rid, "head parsed only when header_bytes_received < max_request_header_size (refusal at equality)", f.loc(n.ast))
        else:
            ctx.r.violation(rid, key_of(f, None, "header-limit-comparison"), "header limit test %s refuses on %s; the property requires refusal when the head *reaches* the limit"
                            % (norm(t), [k for k, v in refuse.items() if v]), f.loc(b.ast))
        # the refusing branch
        other = [x for x in g.nodes if x.kind == "branch" and x.ast is getattr(t, "_guard_of", t) and x.polarity != pol]
        if other:
            ob = other[0]
            errs = [e for e in _error_store_nodes(g) if g.dominates(ob, e)]
            good = [e for e in errs if "RequestHeaderFieldsTooLarge" in norm(e.ast.value)]
            comp = [m for m in g.nodes if m.kind == "stmt" and isinstance(m.ast, ast.Assign) and any(dotted(x) == "self.completed" for x in m.ast.targets) and g.dominates(ob, m)]
            leaves = all(s.kind != "stmt" or True for s in [])
            no_parse_after = not any(pn.id in g.reach(ob, follow_exc=False) for pn, _ in parses)
            if good and comp and no_parse_after:
                ctx.r.ok(rid, "over-limit branch records 431, completes and does not parse the client head", f.loc(ob.ast))
            else:
                ctx.r.violation(rid, key_of(f, None, "header-refusal-branch"), "over-limit branch: 431 stored=%s completed=%s skips-parse=%s" % (bool(good), bool(comp), no_parse_after), f.loc(ob.ast))


def rule_r3(ctx, rid="C06.R3"):
    ctx.r.rule(rid, "body limits: declared length and chunked running total are compared with max_request_body_size, refusing at equality with 413 + completed")
    p = ctx.p
    f = p.func(ROOT)
    g = cfg_of(f)

    def is_lim(x):
        d = dotted(x)
        if d == "self.adj.max_request_body_size":
            return True
        if isinstance(x, ast.Name):
            for node in ast.walk(f.node):
                if isinstance(node, ast.Assign) and any(isinstance(t, ast.Name) and t.id == x.id for t in node.targets) and dotted(node.value) == "self.adj.max_request_body_size":
                    return True
        return False
    for qty, what in (("self.content_length", "declared Content-Length"), ("self.body_bytes_received", "running body total")):
        tnodes = [n for n in g.nodes if n.kind == "test" and isinstance(n.ast, ast.Compare) and any(dotted(x) == qty for x in ast.walk(n.ast)) and any(is_lim(x) for x in ast.walk(n.ast))]
        if not tnodes:
            ctx.r.violation(rid, key_of(f, None, "no-body-limit::" + qty), "no comparison of the %s with max_request_body_size" % what, f.loc())
            continue
        for tn in tnodes:
            vals = _cmp_refuses_at_equality(tn.ast, lambda x: dotted(x) == qty, is_lim)
            if vals is None:
                ctx.r.error(rid, "cannot evaluate %s" % norm(tn.ast))
                continue
            done = False
            for b in [x for x in g.nodes if x.kind == "branch" and x.ast is tn.ast]:
                errs = [e for e in _error_store_nodes(g) if g.dominates(b, e) and "RequestEntityTooLarge" in norm(e.ast.value)]
                if not errs:
                    continue
                done = True
                eff = {k: (v if b.polarity else not v) for k, v in vals.items()}
                comp = [m for m in g.nodes if m.kind == "stmt" and isinstance(m.ast, ast.Assign) and any(dotted(x) == "self.completed" for x in m.ast.targets) and g.dominates(b, m)]
                if eff != {"<": False, "=": True, ">": True}:
                    ctx.r.violation(rid, key_of(f, None, "body-limit-comparison::" + qty), "%s limit test %s refuses on %s (must refuse when the body reaches the limit)" % (what, norm(tn.ast), [k for k, v in eff.items() if v]), f.loc(tn.ast))
                elif comp:
                    ctx.r.ok(rid, "%s: refusal at equality records 413 and completes" % what, f.loc(tn.ast))
                else:
                    ctx.r.violation(rid, key_of(f, None, "body-refusal-branch::" + qty), "%s over limit: 413 stored but completed not set" % what, f.loc(tn.ast))
            if not done:
                ctx.r.violation(rid, key_of(f, None, "body-refusal-branch::" + qty), "%s limit test %s does not lead to a 413 refusal" % (what, norm(tn.ast)), f.loc(tn.ast))
    # chunked check happens after every body read: the test node is reached on every normal path from the body read
    reads = [n for n, c in find_calls(g, lambda c: isinstance(c.func, ast.Attribute) and c.func.attr == "received" and dotted(c.func.value) != "self")]
    tests = [n for n in g.nodes if n.kind == "test" and isinstance(n.ast, ast.Compare) and any(dotted(x) == "self.body_bytes_received" for x in ast.walk(n.ast))]
    for rn in reads:
        if tests and g.path(rn, g.exit, avoid=tests, follow_exc=False) is None:
            ctx.r.ok(rid, "every body read is followed by the running-total test", f.loc(rn.ast))
        else:
            ctx.r.violation(rid, key_of(f, None, "body-read-unchecked"), "a body read can return without the running-total limit test", f.loc(rn.ast))
    # accumulation: body_bytes_received += <the receiver's return value>
    accs = [n for n in g.nodes if n.kind == "stmt" and isinstance(n.ast, ast.AugAssign) and dotted(n.ast.target) == "self.body_bytes_received"]
    for a in accs:
        if isinstance(a.ast.op, ast.Add) and isinstance(a.ast.value, ast.Name) and any(isinstance(rn.ast, ast.Assign) and any(isinstance(t, ast.Name) and t.id == a.ast.value.id for t in rn.ast.targets) for rn in reads):
            ctx.r.ok(rid, "running total accumulates exactly the receiver's consumed count", f.loc(a.ast))
        else:
            ctx.r.violation(rid, key_of(f, None, "body-total-accounting"), "body_bytes_received is not accumulated from the receiver's return value: %s" % norm(a.ast), f.loc(a.ast))
    if not accs:
        ctx.r.violation(rid, key_of(f, None, "body-total-accounting"), "body_bytes_received is never accumulated", f.loc())


CODES = {"BadRequest": 400, "RequestHeaderFieldsTooLarge": 431, "RequestEntityTooLarge": 413, "ServerNotImplemented": 501, "InternalServerError": 500}


def rule_r4(ctx, rid="C06.R4"):
    ctx.r.rule(rid, "refusal pairing and codes: every parser error store is followed by completed=True on all paths; receiver errors are relayed before completed is consulted; error classes carry the named status codes")
    p = ctx.p
    for cname, code in CODES.items():
        c = p.cls("utilities." + cname)
        a = c.lookup_attr("code")
        try:
            v = p.fold(a[1], a[0].module) if a else None
        except NotConst:
            v = None
        if v == code:
            ctx.r.ok(rid, "%s.code == %d" % (cname, code), "src/waitress/utilities.py")
        else:
            ctx.r.violation(rid, "status-code::" + cname, "%s.code is %r, expected %d" % (cname, v, code), "src/waitress/utilities.py")
    f = p.func(ROOT)
    g = cfg_of(f)
    stores = _error_store_nodes(g)
    ctx.r.floor(rid, len(stores), 5, "parser error stores")
    comp = [m for m in g.nodes if m.kind == "stmt" and isinstance(m.ast, ast.Assign) and any(dotted(x) == "self.completed" for x in m.ast.targets)
            and isinstance(m.ast.value, ast.Constant) and m.ast.value.value is True]
    for s in stores:
        if g.path(s, g.exit, avoid=comp, follow_exc=False) is None:
            ctx.r.ok(rid, "error store %s is always followed by completed=True" % norm(s.ast.value)[:40], f.loc(s.ast))
        else:
            ctx.r.violation(rid, key_of(f, s.ast, "error-without-completed"), "the refusal %s can return without completed=True: it is never dispatched, the client gets no error response" % norm(s.ast)[:60], f.loc(s.ast))
    # class used per handler
    for h in [n for n in g.nodes if n.kind == "handler"]:
        cls = resolve_handler_classes(p, f, h.ast) or set()
        st = [s for s in stores if any(x is s.ast for x in ast.walk(h.ast))]
        if "ParsingError" in cls and "TransferEncodingNotImplemented" in cls:
            # one handler for both classes: inside it the stores are told apart by isinstance tests on the exception
            ev = h.ast.name
            got = {}
            for s0 in st:
                for (t, pol) in guards_of(g, s0):
                    if isinstance(t, ast.Call) and dotted(t.func) == "isinstance" and len(t.args) == 2 and dotted(t.args[0]) == ev:
                        k = (dotted(t.args[1]) or "").split(".")[-1]
                        if k in ("ParsingError", "TransferEncodingNotImplemented"):
                            which = k if pol else ("TransferEncodingNotImplemented" if k == "ParsingError" else "ParsingError")
                            got[which] = norm(s0.ast.value)
            ok2 = "BadRequest" in got.get("ParsingError", "") and "ServerNotImplemented" in got.get("TransferEncodingNotImplemented", "")
            if ok2:
                ctx.r.ok(rid, "ParsingError -> BadRequest, TransferEncodingNotImplemented -> ServerNotImplemented (one handler, isinstance dispatch)", f.loc(h.ast))
            else:
                ctx.r.violation(rid, key_of(f, None, "wrong-error-class::combined"), "the combined handler for %s does not store BadRequest for ParsingError and ServerNotImplemented for TransferEncodingNotImplemented (found: %s)" % (sorted(cls), got), f.loc(h.ast))
            continue
        want = None
        if "ParsingError" in cls:
            want = "BadRequest"
        elif "TransferEncodingNotImplemented" in cls:
            want = "ServerNotImplemented"
        if want is None:
            continue
        if st and all(want in norm(s.ast.value) for s in st):
            ctx.r.ok(rid, "%s is converted to %s" % (sorted(cls)[0], want), f.loc(h.ast))
        else:
            ctx.r.violation(rid, key_of(f, None, "wrong-error-class::" + want), "handler for %s does not store %s" % (sorted(cls), want), f.loc(h.ast))
    # relay of receiver errors: test of <br>.error before <br>.completed
    def _attr_test(n, attr):
        # `if br.error:` or `e = br.error ... if e:` (a local holding the attribute read)
        a = n.ast
        if isinstance(a, ast.Name):
            a = resolve_locals(f, a) or a
        return isinstance(a, ast.Attribute) and a.attr == attr and dotted(a.value) != "self"
    et = [n for n in g.nodes if n.kind == "test" and _attr_test(n, "error")]
    ct = [n for n in g.nodes if n.kind == "test" and _attr_test(n, "completed")]
    if not et:
        ctx.r.violation(rid, key_of(f, None, "receiver-error-not-relayed"), "the parser never looks at the body receiver's error: a malformed chunked body is accepted", f.loc())
    for c in ct:
        if et and any(g.dominates(e, c) for e in et):
            ctx.r.ok(rid, "receiver error is consulted before receiver completion", f.loc(c.ast))
        else:
            ctx.r.violation(rid, key_of(f, None, "receiver-completed-before-error"), "the parser tests the receiver's completed before its error", f.loc(c.ast))
    for e in et:
        br = [x for x in g.nodes if x.kind == "branch" and x.ast is e.ast and x.polarity]
        rel = [s for s in stores if br and g.dominates(br[0], s)]
        if rel:
            ctx.r.ok(rid, "receiver error copied into the parser's error", f.loc(e.ast))
        else:
            ctx.r.violation(rid, key_of(f, None, "receiver-error-dropped"), "receiver error is tested but not stored as the parser's error", f.loc(e.ast))
    # receiver-side: every error store in ChunkedReceiver.received stops consumption of chunk data (all_chunks_received / completed)
    rf = p.func("receiver.ChunkedReceiver.received")
    rg = cfg_of(rf)
    rst = [n for n in rg.nodes if n.kind == "stmt" and isinstance(n.ast, ast.Assign) and any(dotted(t) == "self.error" for t in n.ast.targets)]
    ctx.r.floor(rid, len(rst), 3, "receiver error stores")
    for s in rst:
        if "BadRequest" in norm(s.ast.value):
            ctx.r.ok(rid, "receiver refusal uses BadRequest", rf.loc(s.ast))
        else:
            ctx.r.violation(rid, key_of(rf, s.ast, "receiver-error-class"), "receiver stores %s" % norm(s.ast.value), rf.loc(s.ast))


def rule_r5(ctx):
    """Shared: a refused message is answered by the error task, which closes (C01.R11, C03.R7), last-resort containment (C13.R2)."""
    from . import c13
    c13.rule_r2(ctx, rid="C06.R6")
    from . import c03
    c03.rule_error_route(ctx, rid="C06.R5")


def rule_r7(ctx):
    """No pattern applied to client bytes has exponential ambiguity (no input can make a gate 'hang')."""
    from ..model import RePat
    from ..relang import Pattern, has_exponential_ambiguity, polynomial_ambiguity
    rid = "C06.R7"
    ctx.r.rule(rid, "no compiled pattern of the package has exponential degree of ambiguity (SCC test on the squared position automaton), and none that is applied to input has polynomial ambiguity with a failing continuation (IDA test on the cubed position automaton): no line makes a gate 'hang'")
    n = 0
    for modname, m in ctx.p.modules.items():
        for name, expr in m.globals.items():
            try:
                v = ctx.p.fold(expr, m)
            except Exception:
                continue
            if not isinstance(v, RePat):
                continue
            n += 1
            try:
                bad, info = has_exponential_ambiguity(v.pattern, v.flags)
            except AnalysisError as e:
                ctx.r.error(rid, "%s.%s: %s" % (modname, name, e))
                continue
            if bad:
                ctx.r.violation(rid, "eda::%s.%s" % (modname, name), "pattern %s.%s has exponential ambiguity (two distinct loops on one position reading the same word): a crafted input makes the match take exponential time" % (modname, name), m.path, info)
            else:
                ctx.r.ok(rid, "%s.%s: %d positions, no EDA" % (modname, name, info["positions"]), m.path)
            # polynomial ambiguity (IDA): x v^k can be split between two loops in k ways; when what follows makes the
            # match fail, the backtracking matcher tries them all - quadratic (or worse) in the length of the line, and a
            # line may be as long as max_request_header_size: minutes to hours of the one I/O thread for one request
            methods = sorted({c.func.attr for f in ctx.p.functions.values() for c in ast.walk(f.node) if isinstance(c, ast.Call) and isinstance(c.func, ast.Attribute)
                              and c.func.attr in ("match", "fullmatch", "search") and (dotted(c.func.value) or "").split(".")[-1] == name})
            if not methods:
                continue
            try:
                w = polynomial_ambiguity(v.pattern, v.flags)
            except AnalysisError as e:
                ctx.r.error(rid, "%s.%s: %s" % (modname, name, e))
                continue
            if w is None:
                ctx.r.ok(rid, "%s.%s: finite degree of ambiguity (no two loops share a pumpable word)" % (modname, name), m.path)
                continue
            pat = Pattern(v.pattern, v.flags)
            fails = None
            for meth in methods:
                lang = pat.language(meth)
                for z in [bytes([b]) for b in (0, 10, 32, 255)] + [b"\x00\x00", b" \x00"]:
                    if not any(lang.contains(w["prefix"] + w["pump"] * k + z) for k in (1, 2, 3, 7)):
                        fails = (meth, z)
                        break
                if fails:
                    break
            if fails is None:
                ctx.r.ok(rid, "%s.%s: two loops share a word but every continuation tried still matches (no failing run to backtrack over)" % (modname, name), m.path)
            else:
                ctx.r.violation(rid, "ida::%s.%s" % (modname, name), "pattern %s.%s (.%s) has polynomial ambiguity: %r + %r * k can be divided between two loops in k ways and %r + %r * k + %r does not match - the backtracking matcher tries all of them: super-linear time in a line that may be max_request_header_size long (the I/O thread serves nobody meanwhile)"
                                % (modname, name, fails[0], w["prefix"], w["pump"], w["prefix"], w["pump"], fails[1]), m.path, {k: (v2.decode("latin-1") if isinstance(v2, bytes) else v2) for k, v2 in w.items()})
    ctx.r.floor(rid, n, 7, "compiled patterns")


def rule_r8(ctx):
    """Shared with C11.R2/R4: once the refusal closed the connection no further input is parsed or polled."""
    from . import c11
    c11.rule_r1(ctx, rid="C06.R8")
    c11.rule_r2(ctx, rid="C06.R8")
    c11.rule_r4(ctx, rid="C06.R8")


def rule_r9(ctx):
    """Shared with C03.R1 (a refusal's response never announces keep-alive while it closes) and C03.R8 (the close after
    an error response waits for the whole response to be flushed: the client gets a complete, well-formed 4xx)."""
    from . import c03
    c03.rule_r1(ctx, rid="C06.R9")
    c03.rule_r8(ctx, rid="C06.R9")


def rule_r10(ctx, rid="C06.R10"):
    ctx.r.rule(rid, "a refusal can always be written: Task.__init__ maps every protocol version other than 1.0 / 1.1 (the request line admits any DIGIT.DIGIT or none, and the parser records it before it refuses) to 1.0 - the response builder knows those two only and raises for anything else, which would leave the refused client without a response and the connection open")
    import operator as op
    p = ctx.p
    f = p.func("task.Task.__init__")
    g = cfg_of(f)
    fixes = [n for n in g.nodes if n.kind == "stmt" and isinstance(n.ast, ast.Assign) and any((isinstance(t, ast.Name) and t.id == "version") or (isinstance(t, ast.Attribute) and t.attr == "version" and isinstance(t.value, ast.Name) and t.value.id == "self") for t in n.ast.targets)
             and isinstance(n.ast.value, ast.Constant) and n.ast.value.value == "1.0"]
    if not fixes:
        raise AnalysisError("anchor vanished: the version fallback of Task.__init__")
    ops = {ast.Eq: op.eq, ast.NotEq: op.ne, ast.Lt: op.lt, ast.LtE: op.le, ast.Gt: op.gt, ast.GtE: op.ge, ast.In: lambda a, b: a in b, ast.NotIn: lambda a, b: a not in b}
    fx = fixes[0]
    def is_ver(x):
        # the local, or - when the guard was written over a snapshot the engine expands - request.version itself
        return (isinstance(x, ast.Name) and x.id == "version") or (isinstance(x, ast.Attribute) and x.attr == "version" and norm(x.value) in ("request", "self.request"))
    gs = [(t, pol) for (t, pol) in guards_of(g, fx) if any(is_ver(x) for x in ast.walk(t))]
    wrong = None
    for ver in ("1.0", "1.1", "0.9", "0.0", "1.2", "2.0", "9.9", ""):
        taken = True
        for (t, pol) in gs:
            if not (isinstance(t, ast.Compare) and len(t.ops) == 1 and type(t.ops[0]) in ops):
                raise AnalysisError("cannot evaluate the version test %s" % norm(t))
            def val(e):
                if is_ver(e):
                    return ver
                return p.fold(e, f.module)
            try:
                r = ops[type(t.ops[0])](val(t.left), val(t.comparators[0]))
            except Exception as ex:
                raise AnalysisError("cannot evaluate the version test %s: %s" % (norm(t), ex))
            taken = taken and (bool(r) == pol)
        want = ver not in ("1.0", "1.1")
        if taken != want and wrong is None:
            wrong = (ver, taken)
    if wrong is None:
        ctx.r.ok(rid, "every version other than 1.0 / 1.1 becomes 1.0 (evaluated for 0.9, 0.0, 1.2, 2.0, 9.9 and none)", f.loc(fx.ast))
    else:
        ctx.r.violation(rid, key_of(f, None, "version-fallback::" + wrong[0]), "the version fallback of Task.__init__ (%s) %s version %r: the response builder raises for it, a refused message with that version gets no error response and its connection is never closed"
                        % (" and ".join(("" if pol else "not ") + norm(t) for (t, pol) in gs), "does not map" if not wrong[1] else "rewrites", wrong[0]), f.loc(fx.ast))


def rule_r11(ctx):
    """Shared with C04.R4: 'exactly one error response' - a queued refused message is handed to the pool exactly once, which
    needs every test-the-queue-and-dispatch to be one requests_lock region (tested outside, the worker that just popped its
    request and the I/O thread that just queued the refused one both dispatch: the 4xx goes out twice)."""
    from . import c04
    c04.rule_r4(ctx, rid="C06.R11")


RULES = [rule_r1, rule_r2, rule_r3, rule_r4, rule_r5, rule_r7, rule_r8, rule_r9, rule_r10, rule_r11]

from ..selftest import M, T, V  # noqa: E402

selftest = [
    M("int-try-removed", "parser.py", "            try:\n                cl = int(cl)\n            except ValueError:\n                # int() refuses digit strings beyond sys.get_int_max_str_digits()\n                raise ParsingError(\"Content-Length is invalid\")\n", "            cl = int(cl)\n", "R1"),
    M("urlsplit-unicodeerror-only", "parser.py", "        except ValueError:\n            raise ParsingError(\"Bad URI\")", "        except UnicodeError:\n            raise ParsingError(\"Bad URI\")", "R1"),
    M("decode-utf8", "parser.py", "self.request_uri = uri.decode(\"latin-1\")", "self.request_uri = uri.decode(\"utf-8\")", "R1"),
    M("parsingerror-uncaught", "parser.py", "                    except ParsingError as e:\n                        self.error = BadRequest(e.args[0])\n                        self.completed = True\n                    except TransferEncodingNotImplemented as e:", "                    except TransferEncodingNotImplemented as e:", "R1"),
    M("raise-without-arg", "parser.py", "raise ParsingError(\"Start line is invalid\")", "raise ParsingError", "R1"),
    M("header-limit-gt", "parser.py", "if self.header_bytes_received >= max_header:", "if self.header_bytes_received > max_header:", "R2"),
    M("parse-before-limit", "parser.py", "            if self.header_bytes_received >= max_header:\n                self.parse_header(b\"GET / HTTP/1.0\\r\\n\")", "            if index >= 0 and self.header_bytes_received >= 2 * max_header:\n                self.parse_header(b\"GET / HTTP/1.0\\r\\n\")", "R2"),
    M("body-limit-gt", "parser.py", "if self.content_length >= max_body:", "if self.content_length > max_body:", "R3"),
    M("chunked-limit-gt", "parser.py", "if self.body_bytes_received >= max_body:", "if self.body_bytes_received > max_body:", "R3"),
    M("error-without-completed", "parser.py", "                                self.error = RequestEntityTooLarge(\n                                    \"exceeds max_body of %s\" % max_body\n                                )\n                                self.completed = True", "                                self.error = RequestEntityTooLarge(\n                                    \"exceeds max_body of %s\" % max_body\n                                )", "R4"),
    M("receiver-error-ignored", "parser.py", "            elif br.error:\n                # garbage in chunked encoding input probably\n                self.error = br.error\n                self.completed = True\n            elif br.completed:", "            elif br.completed:", "R4"),
    M("completed-before-error", "parser.py", "            elif br.error:\n                # garbage in chunked encoding input probably\n                self.error = br.error\n                self.completed = True\n            elif br.completed:\n                # The request (with the body) is ready to use.\n                self.completed = True\n", "            elif br.completed:\n                # The request (with the body) is ready to use.\n                self.completed = True\n            elif br.error:\n                self.error = br.error\n                self.completed = True\n            if br.completed:\n", None),
    M("wrong-code", "utilities.py", "class RequestEntityTooLarge(BadRequest):\n    code = 413", "class RequestEntityTooLarge(BadRequest):\n    code = 400", "R4"),
    M("te-as-400", "parser.py", "self.error = ServerNotImplemented(e.args[0])", "self.error = BadRequest(e.args[0])", "R4"),
    M("body-total-not-accumulated", "parser.py", "            self.body_bytes_received += consumed\n", "            self.body_bytes_received = consumed\n", "R3"),
    M("field-content-nested-plus", "rfc7230.py", 'FIELD_CONTENT = FIELD_VCHAR + "+(?:[ \\t]+" + FIELD_VCHAR + "+)*"', 'FIELD_CONTENT = "(?:" + FIELD_VCHAR + "+[ \\t]*)+"', None),
    M("first-line-two-loops", "parser.py", '    rb"(?P<uri>[\\x21-\\x7e\\x80-\\xff]+)"\n', '    rb"(?P<uri>(?:[^\\x00-\\x20\\x7f:?#]+://[^\\x00-\\x20\\x7f?#/]*)?[\\x21-\\x7e\\x80-\\xff]+)"\n', "R7"),
    M("header-field-adjacent-ows", "rfc7230.py", '"(?P<value>(?:" + FIELD_CONTENT + OWS + ")?)$"', '"(?P<value>" + FIELD_VALUE + ")" + OWS + "$"', "R7"),
    T("catch-together", "parser.py", "        except ValueError:\n            raise ParsingError(\"Bad URI\")", "        except (ValueError, TypeError):\n            raise ParsingError(\"Bad URI\")"),
    T("limit-swapped", "parser.py", "if self.header_bytes_received >= max_header:", "if max_header <= self.header_bytes_received:"),
    T("limit-not-less", "parser.py", "if self.content_length >= max_body:", "if not self.content_length < max_body:"),
]
